"""C43 — the flow view always shows exactly the matching flows, in order.

Engine: simkit/model-world.  The real ``mitmproxy.addons.view.View`` (with its real Focus and
Settings objects, real flowfilter expressions and real flows of all four types) is driven by
a seeded history in which two actors are interleaved by a seeded scheduler:

* traffic: flows are created and announced through the addon's event handlers
  (requestheaders / tcp_start / udp_start / dns_request), mutated (method, URL/address/question,
  sizes, response, error, mark, liveness) and announced through the update handlers (response,
  error, intercept, resume, kill, tcp_message, ...), killed, re-announced.  As in the real proxy
  (a layer changes the flow first, the hook that makes the addon run ``update()`` fires later on
  the same event loop) the change and its announcement are also generated as two SEPARATE
  operations: ``mutate`` (attributes change, the view is not told) and, possibly after other
  traffic and user operations, the ``update`` that delivers the hook;
* user: filter / order / reverse / marked-only / clear / clear-unmarked / remove / duplicate /
  focus moves / focus-follow / per-flow settings.

After *every* operation an independent reference model (written from the property statement and
the documented meaning of filters and sort orders, never reading View internals) is compared
with what the view lists, the focus, the settings store and the signals that were sent while
the operation ran.  The run stops at the first operation with a violation (later differences
would be consequences of the first).

What is owed while a change has not been announced yet ("stale" flow): the view cannot know about
it, so the model keeps, per stored flow, the attributes as of the last time the view evaluated the
filter for it (add, update of that flow, every re-filter: set_filter / toggle_marked /
clear_unmarked evaluate all stored flows) and the attributes as of the last time its sort key was
taken (insert into the view, update of that flow, re-filter, set_order: keys of all listed flows).
Membership by filter and position are owed for THOSE attributes; everything else is owed
unconditionally: a removed / cleared flow is neither listed nor stored and has no settings, every
listed flow is stored, the focus is a listed flow, notifications match the changes.  After the
``update`` both snapshots are the live attributes again, i.e. the full property holds.
"""
from __future__ import annotations

import copy
import gc
import re
import weakref

from mitmproxy import dns as mdns
from mitmproxy import flow as mflow
from mitmproxy import flowfilter
from mitmproxy import http as mhttp
from mitmproxy import tcp as mtcp
from mitmproxy import udp as mudp
from mitmproxy.addons import view as viewmod
from mitmproxy.test import tflow

from simkit.world import digest

ID = "C43"
LEVEL = "exploration"
ENGINE = "simkit/model-world"
QUICK_RUNS = 80000     # ~150 full-length runs/s/core (about 35 s on 16 cores)
QUICK_BUDGET_S = 120
THOROUGH_BUDGET_S = 900
CHUNK = 500
RULE = ("seeded histories of 12-110 operations by two interleaved actors (seeded scheduler with run lengths): traffic "
        "(announce new HTTP/TCP/UDP/DNS flows, mutate sort keys + filter-relevant attributes then fire the matching "
        "update hook, batch updates, kills, marks, re-announce; in 60% of the runs also `mutate` = the change alone, "
        "the update hook being delivered by a later operation so that user and traffic operations run while a flow's "
        "cached sort key / filter verdict is out of date) and user (filter from a pool of 22 expressions, 4 orders, "
        "reverse, marked-only toggle, clear, clear-unmarked, remove, duplicate, focus go/next/prev/set/index, "
        "focus-follow, settings); a per-run profile switches marked-only mode, key mutation, filters and the set of "
        "orders on/off so that every feature also runs without the others; in 40% of the runs subscribers of the "
        "view's signals come and go between operations (short-lived widgets on a subset of the six signals and further "
        "long-lived notification mirrors are connected at seeded points, before and after each other; widgets - now "
        "and then a mirror - are dropped: last strong reference deleted, collection verified through a weak "
        "reference) and every mirror alive over an operation is owed the notifications of that operation; non-trivial = both actors acted, the view "
        "held >= 2 flows at some point and at least one update and one user view-change happened; distinct = distinct "
        "digests of the abstract log (op, listed labels, focus, signals)")
COMPONENTS_REAL = ["addons.view.View", "addons.view.Focus", "addons.view.Settings", "addons.view._OrderKey*",
                   "flowfilter (parser + matchers)", "http/tcp/udp/dns Flow classes", "utils.signals",
                   "sortedcontainers.SortedListWithKey"]
COMPONENTS_STUB = ["proxy core (flows are built and mutated by the traffic actor, hooks are called directly)",
                   "console/web UI (a recording signal subscriber stands in for it)"]
ASSUMPTIONS = ["a flow mutation is announced by the corresponding update hook either in the same operation or by a later "
               "one; in between (the view cannot know about silent changes) filter membership is owed for the attributes "
               "the view last evaluated (add / update of the flow / re-filter of all stored flows) and the position for "
               "the sort key as of the last insert / update / re-filter / set_order; store, settings, focus and "
               "notification obligations are owed unconditionally",
               "ties in the selected sort key may be listed in any relative order",
               "signals are checked against a membership replica of a subscriber: add/remove must be applicable, "
               "refresh reloads, the replica must equal the listed flows when the operation returns; a pure re-order "
               "is not required to be signalled",
               "a subscriber whose object has been deleted and collected is owed nothing; every other subscriber that "
               "was connected when an operation started is owed the notifications of that operation, whichever "
               "subscribers were connected before or after it and have gone away since",
               "exceptions documented by the API (focus setter on a hidden flow, index out of bounds, settings of a "
               "flow that is not stored) are not violations"]
EXPECTED_PROBES = ["add_in_marked_only", "update_in_marked_only", "order_switch_back_after_key_change",
                   "key_change_in_view", "key_change_while_hidden", "update_enters_view", "update_leaves_view",
                   "remove_shown", "remove_hidden", "remove_focused", "duplicate", "clear", "clear_unmarked",
                   "readd_removed", "reversed_listing", "tie_keys", "refilter_nonempty", "focus_follow_add",
                   "update_unstored", "batch_update", "kill",
                   # change and update hook as separate operations
                   "mutated_without_update", "mutate_key_drift_in_view", "deliver_after_mutate", "remove_while_stale",
                   "clear_while_stale", "clear_unmarked_while_stale", "refilter_while_stale", "set_order_while_stale",
                   "set_reversed_while_stale", "duplicate_while_stale", "update_other_while_stale",
                   "add_stored_id_while_stale", "focus_on_stale", "stale_filter_verdict", "stale_position_owed",
                   # subscribers of the view's signals come and go
                   "widget_connected", "late_mirror_connected", "late_mirror_connected_after_live_widget",
                   "late_mirror_notified", "listener_dropped", "listener_dropped_before_live_mirror",
                   "listener_dropped_right_before_live_mirror", "listener_dropped_last_connected",
                   "first_add_after_listener_drop", "first_remove_after_listener_drop",
                   "first_update_after_listener_drop", "first_refresh_after_listener_drop"]

ORDERS = ["time", "method", "url", "size"]
TYPES = ["http", "http", "http", "tcp", "udp", "dns", "dns"]

# RFC 1035 / 1996 / 2136 names of the DNS op-codes used here
DNS_OPNAME = {0: "QUERY", 1: "IQUERY", 2: "STATUS", 4: "NOTIFY", 5: "UPDATE"}

HTTP_METHODS = ["GET", "GET", "POST", "PUT", "DELETE"]
HTTP_URLS = ["http://a.test/", "http://a.test/p1", "https://b.test:8443/x", "http://aa.test/z?q=1",
             "https://c.test/", "http://b.test/p1"]
ADDRS = [["a.test", 80], ["b.test", 8443], ["10.0.0.1", 53], ["c.test", 443]]
QNAMES = ["a.test", "b.test", "zz.example", None]
REQ_SIZES = [0, 0, 3, 10, 200]
RESP = [None, [200, 0], [200, 5], [200, 999], [404, 10], [304, 0], [200, 10]]
MSGS = [[], [5], [5, 7], [100], [1, 1, 1], [12]]
DNS_RESP = [None, [], [4], [4, 16], [12]]

# ---------------------------------------------------------------------------
# filter pool: expression text (parsed by the real flowfilter) -> tiny AST for the reference model
# ---------------------------------------------------------------------------
FILTERS = {
    "": ("all",),
    "~all": ("all",),
    "~http": ("type", "http"),
    "~tcp": ("type", "tcp"),
    "~udp": ("type", "udp"),
    "~dns": ("type", "dns"),
    "~marked": ("marked",),
    "!~marked": ("not", ("marked",)),
    "~e": ("error",),
    "!~e": ("not", ("error",)),
    "~q": ("noresp",),
    "~s": ("resp",),
    "!~q": ("not", ("noresp",)),
    "~m POST": ("method", "POST"),
    "~m GET": ("method", "GET"),
    "~d a\\.test": ("domain", "a\\.test"),
    "~d ^b": ("domain", "^b"),
    "~c 200": ("code", 200),
    "~c 404": ("code", 404),
    "~http & ~s": ("and", ("type", "http"), ("resp",)),
    "~tcp | ~dns": ("or", ("type", "tcp"), ("type", "dns")),
    "~marked | ~e": ("or", ("marked",), ("error",)),
    "!( ~http | ~udp )": ("not", ("or", ("type", "http"), ("type", "udp"))),
}
FILTER_POOL = sorted(FILTERS)

_PARSED: dict[str, object] = {}


def _parse(expr):
    # pure: expression text -> stateless matcher object; cached because pyparsing is slow
    if expr not in _PARSED:
        _PARSED[expr] = flowfilter.parse(expr)
    return _PARSED[expr]


# ---------------------------------------------------------------------------
# reference model of one flow (plain dict "attrs") — documented meaning of keys and filters
# ---------------------------------------------------------------------------
def m_host(a):
    # host part of an http(s) URL from the pool (scheme://host[:port]/...)
    return re.match(r"^[a-z]+://([^/:]+)", a["url"]).group(1)


def m_key(a, order):
    t = a["type"]
    if order == "time":
        return a["ts"]
    if order == "method":
        if t == "http":
            return a["method"]
        if t in ("tcp", "udp"):
            return t.upper()
        return DNS_OPNAME[a["opcode"]]
    if order == "url":
        if t == "http":
            return a["url"]
        if t in ("tcp", "udp"):
            return "%s:%d" % (a["addr"][0], a["addr"][1])
        return a["qname"] or ""
    if order == "size":
        if t == "http":
            return a["req_size"] + (a["resp"][1] if a["resp"] else 0)
        if t in ("tcp", "udp"):
            return sum(a["msgs"])
        return sum(a["resp"]) if a["resp"] is not None else 0
    raise KeyError(order)


def m_match(ast, a):
    k = ast[0]
    t = a["type"]
    if k == "all":
        return True
    if k == "type":
        return t == ast[1]
    if k == "marked":
        return a["marked"]
    if k == "error":
        return a["error"]
    if k == "noresp":
        return t in ("http", "dns") and a["resp"] is None
    if k == "resp":
        return t in ("http", "dns") and a["resp"] is not None
    if k == "method":
        return t == "http" and re.search(ast[1], a["method"]) is not None
    if k == "domain":
        return t == "http" and re.search(ast[1], m_host(a), re.I) is not None
    if k == "code":
        return t == "http" and a["resp"] is not None and a["resp"][0] == ast[1]
    if k == "not":
        return not m_match(ast[1], a)
    if k == "and":
        return m_match(ast[1], a) and m_match(ast[2], a)
    if k == "or":
        return m_match(ast[1], a) or m_match(ast[2], a)
    raise KeyError(k)


# ---------------------------------------------------------------------------
# real flows
# ---------------------------------------------------------------------------
def make_real(a):
    t = a["type"]
    if t == "http":
        f = tflow.tflow()
    elif t == "tcp":
        f = tflow.ttcpflow()
    elif t == "udp":
        f = tflow.tudpflow()
    else:
        f = tflow.tdnsflow()
    f.timestamp_created = a["ts"]
    apply_real(f, a, a)
    return f


def apply_real(f, a, changed):
    """Write the attributes named in ``changed`` (values from ``a``) onto the real flow."""
    t = a["type"]
    for k in changed:
        if k == "marked":
            f.marked = ":pin:" if a["marked"] else ""
        elif k == "error":
            if a["error"]:
                if not f.error:
                    f.error = mflow.Error("simulated failure")
            else:
                f.error = None
        elif k == "live":
            f.live = a["live"]
        elif k == "ts":
            f.timestamp_created = a["ts"]
        elif t == "http":
            if k == "method":
                f.request.method = a["method"]
            elif k == "url":
                f.request.url = a["url"]
            elif k == "req_size":
                f.request.content = b"q" * a["req_size"]
            elif k == "resp":
                if a["resp"] is None:
                    f.response = None
                else:
                    f.response = mhttp.Response.make(a["resp"][0], b"r" * a["resp"][1])
        elif t in ("tcp", "udp"):
            if k == "addr":
                f.server_conn.address = (a["addr"][0], a["addr"][1])
            elif k == "msgs":
                cls = mtcp.TCPMessage if t == "tcp" else mudp.UDPMessage
                f.messages = [cls(i % 2 == 0, b"m" * n, 1.0) for i, n in enumerate(a["msgs"])]
        elif t == "dns":
            if k == "opcode":
                f.request.op_code = a["opcode"]
            elif k == "qname":
                if a["qname"] is None:
                    f.request.questions = []
                else:
                    f.request.questions = [mdns.Question(a["qname"], mdns.types.A, mdns.classes.IN)]
            elif k == "resp":
                if a["resp"] is None:
                    f.response = None
                else:
                    r = tflow.tdnsresp()
                    r.answers = [mdns.ResourceRecord("x.test", mdns.types.TXT, mdns.classes.IN, 60, b"d" * n)
                                 for n in a["resp"]]
                    r.authorities = []
                    r.additionals = []
                    f.response = r


ADD_HOOK = {"http": "requestheaders", "tcp": "tcp_start", "udp": "udp_start", "dns": "dns_request"}
UPDATE_HOOKS = {"http": ["response", "error", "intercept", "resume", "response"],
                "tcp": ["tcp_message", "tcp_message", "tcp_error", "tcp_end"],
                "udp": ["udp_message", "udp_message", "udp_error", "udp_end"],
                "dns": ["dns_response", "dns_response", "dns_error"]}
KILL_HOOK = {"http": "kill", "tcp": "tcp_error", "udp": "udp_error", "dns": "dns_error"}
ALL_UPDATE_HOOKS = {h for v in UPDATE_HOOKS.values() for h in v} | set(KILL_HOOK.values())

# operations that have no documented way to fail on valid input
MUST_NOT_RAISE = {"add", "update", "update_batch", "kill", "remove", "set_filter", "set_order", "set_reversed",
                  "toggle_marked", "clear", "clear_unmarked", "focus_go", "focus_next", "focus_prev", "focus_follow",
                  "mutate"}
VIA = {"add": "add", "duplicate": "add", "update": "update", "update_batch": "update", "kill": "update",
       "mutate": "mutate",
       "set_filter": "refilter", "toggle_marked": "refilter", "clear_unmarked": "refilter",
       "set_order": "order", "set_reversed": "order", "remove": "remove", "clear": "clear",
       "focus_go": "focus", "focus_next": "focus", "focus_prev": "focus", "focus_set": "focus", "focus_index": "focus"}


# ---------------------------------------------------------------------------
# generator
# ---------------------------------------------------------------------------
def _attrs(r, t, profile):
    a = {"type": t, "ts": 100.0 + r.randrange(0, 6) * 0.5, "marked": r.random() < 0.25, "error": False, "live": True}
    if t == "http":
        a.update(method=r.choice(HTTP_METHODS), url=r.choice(HTTP_URLS), req_size=r.choice(REQ_SIZES),
                 resp=copy.deepcopy(r.choice(RESP[:3])))
    elif t in ("tcp", "udp"):
        a.update(addr=list(r.choice(ADDRS)), msgs=list(r.choice(MSGS)))
    else:
        a.update(opcode=r.choice(sorted(DNS_OPNAME)), qname=r.choice(QNAMES), resp=copy.deepcopy(r.choice(DNS_RESP[:2])))
    return a


def _mutation(r, t, profile):
    s = {}
    n = r.choice([1, 1, 2, 3])
    if profile["mutate_keys"]:
        if t == "http":
            keys = ["method", "url", "req_size", "resp", "resp", "marked", "error", "live"]
        elif t in ("tcp", "udp"):
            keys = ["addr", "msgs", "msgs", "marked", "error", "live"]
        else:
            keys = ["opcode", "qname", "resp", "resp", "marked", "error", "live"]
    else:
        keys = ["marked", "error", "live", "marked"]
    for _ in range(n):
        k = r.choice(keys)
        if k == "marked":
            s[k] = r.random() < 0.5
        elif k == "error":
            s[k] = r.random() < 0.7
        elif k == "live":
            s[k] = False
        elif k == "method":
            s[k] = r.choice(HTTP_METHODS)
        elif k == "url":
            s[k] = r.choice(HTTP_URLS)
        elif k == "req_size":
            s[k] = r.choice(REQ_SIZES)
        elif k == "resp":
            s[k] = copy.deepcopy(r.choice(RESP if t == "http" else DNS_RESP))
        elif k == "addr":
            s[k] = list(r.choice(ADDRS))
        elif k == "msgs":
            s[k] = list(r.choice(MSGS))
        elif k == "opcode":
            s[k] = r.choice(sorted(DNS_OPNAME))
        elif k == "qname":
            s[k] = r.choice(QNAMES)
    return s


ORDER_ATTRS = {"time": {},
               "method": {"http": ["method"], "dns": ["opcode"]},
               "url": {"http": ["url"], "tcp": ["addr"], "udp": ["addr"], "dns": ["qname"]},
               "size": {"http": ["req_size", "resp", "resp"], "tcp": ["msgs"], "udp": ["msgs"], "dns": ["resp"]}}


def _silent_mutation(r, t, profile, order):
    """What a proxy layer changes on a flow BEFORE the hook fires that tells the view: the sort-relevant attributes
    (size, URL/address/question, method/op-code, creation time) and, less often, error and mark."""
    if profile["mutate_keys"]:
        if t == "http":
            keys = ["method", "url", "url", "req_size", "resp", "resp", "resp", "ts", "error", "marked"]
        elif t in ("tcp", "udp"):
            keys = ["addr", "msgs", "msgs", "msgs", "ts", "error", "marked"]
        else:
            keys = ["opcode", "qname", "resp", "resp", "ts", "error", "marked"]
    else:
        keys = ["marked", "error"]
    s = {}
    for j in range(r.choice([1, 1, 1, 2, 3])):
        k = r.choice(keys)
        if j == 0 and profile["mutate_keys"] and order != "time" and r.random() < 0.5:
            # aimed at the order the user selected last (creation time practically never changes: not aimed at)
            k = r.choice(ORDER_ATTRS[order].get(t) or keys)
        if k == "marked":
            s[k] = r.random() < 0.5
        elif k == "error":
            s[k] = r.random() < 0.7
        elif k == "ts":
            s[k] = 100.0 + r.randrange(0, 6) * 0.5
        elif k == "method":
            s[k] = r.choice(HTTP_METHODS)
        elif k == "url":
            s[k] = r.choice(HTTP_URLS)
        elif k == "req_size":
            s[k] = r.choice(REQ_SIZES)
        elif k == "resp":
            s[k] = copy.deepcopy(r.choice(RESP[1:] if t == "http" else DNS_RESP[1:]))
        elif k == "addr":
            s[k] = list(r.choice(ADDRS))
        elif k == "msgs":
            s[k] = list(r.choice(MSGS))
        elif k == "opcode":
            s[k] = r.choice(sorted(DNS_OPNAME))
        elif k == "qname":
            s[k] = r.choice(QNAMES)
    return s


def _wchoice(r, items):
    tot = sum(w for _, w in items)
    x = r.random() * tot
    for v, w in items:
        x -= w
        if x <= 0:
            return v
    return items[-1][0]


def generate(rng, tier):
    rp, rs, rt, ru = rng.at("c43.profile"), rng.at("c43.sched"), rng.at("c43.traffic"), rng.at("c43.user")
    norders = rp.choice([1, 2, 2, 3, 4, 4])
    profile = {"marked_only": rp.random() < 0.5, "mutate_keys": rp.random() < 0.65, "filters": rp.random() < 0.75,
               "orders": sorted(rp.sample(ORDERS, norders), key=ORDERS.index)}
    n_ops = rp.choice([12, 25, 25, 40, 60, 60, 110] if tier == "quick" else [25, 60, 110, 200, 400])
    max_flows = rp.choice([4, 8, 8, 14])
    # change and update hook as separate operations (own site: the other profile draws stay what they were)
    profile["split_hooks"] = rng.at("c43.profile.split").random() < 0.6
    split = profile["split_hooks"]
    ops = []
    labels = []  # [label, type]
    types = {}
    stored = set()  # generator's rough idea of what is stored (only used to aim operations)
    pending = []    # labels with a change whose update hook has not been delivered yet (rough, aiming only)
    cur_order = "time"
    actor = "traffic"
    switch_p = rs.choice([0.15, 0.3, 0.5, 0.8])
    n_new = 0

    def pick(r, prefer_stored=True, aim_stale=0.0):
        if not labels:
            return None
        if aim_stale and pending:
            # user operations are aimed at flows that are waiting for their update hook now and then
            cand = [l for l in pending if l in stored]
            if cand and r.random() < aim_stale:
                return r.choice(cand)
        if prefer_stored and stored and r.random() < 0.85:
            return r.choice(sorted(stored))
        return r.choice(labels)

    def announced(lab):
        if lab in pending:
            pending.remove(lab)

    for i in range(n_ops):
        if rs.random() < switch_p:
            actor = "user" if actor == "traffic" else "traffic"
        if not labels:
            actor = "traffic"
        if actor == "traffic":
            r = rt
            w_add = 5.0 if len(labels) < 2 else (2.5 if len(labels) < max_flows else 0.1)
            if split:
                kind = _wchoice(r, [("add", w_add), ("update", 2.5), ("batch", 0.6), ("kill", 0.4), ("readd", 0.6),
                                    ("mark", 0.8), ("mutate", 3.0), ("deliver", 2.0 if pending else 0.0)])
            else:
                kind = _wchoice(r, [("add", w_add), ("update", 5.0), ("batch", 0.8), ("kill", 0.4), ("readd", 0.5),
                                    ("mark", 1.0)])
            if kind == "mutate" and labels:
                lab = pick(r)
                if lab not in pending:
                    pending.append(lab)
                ops.append({"actor": "traffic", "op": "mutate", "flow": lab,
                            "set": _silent_mutation(r, types[lab], profile, cur_order)})
            elif kind == "deliver" and labels:
                # the hook for an earlier change arrives (now and then together with a further change)
                lab = pending.pop(0) if r.random() < 0.6 else pending.pop(r.randrange(len(pending)))
                t = types[lab]
                ops.append({"actor": "traffic", "op": "update", "flow": lab, "hook": r.choice(UPDATE_HOOKS[t]),
                            "set": _mutation(r, t, profile) if r.random() < 0.25 else {}})
            elif kind == "add" or not labels:
                t = r.choice(TYPES)
                lab = "f%d" % n_new
                n_new += 1
                labels.append(lab)
                types[lab] = t
                stored.add(lab)
                ops.append({"actor": "traffic", "op": "add", "flow": lab, "new": _attrs(r, t, profile)})
            elif kind == "update":
                lab = pick(r)
                t = types[lab]
                announced(lab)
                ops.append({"actor": "traffic", "op": "update", "flow": lab, "hook": r.choice(UPDATE_HOOKS[t]),
                            "set": _mutation(r, t, profile)})
            elif kind == "mark":
                lab = pick(r)
                announced(lab)
                ops.append({"actor": "traffic", "op": "update", "flow": lab, "hook": r.choice(UPDATE_HOOKS[types[lab]]),
                            "set": {"marked": r.random() < 0.6}})
            elif kind == "batch":
                k = r.choice([2, 2, 3])
                items = []
                for _ in range(k):
                    lab = pick(r)
                    announced(lab)
                    items.append({"flow": lab, "set": _mutation(r, types[lab], profile)})
                ops.append({"actor": "traffic", "op": "update_batch", "flows": items})
            elif kind == "kill":
                lab = pick(r)
                announced(lab)
                ops.append({"actor": "traffic", "op": "kill", "flow": lab})
            else:
                lab = pick(r, prefer_stored=False, aim_stale=0.3)  # also: an id that is stored (ignored by the view)
                stored.add(lab)
                ops.append({"actor": "traffic", "op": "add", "flow": lab})
        else:
            r = ru
            kind = _wchoice(r, [("set_filter", 2.0 if profile["filters"] else 0.0),
                                ("set_order", 2.0), ("set_reversed", 1.0),
                                ("toggle_marked", 1.6 if profile["marked_only"] else 0.0),
                                ("clear", 0.25), ("clear_unmarked", 0.5), ("remove", 1.5), ("duplicate", 1.0),
                                ("focus", 2.0), ("focus_follow", 0.3), ("setting", 0.4)])
            if kind == "set_filter":
                ops.append({"actor": "user", "op": "set_filter", "expr": r.choice(FILTER_POOL)})
            elif kind == "set_order":
                cur_order = r.choice(profile["orders"])
                ops.append({"actor": "user", "op": "set_order", "order": cur_order})
            elif kind == "set_reversed":
                ops.append({"actor": "user", "op": "set_reversed", "value": r.random() < 0.6})
            elif kind == "toggle_marked":
                ops.append({"actor": "user", "op": "toggle_marked"})
            elif kind == "clear":
                stored.clear()
                ops.append({"actor": "user", "op": "clear"})
            elif kind == "clear_unmarked":
                ops.append({"actor": "user", "op": "clear_unmarked"})
            elif kind == "remove":
                k = r.choice([1, 1, 1, 2, 3])
                sel = []
                for _ in range(k):
                    lab = pick(r, aim_stale=0.5)
                    if lab not in sel:
                        sel.append(lab)
                for lab in sel:
                    stored.discard(lab)  # stays in `pending`: the hook of a removed flow still arrives later
                ops.append({"actor": "user", "op": "remove", "flows": sel})
            elif kind == "duplicate":
                k = r.choice([1, 1, 2])
                sel = []
                for _ in range(k):
                    lab = pick(r, aim_stale=0.3)
                    if lab not in sel:
                        sel.append(lab)
                for lab in sel:
                    nl = "%s~%d" % (lab, i)
                    labels.append(nl)
                    types[nl] = types[lab]
                    stored.add(nl)
                ops.append({"actor": "user", "op": "duplicate", "n": i, "flows": sel})
            elif kind == "focus":
                fk = r.choice(["focus_go", "focus_next", "focus_prev", "focus_next", "focus_prev", "focus_set",
                               "focus_index"])
                if fk == "focus_go":
                    ops.append({"actor": "user", "op": fk, "offset": r.choice([0, 1, 2, 5, -1, -2, -9, 30])})
                elif fk == "focus_set":
                    ops.append({"actor": "user", "op": fk, "flow": pick(r, aim_stale=0.3)})
                elif fk == "focus_index":
                    ops.append({"actor": "user", "op": fk, "index": r.choice([0, 0, 1, 2, 3, 7, -1])})
                else:
                    ops.append({"actor": "user", "op": fk})
            elif kind == "focus_follow":
                ops.append({"actor": "user", "op": "focus_follow", "value": r.random() < 0.7})
            else:
                ops.append({"actor": "user", "op": "setting", "flow": pick(r, prefer_stored=r.random() < 0.7),
                            "name": r.choice(["k1", "k2"]), "value": r.choice(["a", "b"])})
    # subscribers of the view's signals come and go (own site, ops are inserted afterwards: everything above keeps
    # its shape): short-lived "widgets" and further long-lived notification mirrors are connected at seeded points of
    # the history, widgets (now and then a mirror) go away again between two operations
    rl = rng.at("c43-listeners")
    profile["listener_churn"] = rl.random() < 0.4
    if profile["listener_churn"]:
        ops = _insert_listener_ops(rl, ops)
    return {"family": "view", "profile": profile, "ops": ops}


VIEW_SIGNALS = ["view_add", "view_remove", "view_update", "view_refresh"]
ALL_SIGNALS = VIEW_SIGNALS + ["store_remove", "store_refresh"]


def _insert_listener_ops(r, ops):
    n = len(ops)
    ins = []  # (position in the original history, sequence number, op)
    uid = 0
    for _ in range(r.choice([1, 1, 2, 2, 3])):
        p = r.randrange(0, n + 1)
        if r.random() < 0.3:
            p = 0  # subscribers that connect right after start-up, before any traffic
        kinds = [("widget" if r.random() < 0.65 else "mirror") for _ in range(r.choice([1, 2, 2, 3]))]
        if r.random() < 0.7 and kinds[-1] != "mirror":
            kinds.append("mirror")  # the long-lived consumer connects after the short-lived ones
        for k in kinds:
            if k == "widget":
                x = r.random()
                sigs = (VIEW_SIGNALS if x < 0.45 else ALL_SIGNALS if x < 0.65
                        else sorted(r.sample(ALL_SIGNALS, r.choice([1, 2, 3])), key=ALL_SIGNALS.index))
                ins.append((p, len(ins), {"actor": "ui", "op": "ui_open", "id": uid, "kind": "widget",
                                          "signals": list(sigs)}))
                # it goes away later on (mostly soon: while the consumers connected after it are still there)
                q = min(n, p + r.choice([0, 1, 2, 3, 5, 8])) if r.random() < 0.6 else r.randrange(p, n + 1)
                if r.random() < 0.9:
                    ins.append((q, 10000 + len(ins), {"actor": "ui", "op": "ui_close", "id": uid}))
            else:
                ins.append((p, len(ins), {"actor": "ui", "op": "ui_open", "id": uid, "kind": "mirror"}))
                if r.random() < 0.15:
                    ins.append((r.randrange(p, n + 1), 10000 + len(ins), {"actor": "ui", "op": "ui_close", "id": uid}))
            uid += 1
    ins.sort(key=lambda t: (t[0], t[1]))
    out = []
    j = 0
    for i in range(n + 1):
        while j < len(ins) and ins[j][0] == i:
            out.append(ins[j][2])
            j += 1
        if i < n:
            out.append(ops[i])
    return out


# ---------------------------------------------------------------------------
# executor + oracle
# ---------------------------------------------------------------------------
class _Widget:
    """A short-lived subscriber (a UI element that is closed later): counts what it is told, nothing else."""

    def __init__(self, seq):
        self.seq = seq
        self.kind = "widget"
        self.signals = []
        self.seen = 0

    def view_add(self, flow):
        self.seen += 1

    def view_remove(self, flow, index):
        self.seen += 1

    def view_update(self, flow):
        self.seen += 1

    def view_refresh(self):
        self.seen += 1

    def store_remove(self, flow):
        self.seen += 1

    def store_refresh(self):
        self.seen += 1


class _LateMirror:
    """A further long-lived consumer, connected somewhere in the middle of the history: follows the listing through the
    notifications alone, exactly like the subscriber that is connected from the start."""

    def __init__(self, run, seq):
        self.run = run
        self.seq = seq
        self.kind = "mirror"
        self.signals = list(ALL_SIGNALS)
        self.replica = set()
        self.raw_sigs = []
        self.sig_problems = []

    def view_add(self, flow):
        self.run.on_signal("add", flow, None, self)

    def view_remove(self, flow, index):
        self.run.on_signal("remove", flow, index, self)

    def view_update(self, flow):
        self.run.on_signal("update", flow, None, self)

    def view_refresh(self):
        self.run.on_signal("refresh", None, None, self)

    def store_remove(self, flow):
        pass

    def store_refresh(self):
        pass


class _Recorder:
    """Stands in for a UI: subscribes to every signal of the view (the signals only keep weak references)."""

    def __init__(self, run):
        self.run = run

    def view_add(self, flow):
        self.run.on_signal("add", flow)

    def view_remove(self, flow, index):
        self.run.on_signal("remove", flow, index)

    def view_update(self, flow):
        self.run.on_signal("update", flow)

    def view_refresh(self):
        self.run.on_signal("refresh", None)

    def store_remove(self, flow):
        self.run.on_signal("store_remove", flow)

    def store_refresh(self):
        self.run.on_signal("store_refresh", None)


class _Run:
    def __init__(self):
        self.view = viewmod.View()
        self.rec = _Recorder(self)
        v = self.view
        v.sig_view_add.connect(self.rec.view_add)
        v.sig_view_remove.connect(self.rec.view_remove)
        v.sig_view_update.connect(self.rec.view_update)
        v.sig_view_refresh.connect(self.rec.view_refresh)
        v.sig_store_remove.connect(self.rec.store_remove)
        v.sig_store_refresh.connect(self.rec.store_refresh)
        # harness bookkeeping
        self.objs = {}        # label -> real flow
        self.by_id = {}       # real flow id -> label
        # reference model
        self.attrs = {}       # label -> attribute dict (every flow ever created)
        self.store = {}       # label -> True (insertion ordered): stored flows
        self.filter = ""
        self.order = "time"
        self.reversed = False
        self.marked_only = False
        # what the view can know about flows that were changed without an update hook so far (entries exist only for
        # stored flows with such a change pending; all other flows: the live attributes)
        self.fseen = {}       # label -> attributes when the view last evaluated the filter for the flow
        self.kseen = {}       # label -> attributes when the view last took the flow's sort key
        self.stale = {}       # label -> {order: set(reasons)}   (diagnosis only, never decides pass/fail)
        self.used_orders = {"time"}
        self.key_changed_since = {}  # order -> bool: some key of that order changed while it was inactive
        # per-op
        self.sigs = []
        self.raw_sigs = []
        self.replica = set()
        self.sig_problems = []
        self.violations = []
        self.probes = {}
        self.faults = {}
        self.log = []
        self.states = set()
        self.max_len = 0
        self.acted = set()
        self.n_updates = 0
        self.n_user_changes = 0
        # subscribers that come and go (the signals keep weak references: these are the only strong ones)
        self.ui = {}            # id -> _Widget | _LateMirror
        self.conn_seq = 0
        self.harness_error = None
        self.late_notified = False
        self.drop_pending = {}  # signal kind -> a subscriber of it went away while a later-connected mirror is alive

    # -- helpers ---------------------------------------------------------------------------------
    def probe(self, name):
        self.probes[name] = self.probes.get(name, 0) + 1

    def lab(self, f):
        if f is None:
            return None
        return self.by_id.get(f.id, "?unknown")

    def listed(self):
        return [self.lab(f) for f in self.view]

    def register(self, label, f, a):
        self.objs[label] = f
        self.by_id[f.id] = label
        self.attrs[label] = a

    def fattrs(self, l):
        """Attributes of flow ``l`` as of the last time the view evaluated filter / marked-only for it."""
        return self.fseen[l] if l in self.fseen else self.attrs[l]

    def kattrs(self, l):
        """Attributes of flow ``l`` as of the last time the view took its sort key."""
        return self.kseen[l] if l in self.kseen else self.attrs[l]

    def told(self, l):
        """The view looked at the flow (update of it): verdict and key are those of the live attributes again."""
        self.fseen.pop(l, None)
        self.kseen.pop(l, None)

    def reevaluated_all(self):
        """A re-filter: the view evaluates every stored flow as it is now and takes the keys of those it lists."""
        self.fseen.clear()
        self.kseen.clear()

    def drifted(self, l):
        """The selected sort key of ``l`` changed since the view last took it."""
        return l in self.kseen and m_key(self.kseen[l], self.order) != m_key(self.attrs[l], self.order)

    def verdict(self, a):
        return m_match(FILTERS[self.filter], a) and (not self.marked_only or a["marked"])

    def expected_members(self):
        if not self.fseen:
            ast = FILTERS[self.filter]
            return {l for l in self.store
                    if m_match(ast, self.attrs[l]) and (not self.marked_only or self.attrs[l]["marked"])}
        return {l for l in self.store if self.verdict(self.fattrs(l))}

    def store_add(self, label):
        if label not in self.store:
            self.store[label] = True
            self.stale[label] = {}

    def store_del(self, label):
        self.store.pop(label, None)
        self.stale.pop(label, None)
        self.fseen.pop(label, None)
        self.kseen.pop(label, None)

    def on_signal(self, kind, flow, index=None, st=None):
        # flows are tracked by object id here: duplicates get their label only when the operation has returned
        # st: the subscriber whose picture is advanced (None: the one connected from the start, kept on the run itself)
        if st is None:
            st = self
            if self.drop_pending and kind in self.drop_pending:
                # first notification of this kind since a subscriber connected before a live mirror went away
                del self.drop_pending[kind]
                self.probe("first_%s_after_listener_drop" % kind)
        else:
            self.late_notified = True
        st.raw_sigs.append((kind, flow, index))
        fid = flow.id if flow is not None else None
        if kind == "add":
            if fid in st.replica:
                st.sig_problems.append(("add_for_listed_flow", "sig_view_add for %s which a subscriber already lists", flow))
            st.replica.add(fid)
            if flow not in self.view:
                st.sig_problems.append(("add_before_listed", "sig_view_add for %s but the view does not contain it", flow))
        elif kind == "remove":
            if fid not in st.replica:
                st.sig_problems.append(("remove_for_unlisted_flow", "sig_view_remove for %s which a subscriber does not list", flow))
            st.replica.discard(fid)
            if flow in self.view:
                st.sig_problems.append(("remove_but_listed", "sig_view_remove for %s but the view still contains it", flow))
        elif kind == "update":
            if fid not in st.replica:
                st.sig_problems.append(("update_for_unlisted_flow", "sig_view_update for %s which a subscriber does not list", flow))
        elif kind == "refresh":
            st.replica = {f.id for f in self.view}

    def ui_open(self, op):
        k = op.get("id")
        if k in self.ui:
            return True
        v = self.view
        self.conn_seq += 1
        if op.get("kind") == "mirror":
            o = _LateMirror(self, self.conn_seq)
            self.probe("late_mirror_connected")
            if any(w.kind == "widget" for w in self.ui.values()):
                self.probe("late_mirror_connected_after_live_widget")
        else:
            o = _Widget(self.conn_seq)
            o.signals = [s for s in op.get("signals", []) if s in ALL_SIGNALS]
            if not o.signals:
                return True
            self.probe("widget_connected")
        for s in o.signals:
            getattr(v, "sig_" + s).connect(getattr(o, s))
        self.ui[k] = o
        return False

    def ui_close(self, op):
        """The component behind a subscriber goes away: its last strong reference is deleted and it is collected
        (checked through a weak reference: nothing here depends on when a garbage collector happens to run)."""
        k = op.get("id")
        if k not in self.ui:
            return True
        o = self.ui.pop(k)
        later = [m for m in self.ui.values() if m.kind == "mirror" and m.seq > o.seq]
        kind, seq, sigs = o.kind, o.seq, list(o.signals)
        ref = weakref.ref(o)
        del o
        if ref() is not None:
            gc.collect()
        if ref() is not None:
            self.harness_error = "C43 harness: subscriber %r is still referenced after it was dropped" % k
            return True
        self.probe("listener_dropped")
        self.faults["listener_dropped"] = self.faults.get("listener_dropped", 0) + 1
        if later:
            self.probe("listener_dropped_before_live_mirror")
            if any(m.seq == seq + 1 for m in later):
                self.probe("listener_dropped_right_before_live_mirror")
            for s in sigs:
                if s.startswith("view_"):
                    self.drop_pending[s[5:]] = True
        elif kind == "widget":
            self.probe("listener_dropped_last_connected")
        return False

    # -- one operation ---------------------------------------------------------------------------
    def step(self, i, op):
        name = op["op"]
        v = self.view
        before_flows = list(v)
        before = [self.lab(f) for f in before_flows]
        focus_before = self.lab(v.focus.flow)
        self.replica = {f.id for f in before_flows}
        self.raw_sigs = []
        self.sig_problems = []
        self.late_notified = False
        late = []
        if self.ui:
            closing = op.get("id") if name == "ui_close" else None
            for k in sorted(self.ui):
                m = self.ui[k]
                if m.kind == "mirror" and k != closing:  # (no reference to a subscriber that goes away now is kept)
                    # like the first subscriber: its picture is the listing when the operation starts
                    m.replica = set(self.replica)
                    m.raw_sigs = []
                    m.sig_problems = []
                    late.append((k, m.seq))  # no strong reference from this frame (frames may outlive the step)
            m = None
        exp_before = self.expected_members()
        if self.kseen or self.fseen:
            self.stale_probes(name, op, exp_before)
        targets = []           # labels whose update must be signalled when they stay listed
        may_raise = name not in MUST_NOT_RAISE
        skipped = False
        exc = None
        try:
            skipped = self.do(op, targets, exp_before)
        except Exception as e:  # noqa: BLE001 - anything escaping a view operation is recorded
            # without its traceback: that refers to this frame and would keep everything in it (and every subscriber
            # the exception passed through) alive in a reference cycle
            exc = e.with_traceback(None)
        if skipped:
            self.log.append((i, name, "skipped"))
            return
        self.acted.add(op.get("actor", "?"))
        after_flows = list(v)
        after = [self.lab(f) for f in after_flows]
        self.sigs = [(k, self.lab(f)) if idx is None else (k, self.lab(f), idx) for k, f, idx in self.raw_sigs]
        replica = {self.by_id.get(x, "?unknown") for x in self.replica}
        self.max_len = max(self.max_len, len(after))
        exp_after = self.expected_members()
        via = VIA.get(name, "other")
        out = self.violations
        ctx = "op#%d %s" % (i, _brief(op))

        # 1. nothing may escape from an operation that has no documented failure
        if exc is not None:
            self.probe("op_raised")
            if name == "duplicate":
                self.probe("duplicate_raised_" + type(exc).__name__)
            if not may_raise:
                out.append({"class": "op_raised", "key": {"op": name, "exc": type(exc).__name__},
                            "msg": "%s raised %s: %s" % (ctx, type(exc).__name__, exc)})

        # 2. membership: exactly the stored flows matching filter (and marked while marked-only), each once
        seen = set()
        for l in after:
            if l in seen:
                out.append({"class": "view_membership", "key": {"what": "duplicate", "via": via},
                            "msg": "%s: %s listed twice: %s" % (ctx, l, after)})
                break
            seen.add(l)
        ast = FILTERS[self.filter]
        for l in sorted(seen - exp_after):
            a = self.fseen.get(l, self.attrs.get(l))
            key = {"what": "extra", "via": via, "marked_only": self.marked_only,
                   "stored": l in self.store,
                   "flow_marked": bool(a and a["marked"]),
                   "filter_match": bool(a and m_match(ast, a))}
            out.append({"class": "view_membership", "key": key,
                        "msg": "%s: %s is listed but must not be (filter=%r marked_only=%s attrs=%s); listed=%s expected=%s"
                               % (ctx, l, self.filter, self.marked_only, a, after, sorted(exp_after))})
            break
        for l in sorted(exp_after - seen):
            a = self.fattrs(l)
            key = {"what": "missing", "via": via, "marked_only": self.marked_only, "flow_marked": bool(a["marked"])}
            out.append({"class": "view_membership", "key": key,
                        "msg": "%s: %s matches (filter=%r marked_only=%s attrs=%s) but is not listed; listed=%s"
                               % (ctx, l, self.filter, self.marked_only, a, after)})
            break
        if len(v) != len(after):
            out.append({"class": "view_sequence", "key": {"what": "len"},
                        "msg": "%s: len(view)=%d but it lists %d flows" % (ctx, len(v), len(after))})

        # 3. order: keys along the listing are monotone in the selected direction (ties in any order); the key of a
        #    flow that was changed without an update hook so far is the one it had when the view last took it
        if "?unknown" not in after and all(l in self.attrs for l in after):
            keys = [m_key(self.kattrs(l), self.order) for l in after]
            if self.kseen:
                live = [m_key(self.attrs[l], self.order) for l in after]
                if live != keys and any((live[j] < live[j + 1]) if self.reversed else (live[j] > live[j + 1])
                                        for j in range(len(live) - 1)):
                    self.probe("stale_position_owed")
            bad = []
            for j in range(len(keys) - 1):
                wrong = keys[j] < keys[j + 1] if self.reversed else keys[j] > keys[j + 1]
                if wrong:
                    bad.append(j)
                if keys[j] == keys[j + 1]:
                    self.probe("tie_keys")
            if self.reversed and len(after) >= 2:
                self.probe("reversed_listing")
            if bad:
                explained = True
                triggers = set()
                for j in bad:
                    rs = set()
                    for l in (after[j], after[j + 1]):
                        rs |= self.stale.get(l, {}).get(self.order, set())
                    if not rs:
                        explained = False
                    triggers |= rs
                # the two triggers are kept apart: "order inactive" = key changed while another order was
                # selected; "not listed" = key changed while the flow was stored but filtered out
                trig = ""
                if explained:
                    trig = ("key_changed_while_order_inactive" if "key_changed_while_order_inactive" in triggers
                            else "key_changed_while_not_listed")
                key = {"cause": "stale_cached_key" if explained else "unexplained", "trigger": trig}
                if not explained and any(after[j] in self.kseen or after[j + 1] in self.kseen for j in bad):
                    # neither at the place of its key as of the last insert/update nor (then kseen is empty) the live one
                    key = {"cause": "unexplained", "trigger": "update_hook_pending"}
                out.append({"class": "view_order", "key": key,
                            "msg": "%s: listing is not sorted by %s%s: %s" % (
                                ctx, self.order, " (reversed)" if self.reversed else "",
                                list(zip(after, keys)))})
            # Sequence protocol coherence for what is listed
            if not bad and not out:
                for pos, f in enumerate(after_flows):
                    try:
                        ok = f in v and v[v.index(f)] is f
                    except Exception as e:  # noqa: BLE001
                        ok = False
                    if not ok:
                        out.append({"class": "view_sequence", "key": {"what": "index_contains"},
                                    "msg": "%s: %s is listed at %d but `in`/index() disagree" % (ctx, after[pos], pos)})
                        break

        # 4. focus: a listed flow; none only when nothing is listed
        foc = v.focus.flow
        if foc is None:
            if after:
                out.append({"class": "focus", "key": {"what": "none_but_view_not_empty", "via": via},
                            "msg": "%s: focus is None but the view lists %s" % (ctx, after)})
        elif not any(foc is f for f in after_flows):
            out.append({"class": "focus", "key": {"what": "not_in_view", "via": via,
                                                  "stored": self.lab(foc) in self.store},
                        "msg": "%s: focus %s is not listed: %s" % (ctx, self.lab(foc), after)})

        # 5. store and settings
        real_store = [self.lab(f) for f in v.resolve("@all")]
        if sorted(real_store) != sorted(self.store) or v.store_count() != len(self.store):
            out.append({"class": "store", "key": {"via": via,
                                                  "what": "extra" if set(real_store) - set(self.store) else "missing"},
                        "msg": "%s: store holds %s, expected %s" % (ctx, sorted(real_store), sorted(self.store))})
        else:
            for l in self.store:
                if v.get_by_id(self.objs[l].id) is not self.objs[l]:
                    out.append({"class": "store", "key": {"via": via, "what": "get_by_id"},
                                "msg": "%s: get_by_id(%s) does not return the stored flow" % (ctx, l)})
                    break
        stored_ids = {self.objs[l].id for l in self.store}
        leaked = sorted(self.by_id.get(k, "?unknown") for k in v.settings if k not in stored_ids)
        if leaked:
            out.append({"class": "settings_leak", "key": {"via": via},
                        "msg": "%s: settings exist for flows that are not stored: %s" % (ctx, leaked)})

        # 6. signals: a subscriber that applies add/remove and reloads on refresh lists what the view lists
        for what, msg, f in self.sig_problems[:1]:
            out.append({"class": "signals", "key": {"what": what, "via": via},
                        "msg": "%s: %s; signals=%s" % (ctx, msg % self.lab(f), self.sigs)})
        if exc is None and not self.sig_problems:
            if replica != set(after):
                lost = sorted(set(after) - replica)
                ghost = sorted(replica - set(after))
                out.append({"class": "signals", "key": {"what": "missing_add" if lost else "missing_remove", "via": via},
                            "msg": "%s: listed before=%s after=%s but signals=%s leave a subscriber with +%s -%s"
                                   % (ctx, before, after, self.sigs, ghost, lost)})
            upd = {s[1] for s in self.sigs if s[0] == "update"}
            for l in targets:
                if l in before and l in after and l not in upd:
                    out.append({"class": "signals", "key": {"what": "missing_update", "via": via},
                                "msg": "%s: %s stayed listed but no sig_view_update was sent; signals=%s" % (ctx, l, self.sigs)})
                    break
            for l in sorted(upd - set(targets)):
                out.append({"class": "signals", "key": {"what": "update_for_untouched_flow", "via": via},
                            "msg": "%s: sig_view_update for %s which was not updated" % (ctx, l)})
                break
        # 6b. the same for every further long-lived subscriber that was connected when the operation started and still
        #     is (whatever other subscribers came and went meanwhile); only when the first subscriber had no complaint
        if late:
            if self.late_notified:
                self.probe("late_mirror_notified")
            if exc is None and not any(x["class"] == "signals" for x in out):
                for k, seq in late:
                    m = self.ui.get(k)
                    bad = None
                    if m is not None and m.seq == seq:
                        bad = self.late_mirror_check(m, before, after, targets, via, ctx)
                    m = None
                    if bad:
                        out.append(bad)
                        break

        # probes on what this step exercised
        fl = self.lab(foc)
        if name == "remove" and focus_before in op.get("flows", []) and focus_before in before:
            self.probe("remove_focused")
        if self.kseen and via == "focus" and exc is None and fl in after and self.drifted(fl):
            self.probe("focus_on_stale")
        if self.fseen and any(self.verdict(sa) != self.verdict(self.attrs[l]) for l, sa in self.fseen.items()):
            self.probe("stale_filter_verdict")  # listed although it stopped matching / hidden although it matches now
        self.log.append((i, name, type(exc).__name__ if exc else "", tuple(after), fl, tuple(self.sigs)))
        self.states.add("%s|%d|%d|%s|%d|%d" % (self.order, self.reversed, self.marked_only, self.filter,
                                               min(len(after), 3), len(self.store) - len(after) > 0))

    def late_mirror_check(self, m, before, after, targets, via, ctx):
        """Clause 6 for a subscriber connected later in the history (its own picture, same demands)."""
        sigs = [(k, self.lab(f)) if idx is None else (k, self.lab(f), idx) for k, f, idx in m.raw_sigs]
        who = "connected_later"
        for what, msg, f in m.sig_problems[:1]:
            return {"class": "signals", "key": {"what": what, "via": via, "subscriber": who},
                    "msg": "%s: (subscriber connected later) %s; its signals=%s" % (ctx, msg % self.lab(f), sigs)}
        replica = {self.by_id.get(x, "?unknown") for x in m.replica}
        if replica != set(after):
            lost = sorted(set(after) - replica)
            ghost = sorted(replica - set(after))
            return {"class": "signals", "key": {"what": "missing_add" if lost else "missing_remove", "via": via,
                                                "subscriber": who},
                    "msg": "%s: listed before=%s after=%s but the signals %s that reached a subscriber connected later "
                           "(all signals sent: %s) leave it with +%s -%s" % (ctx, before, after, sigs, self.sigs, ghost, lost)}
        upd = {s[1] for s in sigs if s[0] == "update"}
        for l in targets:
            if l in before and l in after and l not in upd:
                return {"class": "signals", "key": {"what": "missing_update", "via": via, "subscriber": who},
                        "msg": "%s: %s stayed listed but no sig_view_update reached a subscriber connected later; its "
                               "signals=%s, all signals sent: %s" % (ctx, l, sigs, self.sigs)}
        for l in sorted(upd - set(targets)):
            return {"class": "signals", "key": {"what": "update_for_untouched_flow", "via": via, "subscriber": who},
                    "msg": "%s: sig_view_update for %s which was not updated" % (ctx, l)}
        return None

    # -- which operation kinds ran while a listed flow's sort key was out of date (coverage only)
    def stale_probes(self, name, op, exp_before):
        drift = [l for l in self.kseen if l in exp_before and self.drifted(l)]
        pending = set(self.kseen) | set(self.fseen)
        if name in ("update", "update_batch", "kill"):
            ls = [op.get("flow")] if name != "update_batch" else [it.get("flow") for it in op["flows"]]
            if any(l in pending for l in ls):
                self.probe("deliver_after_mutate")
            if drift and not any(l in drift for l in ls) and any(l in self.store for l in ls):
                self.probe("update_other_while_stale")
        elif name == "duplicate":
            if any(l in pending for l in op.get("flows", [])):
                self.probe("duplicate_while_stale")
        elif name == "add":
            if op.get("flow") in pending:
                self.probe("add_stored_id_while_stale")
        elif name == "remove":
            if any(l in drift for l in op.get("flows", [])):
                self.probe("remove_while_stale")
        elif drift and name in ("clear", "clear_unmarked", "set_order", "set_reversed"):
            self.probe(name + "_while_stale")
        elif drift and name in ("set_filter", "toggle_marked"):
            self.probe("refilter_while_stale")

    # -- drive the real view + advance the model; returns True when the op is a no-op after shrinking
    def do(self, op, targets, exp_before):
        name = op["op"]
        v = self.view
        if name == "ui_open":
            return self.ui_open(op)
        if name == "ui_close":
            return self.ui_close(op)
        if name == "mutate":
            # a proxy layer changes the flow; the hook that tells the view has not fired yet
            l = op.get("flow")
            if l not in self.objs:
                return True
            a = self.attrs[l]
            s = {k: val for k, val in op.get("set", {}).items() if k in a and a[k] != val}
            if not s:
                return True
            if l in self.store:
                snap = None
                for seen in (self.fseen, self.kseen):
                    if l not in seen:
                        snap = snap or copy.deepcopy(a)
                        seen[l] = snap  # snapshots are never written to, so they may be shared
                self.probe("mutated_without_update")
            a.update(copy.deepcopy(s))
            apply_real(self.objs[l], a, s)
            if l in exp_before and self.drifted(l):
                self.probe("mutate_key_drift_in_view")
            if s.get("error"):
                self.faults["flow_error"] = self.faults.get("flow_error", 0) + 1
            return False
        if name == "add":
            l = op["flow"]
            if l not in self.objs:
                if "new" not in op:
                    return True
                a = copy.deepcopy(op["new"])
                self.register(l, make_real(a), a)
            elif l not in self.store:
                self.probe("readd_removed")
            a = self.attrs[l]
            if self.marked_only and l not in self.store:
                self.probe("add_in_marked_only")
            if v.focus_follow and l not in self.store:
                self.probe("focus_follow_add")
            f = self.objs[l]
            self.store_add(l)  # model first: the store gains the flow even if the call below fails midway
            getattr(v, ADD_HOOK[a["type"]])(f)
            return False
        if name in ("update", "update_batch"):
            items = [op] if name == "update" else op["flows"]
            items = [it for it in items if it.get("flow") in self.objs]
            if not items:
                return True
            # old = what the view knew (differs from the live attributes when an earlier `mutate` is still unannounced)
            old = {it["flow"]: copy.deepcopy(self.kattrs(it["flow"])) for it in items}
            for it in items:
                l = it["flow"]
                a = self.attrs[l]
                s = {k: val for k, val in it.get("set", {}).items() if k in a}
                if s.get("error") and a["error"]:
                    s.pop("error")
                a.update(copy.deepcopy(s))
                apply_real(self.objs[l], a, s)
                if a["error"] and "error" in s:
                    self.faults["flow_error"] = self.faults.get("flow_error", 0) + 1
                self.told(l)  # the hook below makes the view evaluate the flow as it is now
            self._after_mutation(old, exp_before)
            flows = [self.objs[it["flow"]] for it in items]
            for it in items:
                if it["flow"] in self.store and it["flow"] not in targets:
                    targets.append(it["flow"])
            if any(it["flow"] not in self.store for it in items):
                self.probe("update_unstored")
            self.n_updates += 1
            if name == "update":
                hook = op.get("hook")
                t = self.attrs[op["flow"]]["type"]
                if hook not in UPDATE_HOOKS[t]:
                    hook = UPDATE_HOOKS[t][0]
                f = flows[0]
                if hook == "intercept":
                    f.intercept()
                elif hook == "resume":
                    f.resume()
                getattr(v, hook)(f)
            else:
                self.probe("batch_update")
                v.update(flows)
            return False
        if name == "kill":
            l = op.get("flow")
            if l not in self.objs:
                return True
            a = self.attrs[l]
            f = self.objs[l]
            old = {l: copy.deepcopy(self.kattrs(l))}
            if a["live"]:
                a["live"] = False
                a["error"] = True
                self.faults["kill"] = self.faults.get("kill", 0) + 1
                self.probe("kill")
            if f.killable:
                f.kill()
            self.told(l)
            self._after_mutation(old, exp_before)
            if l in self.store:
                targets.append(l)
            self.n_updates += 1
            getattr(v, KILL_HOOK[a["type"]])(f)
            return False
        if name == "remove":
            ls = [l for l in op.get("flows", []) if l in self.objs]
            if not ls:
                return True
            for l in ls:
                if l in self.store:
                    self.probe("remove_shown" if l in exp_before else "remove_hidden")
                    a = self.attrs[l]
                    if a["live"]:  # documented: removing kills a flow that can still be killed
                        a["live"] = False
                        a["error"] = True
                    self.store_del(l)
            self.n_user_changes += 1
            v.remove([self.objs[l] for l in ls])
            return False
        if name == "duplicate":
            ls = [l for l in op.get("flows", []) if l in self.objs]
            if not ls:
                return True
            self.probe("duplicate")
            known = set(self.by_id)
            try:
                v.duplicate([self.objs[l] for l in ls])
            finally:
                new = [g for g in v.resolve("@all") if g.id not in known]
                for l, g in zip(ls, new):
                    nl = "%s~%d" % (l, op.get("n", 0))
                    while nl in self.objs:
                        nl += "'"
                    a = copy.deepcopy(self.attrs[l])
                    a["live"] = False
                    self.register(nl, g, a)
                    self.store_add(nl)
                if len(new) != len(ls):
                    self.violations.append({"class": "store", "key": {"via": "add", "what": "duplicate_count"},
                                            "msg": "duplicate of %s stored %d new flows" % (ls, len(new))})
            self.n_user_changes += 1
            return False
        if name == "set_filter":
            expr = op["expr"]
            self.filter = expr
            self.reevaluated_all()
            if self.store:
                self.probe("refilter_nonempty")
            self.n_user_changes += 1
            v.set_filter(_parse(expr) if expr else None)
            return False
        if name == "set_order":
            o = op["order"]
            if o != self.order and o in self.used_orders and self.key_changed_since.get(o):
                self.probe("order_switch_back_after_key_change")
            self.order = o
            if self.kseen:
                # the keys of all listed flows are taken afresh for the chosen order (no filter evaluation)
                for l in exp_before:
                    self.kseen.pop(l, None)
            self.used_orders.add(o)
            self.key_changed_since[o] = False
            self.n_user_changes += 1
            v.set_order(o)
            return False
        if name == "set_reversed":
            self.reversed = bool(op["value"])
            self.n_user_changes += 1
            v.set_reversed(bool(op["value"]))
            return False
        if name == "toggle_marked":
            self.marked_only = not self.marked_only
            self.reevaluated_all()
            if self.store:
                self.probe("refilter_nonempty")
            self.n_user_changes += 1
            v.toggle_marked()
            return False
        if name == "clear":
            if self.store:
                self.probe("clear")
            for l in list(self.store):
                self.store_del(l)
            self.n_user_changes += 1
            v.clear()
            return False
        if name == "clear_unmarked":
            gone = [l for l in self.store if not self.attrs[l]["marked"]]
            if gone and len(gone) < len(self.store):
                self.probe("clear_unmarked")
            for l in gone:
                self.store_del(l)
            self.reevaluated_all()
            self.n_user_changes += 1
            v.clear_not_marked()
            return False
        if name == "focus_go":
            v.go(op["offset"])
            return False
        if name == "focus_next":
            v.focus_next()
            return False
        if name == "focus_prev":
            v.focus_prev()
            return False
        if name == "focus_set":
            l = op.get("flow")
            if l not in self.objs:
                return True
            v.focus.flow = self.objs[l]
            return False
        if name == "focus_index":
            v.focus.index = op["index"]
            return False
        if name == "focus_follow":
            v.focus_follow = bool(op["value"])  # what configure() does for console_focus_follow
            return False
        if name == "setting":
            l = op.get("flow")
            if l not in self.objs:
                return True
            v.settings[self.objs[l]][op["name"]] = op["value"]
            return False
        raise ValueError("unknown op %r" % name)

    def _after_mutation(self, old, exp_before):
        """Probes + diagnosis flags after attributes changed (model already updated, view not yet told)."""
        exp_after = self.expected_members()
        for l, oa in old.items():
            a = self.attrs[l]
            if l not in self.store:
                continue
            if self.marked_only:
                self.probe("update_in_marked_only")
            was, stays = l in exp_before, l in exp_after
            if was and not stays:
                self.probe("update_leaves_view")
            if stays and not was:
                self.probe("update_enters_view")
            for o in ORDERS:
                changed = m_key(oa, o) != m_key(a, o)
                if changed and o != self.order:
                    self.key_changed_since[o] = True
                if o == self.order and was and stays:
                    if changed:
                        self.probe("key_change_in_view")
                    self.stale[l].pop(o, None)  # the view re-reads the key of a listed flow when told about it
                elif changed:
                    if o == self.order:
                        self.probe("key_change_while_hidden")
                    self.stale[l].setdefault(o, set()).add("key_changed_while_order_inactive" if o != self.order
                                                            else "key_changed_while_not_listed")


def _brief(op):
    d = {k: v for k, v in op.items() if k not in ("actor", "new")}
    if "new" in op:
        d["type"] = op["new"]["type"]
    return repr(d)


def execute(sc):
    run = _Run()
    for i, op in enumerate(sc.get("ops", [])):
        run.step(i, op)
        if run.harness_error:
            raise RuntimeError(run.harness_error)
        if run.violations:
            break
    nontrivial = (run.acted >= {"traffic", "user"} and run.max_len >= 2 and run.n_updates >= 1
                  and run.n_user_changes >= 1)
    return {"violations": run.violations, "digest": digest(run.log), "nontrivial": nontrivial,
            "faults": run.faults, "probes": run.probes, "sim_s": 0.0, "states": run.states}


def shrink_candidates(sc):
    """Beyond dropping ops (generic shrinker): drop single attribute changes, simplify new-flow attributes."""
    ops = sc.get("ops", [])
    for i, op in enumerate(ops):
        if op["op"] in ("update", "mutate") and len(op.get("set", {})) > (1 if op["op"] == "mutate" else 0):
            for k in sorted(op["set"]):
                c = copy.deepcopy(sc)
                del c["ops"][i]["set"][k]
                yield c
        if op["op"] == "update_batch":
            for j, it in enumerate(op["flows"]):
                for k in sorted(it.get("set", {})):
                    c = copy.deepcopy(sc)
                    del c["ops"][i]["flows"][j]["set"][k]
                    yield c
        if op["op"] == "add" and "new" in op:
            a = op["new"]
            if a.get("marked"):
                c = copy.deepcopy(sc)
                c["ops"][i]["new"]["marked"] = False
                yield c
            if a["type"] == "http" and a.get("resp") is not None:
                c = copy.deepcopy(sc)
                c["ops"][i]["new"]["resp"] = None
                yield c
