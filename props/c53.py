"""C53 — client replay (concurrency 1) replays queued flows one at a time, in order, and cleans up."""
from __future__ import annotations

import asyncio
import copy
import re

from simkit import world as W
from simkit.net import ConnectPlan, oserror

ID = "C53"
LEVEL = "exploration"
ENGINE = "simkit/proxy-world"
QUICK_RUNS = 12000
QUICK_BUDGET_S = 120
THOROUGH_BUDGET_S = 900
CHUNK = 50
RULE = ("real ClientPlayback addon (client_replay_concurrency=1) inside the real Master on the virtual loop; 3-8 flows built "
        "with mitmproxy.test.tflow (replayable HTTP flows with distinct markers, with/without earlier response or error, "
        "some edited by the user after a backup; unreplayable: live, intercepted, missing content, TCP, UDP, DNS, WebSocket); "
        "a seeded timeline of replay.client submissions (any subsets, re-submissions), replay.client.stop commands, user "
        "edits and sleeps, against per-flow origin behaviour (connect ok/slow/refused/timeout, response latency, RST, FIN, "
        "truncated or garbage response), optional async hook latency and an optional intercepting addon (flow.intercept() "
        "in the response / error / request-side hook of replayed flows, resumed or killed after 0-3 s of virtual time); "
        "non-trivial = at least two replays started or a "
        "stop removed a queued flow; distinct = distinct abstract event logs")
COMPONENTS_REAL = ["Master", "AddonManager", "CommandManager", "ClientPlayback addon", "ReplayHandler/ConnectionHandler",
                   "HttpLayer/HttpStream (replay path)", "Http1Client", "HttpUpstreamProxy (upstream mode)",
                   "Flow.backup/revert/get_state"]
COMPONENTS_STUB = ["kernel TCP (SimNet)", "event loop clock/selector (VLoop)", "origins (scripted peers)"]
ASSUMPTIONS = ["the moment a flow leaves the queue is observed at ReplayHandler construction (same loop step as the dequeue)",
               "the set of still-queued flows at a stop command is read from ClientPlayback.queue (the state named by the property)",
               "a flow is not re-submitted while it is still queued or in flight (the harness filters such re-submissions); "
               "re-submission after completion is allowed",
               "flow equality = Flow.get_state() without the 'backup' member",
               "origins always answer or fail within bounded virtual time (ReplayHandler has no read timeout)"]
EXPECTED_PROBES = ["replay_response", "replay_error", "connect_failed", "stop_with_queued", "stop_while_inflight",
                   "unreplayable_rejected", "resubmitted_after_completion", "user_backup_flow_queued", "submit_while_inflight",
                   "upstream_mode", "intercepted_at_response_hook", "intercepted_at_error_hook",
                   "intercepted_request_side", "intercept_killed"]

UNREPLAYABLE = ["live", "intercepted", "no_content", "tcp", "udp", "dns", "websocket"]


def B(s):
    return s.encode("latin1")


# ---------------------------------------------------------------------------
# generator
# ---------------------------------------------------------------------------
def generate(rng, tier):
    r = rng.at("c53")
    nflows = r.randrange(3, 9)
    flows = []
    for i in range(nflows):
        kind = "http" if r.random() < 0.72 else r.choice(UNREPLAYABLE)
        origin = {"connect": r.choice(["ok", "ok", "ok", "ok", "slow", "refused", "timeout"]),
                  "behave": r.choice(["respond", "respond", "respond", "respond", "rst", "fin", "partial", "garbage"]),
                  "delay": r.choice([0.0, 0.001, 0.05, 0.5, 2.0]), "body": r.choice([0, 5, 3000])}
        flows.append({"kind": kind, "had": r.choice(["response", "response", "error", "nothing"]),
                      "method": r.choice(["GET", "GET", "POST"]), "content": r.choice(["", "content", "x" * 500]),
                      "user_backup": kind == "http" and r.random() < 0.25, "origin": origin})
    ops = []
    t_choices = [0.0, 0.0, 0.0005, 0.002, 0.04, 0.3, 1.5, 6.0]
    for _ in range(r.randrange(3, 10)):
        x = r.random()
        if x < 0.5:
            k = r.randrange(1, min(nflows, 5) + 1)
            ops.append({"op": "replay", "flows": [r.randrange(nflows) for _ in range(k)]})
        elif x < 0.7:
            ops.append({"op": "stop"})
        elif x < 0.78:
            ops.append({"op": "edit", "flow": r.randrange(nflows)})
        ops.append({"op": "sleep", "t": r.choice(t_choices)})
    if not any(o["op"] == "replay" for o in ops):
        ops.insert(0, {"op": "replay", "flows": list(range(nflows))})
    latency = None
    if r.random() < 0.3:
        latency = {"hook": r.choice(["requestheaders", "request", "responseheaders", "response", "error"]),
                   "t": r.choice([0.001, 0.05, 1.0])}
    # an addon that pauses replayed flows (flow.intercept()) in one hook and resumes or kills them after a virtual delay
    intercept = None
    if r.random() < 0.4:
        intercept = {"hook": r.choice(["response", "response", "response", "error", "error", "request", "requestheaders",
                                       "responseheaders"]),
                     "then": r.choice(["resume", "resume", "resume", "kill"]),
                     "after": r.choice([0.0, 0.01, 0.5, 3.0]),
                     "only": r.choice([None, None, r.randrange(nflows)])}
    mode = "regular" if r.random() < 0.8 else "upstream:http://p.test:3128"
    # were the flows recorded by a proxy running in the mode it runs in now?  (client_conn.proxy_mode of a saved flow)
    recorded_same = mode == "regular" or r.random() < 0.8
    return {"family": "clientreplay", "eager": r.random() < 0.5, "mode": mode, "recorded_in_same_mode": recorded_same,
            "flows": flows, "ops": ops, "latency": latency, "intercept": intercept}


# ---------------------------------------------------------------------------
# flows
# ---------------------------------------------------------------------------
def build_flow(i, spec):
    from mitmproxy.test import tflow, tutils
    from mitmproxy import http
    kind = spec["kind"]
    if kind == "tcp":
        f = tflow.ttcpflow()
        f.live = False
        return f
    if kind == "udp":
        f = tflow.tudpflow()
        f.live = False
        return f
    if kind == "dns":
        return tflow.tdnsflow(resp=True, live=False)
    content = B(spec["content"])
    hdrs = [(b"host", B(f"h{i}.test")), (b"x-marker", B(f"m{i}"))]
    if content or spec["method"] == "POST":
        hdrs.append((b"content-length", str(len(content)).encode()))
    req = tutils.treq(host=f"h{i}.test", port=80, method=B(spec["method"]), path=B(f"/m{i}"),
                      headers=http.Headers(hdrs), content=content)
    had = spec["had"]
    f = tflow.tflow(req=req, resp=(had == "response"), err=(had == "error"), ws=(kind == "websocket"),
                    live=(kind == "live"))
    if kind == "intercepted":
        f.intercept()
    if kind == "no_content":
        f.request.data.content = None
    return f


def state_of(f):
    s = copy.deepcopy(f.get_state())
    s.pop("backup", None)
    return s


def diff_fields(a, b):
    out = []
    for k in sorted(set(a) | set(b)):
        if a.get(k) != b.get(k):
            if isinstance(a.get(k), dict) and isinstance(b.get(k), dict):
                out.extend(f"{k}.{kk}" for kk in sorted(set(a[k]) | set(b[k])) if a[k].get(kk) != b[k].get(kk))
            else:
                out.append(k)
    return out


# ---------------------------------------------------------------------------
# executor
# ---------------------------------------------------------------------------
def execute(sc):
    from mitmproxy.addons import clientplayback as cpmod
    v, log, probes = [], [], {}
    seen = set()

    def probe(n, c=1):
        probes[n] = probes.get(n, 0) + c

    def violate(cls, key, msg):
        sig = cls + repr(sorted(key.items()))
        if sig in seen:
            return
        seen.add(sig)
        v.append({"class": cls, "key": key, "msg": msg})

    specs = sc["flows"]
    upstream = sc["mode"].startswith("upstream")
    if upstream:
        probe("upstream_mode")

    # model -----------------------------------------------------------------------------------------
    M = {"queue": [],          # flow indexes, FIFO
         "pre": {},            # idx -> state snapshot taken just before the accepted submission
         "prior": {},          # idx -> None | 'user_edit' | 'earlier_replay'   (did a backup exist at submission?)
         "active": None,       # idx of the replay in progress
         "started": [],        # [(idx, t)]
         "completed_once": set(),
         "edited": set()}
    flows = []
    index_of = {}
    run = {}

    orig_init = cpmod.ReplayHandler.__init__
    orig_log = cpmod.ReplayHandler.log

    async def body(w):
        cp = w.master.addons.get("clientplayback")
        from mitmproxy.proxy import mode_specs
        for i, spec in enumerate(specs):
            f = build_flow(i, spec)
            if sc.get("recorded_in_same_mode", True):
                f.client_conn.proxy_mode = mode_specs.ProxyMode.parse(sc["mode"])
            if spec.get("user_backup") and spec["kind"] == "http":
                # the user edited this flow earlier (the UI takes a backup before the first modification)
                f.backup()
                f.request.headers["x-user-edit"] = "before"
                f.comment = "edited before the run"
                M["edited"].add(i)
            flows.append(f)
            index_of[id(f)] = i

        def rlog(self_, message, level=20, exc_info=None):
            # ReplayHandler.log drops exc_info: keep the exception for the crash key
            if exc_info and "crash" in message and "exc" not in run:
                import sys as _sys
                e = _sys.exc_info()[1] if exc_info is True else exc_info[1]
                tb, last = (e.__traceback__ if e is not None else None), None
                while tb is not None:
                    last, tb = tb, tb.tb_next
                run["exc"] = (type(e).__name__ if e is not None else "",
                              f"{last.tb_frame.f_code.co_filename.rsplit('/', 1)[-1]}:{last.tb_frame.f_code.co_name}"
                              if last is not None else "")
            return orig_log(self_, message, level, exc_info)
        cpmod.ReplayHandler.log = rlog
        run["w"] = w
        server_conns = []      # (idx, SimConn)
        pending_connects = {}  # attempt n -> idx

        def t():
            return round(w.loop.time(), 6)

        # --- observation: a flow leaves the queue ---------------------------------------------------
        def init(self_, flow, options):
            orig_init(self_, flow, options)
            i = index_of.get(id(flow))
            log.append((t(), "start", i))
            prev = M["active"]
            if prev is not None and not M.get("active_done"):
                violate("overlap_requests", {"previous": "no_outcome_yet"},
                        f"replay of flow {i} started at t={t()} while the replay of flow {prev} had fired neither its "
                        f"response nor its error hook")
            elif prev is not None:
                # ... and its final hook has completed, interception included: the flow is not paused any more.
                # (Flow.live is not consulted here: on the protocol-error path the layer clears it only when it
                # processes the completion of the error hook, one step after ReplayHandler signals `done`.)
                pf = flows[prev]
                if pf.intercepted:
                    violate("overlap_requests", {"previous": "still_intercepted"},
                            f"replay of flow {i} started at t={t()} while flow {prev} is still intercepted in its "
                            f"{M['started'][-1][2]} hook (not resumed yet)")
            M["active_done"] = False
            # the previous replay has cleaned up: SimNet holds no connection of an earlier replay any more
            check_exclusive(i, "start")
            if i not in M["queue"]:
                violate("replayed_unqueued", {"kind": specs[i]["kind"] if i is not None else "?"},
                        f"flow {i} ({specs[i]['kind'] if i is not None else '?'}) was replayed although the reference "
                        f"queue {M['queue']} does not contain it")
            else:
                if M["queue"][0] != i:
                    violate("order", {}, f"flow {i} started, but the queue order is {M['queue']}")
                M["queue"].remove(i)
            M["active"] = i
            M["started"].append([i, t(), None])
        cpmod.ReplayHandler.__init__ = init

        # --- observation: hooks ------------------------------------------------------------------------
        lat = sc.get("latency")

        icp = sc.get("intercept")

        async def release(f, i, name):
            await asyncio.sleep(icp["after"])
            if not f.intercepted:
                return
            if icp["then"] == "kill" and f.killable:
                probe("intercept_killed")
                log.append((t(), "kill", i))
                f.kill()
            else:
                log.append((t(), "resume", i))
                f.resume()

        def policy(name, data):
            i = index_of.get(id(data))
            if i is None:
                return None
            if icp and name == icp["hook"] and icp.get("only") in (None, i) and not data.intercepted:
                data.intercept()
                w.net.fired("intercept")
                log.append((t(), "intercept", name, i))
                probe({"response": "intercepted_at_response_hook", "error": "intercepted_at_error_hook"}
                      .get(name, "intercepted_request_side"))
                w.loop.create_task(release(data, i, name), name=f"sim-release-{i}")
            if lat and name == lat["hook"]:
                w.net.fired("hook_latency")
                return asyncio.sleep(lat["t"])
            return None
        w.policy = policy

        # (ReplayHandler.handle_hook is not the wrapped ProxyConnectionHandler.handle_hook: listen at the recorder addon)
        def on_hook(tt, name, data):
            if name in ("response", "error") and id(data) in index_of:
                i = index_of[id(data)]
                log.append((t(), name, i))
                probe("replay_" + name)
                M["completed_once"].add(i)
                if i == M["active"]:
                    M["active_done"] = True
                    if M["started"][-1][2] is not None:
                        violate("two_outcomes", {"first": M["started"][-1][2], "second": name},
                                f"replay of flow {i} fired {M['started'][-1][2]} and then {name}")
                    M["started"][-1][2] = name
        w.hook_listeners.append(on_hook)

        # --- SimNet: connects and request bytes ---------------------------------------------------------
        def check_exclusive(i, what):
            for j, c in server_conns:
                if not c.proxy_closed:
                    violate("overlap_connections", {"at": what},
                            f"{what} for flow {i} at t={t()} while the upstream connection of flow {j} (opened "
                            f"t={c.opened_at:.6f}) is still open")
            for n, j in pending_connects.items():
                if w.net.connect_attempts[n]["result"] == "pending":
                    violate("overlap_connections", {"at": what + "_pending_connect"},
                            f"{what} for flow {i} while a connect for flow {j} is still pending")

        def planner(host, port, n, proto):
            i = M["active"]
            m = re.match(r"h(\d+)\.test$", host)
            if m and not upstream:
                hi = int(m.group(1))
                if hi != i:
                    violate("connect_for_inactive_flow", {}, f"connect to {host} while the active replay is flow {i}")
                i = hi
            log.append((t(), "connect", i))
            check_exclusive(i, "connect")
            pending_connects[n] = i
            o = specs[i]["origin"] if i is not None else {"connect": "refused"}
            kind = o["connect"]
            if kind == "refused":
                probe("connect_failed")
                return ConnectPlan(delay=0.002, error=oserror("refused"))
            if kind == "timeout":
                probe("connect_failed")
                return ConnectPlan(delay=3.0, error=oserror("timeout"))

            def accept(conn):
                server_conns.append((i, conn))
                w.loop.create_task(origin(conn, i, o), name=f"sim-origin-{n}")
            return ConnectPlan(delay=0.4 if kind == "slow" else 0.001, accept=accept)
        w.net.connect_planner = planner

        async def origin(conn, i, o):
            buf = b""
            while b"\r\n\r\n" not in buf:
                buf += conn.take()
                if b"\r\n\r\n" in buf:
                    break
                if conn.rx_eof:
                    return
                await conn.wait_change()
            head, _, rest = buf.partition(b"\r\n\r\n")
            m = re.search(rb"x-marker: m(\d+)", head, re.I)
            mi = int(m.group(1)) if m else None
            log.append((t(), "request_at_origin", mi))
            if mi != M["active"]:
                violate("request_for_inactive_flow", {},
                        f"origin received the request of flow {mi} at t={t()} while the active replay is {M['active']}")
            for j, c in server_conns:
                if c is not conn and not c.proxy_closed:
                    violate("overlap_connections", {"at": "request"},
                            f"request of flow {mi} arrived while the connection of flow {j} is still open")
            cl = re.search(rb"content-length: (\d+)", head, re.I)
            need = int(cl.group(1)) if cl else 0
            while len(rest) < need and not conn.rx_eof:
                await conn.wait_change()
                rest += conn.take()
            if o["delay"]:
                await asyncio.sleep(o["delay"])
            if conn.proxy_closed:
                return
            b = o["behave"]
            body_ = b"r" * o["body"]
            full = b"HTTP/1.1 200 OK\r\nX-Reply: m%d\r\nContent-Length: %d\r\n\r\n" % (mi or 0, len(body_)) + body_
            if b == "respond":
                conn.feed(full)
            elif b == "rst":
                conn.reset()
            elif b == "fin":
                conn.send_eof()
            elif b == "partial":
                conn.feed(full[:max(20, len(full) - 3)] if o["body"] else full[:20])
                await asyncio.sleep(0.01)
                conn.send_eof()
            else:
                conn.feed(b"\x00\x01garbage\r\n\r\n")
                await asyncio.sleep(0.01)
                conn.send_eof()

        # --- the scripted user -------------------------------------------------------------------------
        def busy(i):
            # (a replayable flow is live only while it is being replayed)
            return i in M["queue"] or flows[i].live or (cp.inflight is flows[i])

        def replayable(i):
            return specs[i]["kind"] == "http"

        for k, op in enumerate(sc["ops"]):
            kind = op["op"]
            if kind == "sleep":
                await asyncio.sleep(op["t"])
                continue
            if kind == "edit":
                i = op["flow"]
                f = flows[i]
                if specs[i]["kind"] != "http" or busy(i):
                    continue
                f.backup()
                f.request.headers["x-user-edit"] = str(k)
                f.comment = f"edited at step {k}"
                M["edited"].add(i)
                log.append((t(), "edit", i))
                continue
            if kind == "replay":
                chosen = []
                for i in op["flows"]:
                    if i in chosen:
                        continue
                    if replayable(i) and busy(i):
                        continue  # see ASSUMPTIONS: no re-submission while queued / in flight
                    chosen.append(i)
                if not chosen:
                    continue
                before = {i: state_of(flows[i]) for i in chosen}
                had_backup = {i: flows[i]._backup is not None for i in chosen}
                if M["active"] is not None and flows[M["active"]].live:
                    probe("submit_while_inflight")
                w.master.commands.call("replay.client", [flows[i] for i in chosen])
                realq = [index_of.get(id(f)) for f in list(cp.queue._queue)]
                for i in chosen:
                    if replayable(i):
                        M["queue"].append(i)
                        M["pre"][i] = before[i]
                        if had_backup[i]:
                            M["prior"][i] = "user_edit" if i in M["edited"] and i not in M["completed_once"] else \
                                "earlier_replay"
                            probe("user_backup_flow_queued" if M["prior"][i] == "user_edit"
                                  else "resubmitted_after_completion")
                        else:
                            M["prior"][i] = None
                    else:
                        probe("unreplayable_rejected")
                        after = state_of(flows[i])
                        if after != before[i]:
                            violate("unreplayable_modified", {"kind": specs[i]["kind"]},
                                    f"flow {i} ({specs[i]['kind']}) cannot be replayed but replay.client changed "
                                    f"{diff_fields(before[i], after)}")
                        if i in realq:
                            violate("unreplayable_queued", {"kind": specs[i]["kind"]},
                                    f"flow {i} ({specs[i]['kind']}) cannot be replayed but sits in ClientPlayback.queue")
                log.append((t(), "submit", tuple(chosen), tuple(M["queue"])))
                continue
            if kind == "stop":
                realq = [index_of.get(id(f)) for f in list(cp.queue._queue)]
                inflight = cp.inflight is not None
                if realq:
                    probe("stop_with_queued")
                if inflight:
                    probe("stop_while_inflight")
                w.master.commands.call("replay.client.stop")
                left = [index_of.get(id(f)) for f in list(cp.queue._queue)]
                if left:
                    violate("queue_not_cleared", {}, f"after replay.client.stop the queue still holds {left}")
                # every flow that was still queued must look exactly as before it was submitted
                for i in dict.fromkeys(realq):
                    if i is None or i not in M["pre"]:
                        continue
                    now = state_of(flows[i])
                    if now != M["pre"][i]:
                        fields = diff_fields(M["pre"][i], now)
                        violate("not_restored", {"prior_backup": M["prior"].get(i) or "none"},
                                f"flow {i} was still queued at replay.client.stop (t={t()}) but differs from its "
                                f"pre-replay state in {fields} (backup existed when queued: {M['prior'].get(i)})")
                # the reference queue: everything not yet started is gone
                if sorted(M["queue"]) != sorted(x for x in realq if x is not None):
                    violate("queue_mismatch", {}, f"reference queue {M['queue']} vs ClientPlayback.queue {realq} at stop")
                M["queue"] = []
                log.append((t(), "stop", tuple(realq), inflight))
                continue
        # quiescence: every origin answers and every interception is released within bounded virtual time, so wait
        # (pacing only) until the addon is idle, at most 3000 virtual seconds, then 60 more
        for _ in range(600):
            if cp.queue.empty() and cp.inflight is None:
                break
            await asyncio.sleep(5.0)
        await asyncio.sleep(60.0)
        left = [index_of.get(id(f)) for f in list(cp.queue._queue)]
        run["left"] = left
        run["inflight"] = index_of.get(id(cp.inflight)) if cp.inflight is not None else None
        run["open"] = [(j, c.id) for j, c in server_conns if not c.proxy_closed]
        return None

    try:
        _, w = W.run_world(body, eager=sc["eager"], seed=sc.get("seed", 0),
                           options={"client_replay_concurrency": 1}, modes=[sc["mode"]])
    finally:
        cpmod.ReplayHandler.__init__ = orig_init
        cpmod.ReplayHandler.log = orig_log

    # --- end-of-run obligations --------------------------------------------------------------------------
    crashed = bool(w.crashes)
    if crashed:
        # a layer generator that died leaves its replay (and everything queued behind it) stuck: report the crash and
        # the state-based findings that do not depend on it, not the consequences
        tt, msg, tb = w.crashes[0]
        parts = tb.split(" @ ")
        exc, where = parts[0].split(":")[0], parts[1] if len(parts) > 1 else ""
        if not exc and "exc" in run:
            exc, where = run["exc"]
        keep = [x for x in v if x["class"] in ("not_restored", "unreplayable_modified", "unreplayable_queued")]
        v[:] = [{"class": "crash", "key": {"exc": exc, "where": where, "upstream_mode": upstream,
                                           "recorded_in_same_mode": bool(sc.get("recorded_in_same_mode", True))},
                 "msg": f"{msg} :: {tb or run.get('exc')}"}] + keep
    else:
        for i, t0, outcome in M["started"]:
            f = flows[i]
            if outcome is None:
                violate("no_outcome", {"connect": specs[i]["origin"]["connect"], "behave": specs[i]["origin"]["behave"]},
                        f"the replay of flow {i} started at t={t0} fired neither a response nor an error hook until "
                        f"quiescence (origin {specs[i]['origin']})")
            elif f.live:
                violate("still_live", {}, f"replayed flow {i} is still marked live at quiescence")
        if M["queue"] or run.get("left") or run.get("inflight") is not None:
            if not any(x["class"] == "no_outcome" for x in v):
                violate("queue_not_drained", {},
                        f"at quiescence reference queue={M['queue']} ClientPlayback.queue={run.get('left')} "
                        f"inflight={run.get('inflight')}")
        if run.get("open"):
            violate("connection_left_open", {}, f"upstream connections still open at quiescence: {run['open']}")
    nstarted = len(M["started"])
    faults = {k: n for k, n in w.net.faults_fired.items()}
    return {"violations": v, "digest": W.digest(log), "nontrivial": nstarted >= 2 or bool(probes.get("stop_with_queued")),
            "faults": faults, "probes": probes, "sim_s": w.loop.time(),
            "states": {repr((e[1],) + tuple(e[3:])) for e in log if e[1] in ("submit", "stop")}}
