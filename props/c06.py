"""C06 — translating between HTTP versions preserves message semantics.

Two engines in one module (every run says which one it used: `family` = "real:<c>-<s>" or "stub:<c>-<s>"):

* real  (ENGINE simkit/proxy-world): the full proxy with REAL TLS on both sides.
    real:h2-h1  client = hyper-h2 over TLS (ALPN h2) -> mitmproxy -> HTTP/1 origin over TLS (ALPN http/1.1)
    real:h1-h2  client = raw HTTP/1.1 over TLS (ALPN http/1.1 preferred) -> mitmproxy -> hyper-h2 origin (ALPN h2)
  Both directions of each pair are exercised: the request is translated one way, the response the other.
* stub  (simkit/layer-harness pieces, `peers/c06_stub.py`): the real HttpLayer driven synchronously; TCP and the
  QUIC transport are stubs at the event/command seam, exactly as test_http3.py / test_http_version_interop.py
  do.  All six cross-version pairs run here: h3-h1, h3-h2, h1-h3, h2-h3 (HTTP/3 only exists on the stub) and,
  for volume, h2-h1 and h1-h2 without TLS.

Messages come from a generator with a clean base (valid in the sender's version, incl. things that NEED
translation: several Cookie fields, no content-length on HTTP/2 bodies, trailers, Host vs :authority,
mixed-case HTTP/1 names, HTTP/1 hop-by-hop fields, chunked / close-delimited HTTP/1 bodies) plus, for HTTP/2 and
HTTP/3 senders, adversarial header blocks (CR / LF / NUL / SP in pseudo-headers, names and values, upper-case
names, connection-specific fields incl. transfer-encoding: chunked with a smuggling body, content-length that
disagrees with the body, duplicate / missing / misplaced / unknown pseudo-headers, many Cookie fields).

Oracle (independent parsers: `peers.h1.P` for HTTP/1, raw header lists from hyper-h2 / aioquic peers):
  1. towards HTTP/1, whatever was emitted for a message must be read by P as EXACTLY ONE message with the body
     the sender sent and nothing after it (AMBIGUOUS, incomplete, a second message, left-over bytes are
     violations) - or nothing at all was emitted (the message was rejected);
  2. a CLEAN message must arrive (not be rejected, no crash) and be equal on method, scheme (where the next hop
     carries one), authority/Host, path, status, end-to-end fields (names case-insensitively; Cookie fields
     compared as one "; "-joined value; towards HTTP/1 there must be one Cookie field), body, and trailers when
     the next hop can carry them (HTTP/2, HTTP/3, chunked HTTP/1); towards HTTP/2/3 the emitted block must be
     one a conforming peer accepts;
  3. an adversarial but structurally sound message that is forwarded must be equal on the same aspects;
  4. a structurally malformed block (duplicate / missing / misplaced pseudo-headers ...) has no further demands.
"""
from __future__ import annotations

import asyncio
import copy
import re

from peers import c06_h1_tls as H1
from peers import c06_stub as ST
from peers import h1 as P
from peers import h2_peer as HP
from peers import tls_h2 as T
from simkit.world import digest

ID = "C06"
LEVEL = "exploration"
ENGINE = "simkit/proxy-world"
QUICK_RUNS = 40000
QUICK_BUDGET_S = 150
THOROUGH_BUDGET_S = 900
CHUNK = 100
RULE = ("seeded request/response pairs (1-2 per run) over every cross-version pair: real TLS transport for h2->h1 and "
        "h1->h2 (both message directions each), stubbed transport (layer harness) for h3->h1, h3->h2, h1->h3, h2->h3, "
        "h2->h1, h1->h2; message = clean base needing translation (multiple Cookie fields, bodies without content-length, "
        "trailers, Host/:authority, mixed-case names, hop-by-hop fields, chunked/close-delimited/HTTP/1.0 bodies, HEAD, "
        "204/304) x 0-2 adversarial edits for HTTP/2-3 senders (CR/LF/NUL/SP in pseudo-headers, names, values; upper-case "
        "names; connection-specific fields; transfer-encoding: chunked with a smuggling body; lying content-length; "
        "duplicate/missing/misplaced/unknown pseudo-headers; Host vs :authority) x for HTTP/2 senders PADDED DATA frames "
        "(pad length 0-255) with content-length equal to the body, off by 1-2 or counting the padding, ending with "
        "END_STREAM on DATA or with a trailers HEADERS frame x byte segmentation; non-trivial = at "
        "least one message was delivered to the next hop or explicitly rejected; distinct = distinct abstract logs")
COMPONENTS_REAL = ["HttpLayer / HttpStream", "Http1Server / Http1Client (h11 readers, http1.assemble)", "Http2Server / Http2Client "
                   "(BufferedH2Connection, hyper-h2 validation)", "Http3Server / Http3Client (LayeredH3Connection, aioquic H3 + "
                   "pylsqpack)", "format_h2_*_headers / parse_h2_*_headers", "net.http.validate", "real family only: Master, "
                   "addons, ProxyConnectionHandler, mode layers, ClientTLSLayer / ServerTLSLayer"]
COMPONENTS_STUB = ["real family: kernel TCP (SimNet), event loop (VLoop), scripted peers inside Python-ssl MemoryBIO TLS",
                   "stub family: NO asyncio/proxy server/addons (hooks are completed at once), TCP replaced by DataReceived/SendData, "
                   "and for every HTTP/3 leg the QUIC transport (aioquic QuicConnection, UDP, TLS 1.3, flow control) is replaced by "
                   "the harness at the QuicStreamDataReceived / SendQuicStreamData / ResetQuicStream / StopSendingQuicStream / "
                   "CloseQuicConnection seam, exactly as test/mitmproxy/proxy/layers/http/test_http3.py does",
                   "version pairs on REAL transport: h2->h1, h1->h2; on the STUB: h3->h1, h3->h2, h1->h3, h2->h3, h2->h1, h1->h2"]
ASSUMPTIONS = ["default options (validate_inbound_headers on, normalize_outbound_headers on): switching validation off is a documented opt-out",
               "HTTP/1 peers never send chunked trailers or interim 1xx responses (known findings F2 / F7 of C01/C03)",
               "a field nominated by Connection, and the fixed connection-specific fields, are hop-by-hop and not compared; Host and "
               "content-length are compared through authority and body",
               "values are compared after trimming optional whitespace; NUL/CR inside a value compare as SP towards HTTP/1 (P's rule)",
               "a response that does not carry the origin's marker field and has status >= 400, a stream reset or a closed connection "
               "counts as 'the message was rejected'",
               "the stub delivers only event sequences a TCP / QUIC transport could deliver"]
EXPECTED_PROBES = ["real_h2_h1", "real_h1_h2", "stub_h3_h1", "stub_h3_h2", "stub_h1_h3", "stub_h2_h3", "stub_h2_h1", "stub_h1_h2",
                   "req_delivered", "req_rejected", "resp_delivered", "resp_rejected", "clean_req_checked", "clean_resp_checked",
                   "adversarial_req_forwarded", "adversarial_resp_forwarded", "h1_single_message_checked", "cookies_joined",
                   "trailers_carried", "body_without_cl_to_h1", "structural_rejected", "te_chunked_attack", "crlf_attack",
                   "padded_data_req", "padded_data_resp", "padded_data_then_trailers", "cl_counts_padding_req",
                   "cl_counts_padding_resp", "cl_counts_padding_then_trailers", "cl_off_by_few_padded"]

MARK = re.compile(rb"mk(\d\d)x")
HOP = {b"connection", b"keep-alive", b"proxy-connection", b"transfer-encoding", b"upgrade", b"te", b"trailer",
       b"proxy-authenticate", b"proxy-authorization", b"http2-settings"}
SKIP = HOP | {b"host", b"content-length", b"cookie"}
SMUGGLE = "GET /smuggled HTTP/1.1\r\nHost: o.test\r\nX-Smuggled: 1\r\n\r\n"

PAIRS_REAL = [("h2", "h1"), ("h1", "h2")]
PAIRS_STUB = [("h3", "h1"), ("h3", "h2"), ("h1", "h3"), ("h2", "h3"), ("h2", "h1"), ("h1", "h2")]


def mk(k: int) -> str:
    return f"mk{k:02d}x"


def B(s) -> bytes:
    return s.encode("latin-1") if isinstance(s, str) else bytes(s)


def _wchoice(r, items):
    tot = sum(w for _, w in items)
    x = r.random() * tot
    for v, w in items:
        x -= w
        if x <= 0:
            return v
    return items[-1][0]


# =====================================================================================================
# generator
# =====================================================================================================
REQ_VALUE_ATTACKS = [
    "method_crlf", "method_space", "method_lower", "path_space", "path_crlf", "path_nul", "path_noslash", "path_absolute",
    "authority_crlf", "authority_space", "authority_userinfo", "authority_port", "authority_upper",
    "scheme_crlf", "scheme_other", "scheme_upper",
    "name_upper", "name_space", "name_colon", "name_crlf", "name_nul",
    "value_crlf", "value_lf", "value_cr", "value_nul", "value_lead_space", "value_trail_tab", "value_obs",
    "conn_close", "conn_nominate", "keep_alive", "proxy_connection", "upgrade", "te_chunked", "te_gzip",
    "cookie_semicolon", "cl_short", "cl_long", "cl_dup", "cl_garbage", "cl_plus", "cl_with_end_stream",
    "host_differs", "host_dup", "host_crlf",
]
REQ_STRUCT_ATTACKS = ["dup_pseudo_path", "dup_pseudo_method", "dup_authority", "pseudo_after_regular", "missing_path",
                      "missing_method", "missing_scheme", "unknown_pseudo", "status_in_request", "name_empty", "path_empty"]
RESP_VALUE_ATTACKS = [
    "status_sp_reason", "status_underscore", "status_plus", "status_leading_zero",
    "name_upper", "name_space", "name_colon", "name_crlf", "value_crlf", "value_lf", "value_cr", "value_nul",
    "value_lead_space", "value_obs", "te_chunked", "conn_close", "keep_alive", "upgrade",
    "cl_short", "cl_long", "cl_dup", "cl_garbage", "body_on_204",
]
RESP_STRUCT_ATTACKS = ["dup_status", "pseudo_after_regular", "missing_status", "request_pseudo_in_response", "status_text",
                       "status_two_digits", "status_four_digits", "name_empty"]


def gen_body(r, m, tag):
    n = r.choice([0, 0, 1, 1, 2, 3])
    return [f"<{m}.{tag}{i}>" + "." * r.choice([0, 3, 40, 300]) for i in range(n)]


def gen_request(r, m, cver, sver, scheme="https"):
    method = r.choice(["GET", "GET", "POST", "PUT", "DELETE", "OPTIONS", "HEAD", "PATCH", "POST"])
    chunks = gen_body(r, m, "q") if method in ("POST", "PUT", "PATCH") or r.random() < 0.15 else []
    req = {"method": method, "scheme": scheme, "authority": "o.test", "path": f"/c06/{m}?a=1&b={m}",
           "fields": [["x-mark", m], ["accept", "*/*"], ["user-agent", "verif/1"]], "chunks": chunks, "trailers": None,
           "cl": None, "block": None, "attacks": [], "structural": False, "cuts": [], "gaps": []}
    body_len = sum(len(c) for c in chunks)
    # ---- clean variety that needs translation --------------------------------------------------------
    nck = r.choice([0, 0, 1, 2, 3, 6, 12])
    for i in range(nck):
        req["fields"].append(["cookie", f"c{i}={m}{i}"])
    if r.random() < 0.3:
        req["fields"].append(["x-multi", "one"])
        req["fields"].append(["x-multi", "two"])
    if r.random() < 0.2:
        req["fields"].append(["x-empty", ""])
    if cver in ("h2", "h3"):
        if chunks and r.random() < 0.5:
            req["cl"] = "auto"    # = the length of whatever the chunks are (stays consistent under shrinking)
        if chunks and r.random() < 0.25:
            req["trailers"] = [["x-qt", m], ["x-qt2", "t"]]
        if chunks and req["cl"] is None and r.random() < 0.35:
            # a perfectly valid HTTP/2 body that looks like a pipelined HTTP/1 request
            req["chunks"] = chunks = [SMUGGLE.replace("smuggled", "smuggled-" + m)]
        if r.random() < 0.15:
            req["fields"].append(["te", "trailers"])
        if cver == "h2" and sver != "h3" and r.random() < 0.1:
            # :authority omitted, Host field instead (allowed).  Not where an aioquic peer would have to accept it:
            # aioquic insists on :authority (stricter than RFC 9114 4.3.1) and would close the connection.
            req["authority"] = ""
            req["fields"].insert(0, ["host", "o.test"])
    else:
        # HTTP/1 sender: valid HTTP/1 that needs translation
        h1 = {"framing": "none", "names": r.choice(["lower", "title", "mixed"])}
        if chunks:
            h1["framing"] = r.choice(["cl", "cl", "chunked"])
        elif method in ("POST", "PUT", "PATCH") and r.random() < 0.5:
            h1["framing"] = "cl"
        if r.random() < 0.3:
            req["fields"].append(["connection", r.choice(["keep-alive", "x-hop", "close, x-hop"])])
            req["fields"].append(["x-hop", "1"])
        if r.random() < 0.15:
            req["fields"].append(["keep-alive", "timeout=5"])
        if r.random() < 0.15:
            req["fields"].append(["x-ows", "  padded \t"])
        if r.random() < 0.1:
            req["fields"].append(["x-obs", "caf\xe9"])
        if r.random() < 0.1:
            h1["chunk_ext"] = True
        req["h1"] = h1
    # ---- adversarial edits (HTTP/2 and HTTP/3 senders only) -----------------------------------------------
    if cver in ("h2", "h3") and r.random() < 0.6:
        for _ in range(r.choice([1, 1, 1, 2])):
            if r.random() < 0.2:
                # (QPACK cannot even encode an empty field name)
                apply_req_attack(r, req, r.choice([a for a in REQ_STRUCT_ATTACKS if not (cver == "h3" and a == "name_empty")]), m)
            else:
                apply_req_attack(r, req, r.choice(REQ_VALUE_ATTACKS), m)
    est = 200 + sum(len(c) for c in req["chunks"])
    ncut = r.choice([0, 0, 1, 2, 4])
    req["cuts"] = sorted({r.randrange(1, est) for _ in range(ncut)})
    req["gaps"] = [r.choice([0, 0, 0.001, 0.05]) for _ in req["cuts"]]
    return req


def pad_total(part) -> int:
    """Octets the PADDED DATA frames of this message carry besides the body (pad octets + one pad-length octet each)."""
    n = len(part.get("chunks") or [])
    return sum(int(p) + 1 for p in (part.get("pads") or [])[:n] if p is not None)


def cl_value(part) -> str:
    """The content-length announcement.  Symbolic forms stay meaningful when the shrinker changes chunks / pads:
    "auto" = the body length, "pad" = body + all padding (= the flow-controlled length of the DATA frames),
    "padonly" = body + pad octets without the pad-length octets, "auto+N" / "auto-N" = off by N; else literal."""
    cl = part["cl"]
    n = sum(len(c) for c in part["chunks"])
    if cl == "auto":
        return str(n)
    if cl == "pad":
        return str(n + pad_total(part))
    if cl == "padonly":
        k = len(part["chunks"])
        return str(n + sum(int(p) for p in (part.get("pads") or [])[:k] if p is not None))
    if isinstance(cl, str) and re.match(r"^auto[+-]\d+$", cl):
        return str(max(0, n + int(cl[4:])))
    return cl


def gen_padding(r, part, m, trailer_names):
    """Round c: HTTP/2 senders use PADDED DATA frames (pad length 0 included), sometimes announce a content-length
    that is off by a few octets - among them exactly the padding - and end the stream with a trailers HEADERS
    frame instead of END_STREAM on the last DATA frame.  Drawn from its own rng site."""
    if not part["chunks"] or part.get("block") is not None or r.random() >= 0.45:
        return
    part["pads"] = [r.choice([None, 0, 0, 1, 2, 3, 7, 16, 100, 255]) for _ in part["chunks"]]
    if all(p is None for p in part["pads"]):
        part["pads"][r.randrange(len(part["pads"]))] = r.choice([0, 1, 5, 30])
    if any(a.startswith(("cl_", "te_", "body_")) for a in part["attacks"]) or part.get("structural"):
        return
    x = r.random()
    if x < 0.5:
        lie = _wchoice(r, [("pad", 5), ("padonly", 2), ("auto+1", 1), ("auto-1", 1), ("auto+2", 1), ("auto-2", 1)])
        part["cl"] = lie
        if cl_value(part) != str(sum(len(c) for c in part["chunks"])):
            part["attacks"].append({"pad": "cl_pad_exact", "padonly": "cl_pad_octets"}.get(lie, "cl_off_small"))
        else:
            part["cl"] = "auto"
    elif x < 0.75:
        part["cl"] = "auto"
    if part["trailers"] is None and r.random() < 0.6:
        part["trailers"] = [[trailer_names, m]]


def block_of(req):
    """The HTTP/2 / HTTP/3 header block of a canonical request."""
    if req.get("block") is not None:
        return req["block"]
    b = [[":method", req["method"]], [":scheme", req["scheme"]]]
    if req["authority"] != "":
        b.append([":authority", req["authority"]])
    b.append([":path", req["path"]])
    b += req["fields"]
    if req.get("cl") is not None:
        b.append(["content-length", cl_value(req)])
    return b


def apply_req_attack(r, req, a, m):
    req["attacks"].append(a)
    f = req["fields"]
    body_len = sum(len(c) for c in req["chunks"])
    if a == "method_crlf":
        req["method"] = "GET / HTTP/1.1\r\nX-Inj: 1\r\nX-Rest:"
    elif a == "method_space":
        req["method"] = "GE T"
    elif a == "method_lower":
        req["method"] = req["method"].lower()
    elif a == "path_space":
        req["path"] = f"/c06/{m} x"
    elif a == "path_crlf":
        req["path"] = f"/c06/{m} HTTP/1.1\r\nX-Inj: 1\r\nX-Rest: "
    elif a == "path_nul":
        req["path"] = f"/c06/{m}\x00x"
    elif a == "path_noslash":
        req["path"] = f"c06-{m}"
    elif a == "path_absolute":
        req["path"] = f"http://evil.test/c06/{m}"
    elif a == "path_empty":
        req["path"] = ""
        req["structural"] = True
    elif a == "authority_crlf":
        req["authority"] = "o.test\r\nX-Inj: 1"
    elif a == "authority_space":
        req["authority"] = "o.test x"
    elif a == "authority_userinfo":
        req["authority"] = "user@o.test"
    elif a == "authority_port":
        req["authority"] = "o.test:8443"
    elif a == "authority_upper":
        req["authority"] = "O.Test"
    elif a == "scheme_crlf":
        req["scheme"] = "https\r\nX-Inj: 1"
    elif a == "scheme_other":
        req["scheme"] = "ftp"
    elif a == "scheme_upper":
        req["scheme"] = "HTTPS"
    elif a == "name_upper":
        f.append(["X-Upper", "1"])
    elif a == "name_space":
        f.append(["x bad", "1"])
    elif a == "name_colon":
        f.append(["x-a:b", "1"])
    elif a == "name_crlf":
        f.append(["x-a\r\nx-inj", "1"])
    elif a == "name_nul":
        f.append(["x-a\x00b", "1"])
    elif a == "name_empty":
        f.append(["", "1"])
        req["structural"] = True
    elif a == "value_crlf":
        f.append(["x-v", "a\r\nX-Inj: 1"])
    elif a == "value_lf":
        f.append(["x-v", "a\nX-Inj: 1"])
    elif a == "value_cr":
        f.append(["x-v", "a\rb"])
    elif a == "value_nul":
        f.append(["x-v", "a\x00b"])
    elif a == "value_lead_space":
        f.append(["x-v", " a"])
    elif a == "value_trail_tab":
        f.append(["x-v", "a\t"])
    elif a == "value_obs":
        f.append(["x-v", "a\xffb"])
    elif a == "conn_close":
        f.append(["connection", "close"])
    elif a == "conn_nominate":
        f.append(["connection", "x-hop"])
        f.append(["x-hop", "1"])
    elif a == "keep_alive":
        f.append(["keep-alive", "timeout=5"])
    elif a == "proxy_connection":
        f.append(["proxy-connection", "keep-alive"])
    elif a == "upgrade":
        f.append(["upgrade", "websocket"])
        f.append(["connection", "upgrade"])
    elif a == "te_chunked":
        f.append(["transfer-encoding", "chunked"])
        req["cl"] = None
        req["chunks"] = ["0\r\n\r\n" + SMUGGLE.replace("smuggled", "smuggled-" + m)]
    elif a == "te_gzip":
        f.append(["te", "gzip"])
    elif a == "cookie_semicolon":
        f.append(["cookie", f"x={m}; y=2"])
        f.append(["cookie", ""])
    elif a == "cl_short":
        req["chunks"] = req["chunks"] or [f"<{m}.q>" + SMUGGLE]
        req["cl"] = str(max(0, sum(len(c) for c in req["chunks"]) - len(SMUGGLE)))
    elif a == "cl_long":
        req["cl"] = str(body_len + 7)
    elif a == "cl_dup":
        req["chunks"] = req["chunks"] or [f"<{m}.q>"]
        n = sum(len(c) for c in req["chunks"])
        req["cl"] = None
        f.append(["content-length", str(n)])
        f.append(["content-length", str(n + 3)])
    elif a == "cl_garbage":
        req["cl"] = r.choice(["abc", "1 2", "-1", "0x10", " 5"])
    elif a == "cl_plus":
        req["cl"] = "+" + str(body_len)
    elif a == "cl_with_end_stream":
        req["chunks"] = []
        req["trailers"] = None
        req["cl"] = "9"
    elif a == "host_differs":
        f.append(["host", "evil.test"])
    elif a == "host_dup":
        f.append(["host", "o.test"])
        f.append(["host", "evil.test"])
    elif a == "host_crlf":
        f.append(["host", "o.test\r\nX-Inj: 1"])
    else:
        # structural edits work on the finished block
        req["structural"] = True
        b = [list(x) for x in block_of(req)]
        if a == "dup_pseudo_path":
            b.insert(3, [":path", "/other"])
        elif a == "dup_pseudo_method":
            b.insert(1, [":method", "POST" if req["method"] != "POST" else "GET"])
        elif a == "dup_authority":
            b.insert(2, [":authority", "evil.test"])
        elif a == "pseudo_after_regular":
            b = [x for x in b if x[0] != ":path"] + [[":path", req["path"]]]
        elif a == "missing_path":
            b = [x for x in b if x[0] != ":path"]
        elif a == "missing_method":
            b = [x for x in b if x[0] != ":method"]
        elif a == "missing_scheme":
            b = [x for x in b if x[0] != ":scheme"]
        elif a == "unknown_pseudo":
            b.insert(1, [":foo", "bar"])
        elif a == "status_in_request":
            b.insert(0, [":status", "200"])
        req["block"] = b


def gen_response(r, m, cver, sver, req):
    """The origin's answer (sent in version `sver`, translated to `cver`)."""
    method = req["method"].upper() if isinstance(req["method"], str) else "GET"
    status = r.choice([200, 200, 200, 201, 204, 304, 404, 500, 301])
    chunks = [] if status in (204, 304) or method == "HEAD" else gen_body(r, m, "r")
    resp = {"status": status, "status_raw": None, "fields": [["x-mark", m], ["x-origin", "1"], ["content-type", "text/plain"]],
            "chunks": chunks, "trailers": None, "cl": None, "block": None, "attacks": [], "structural": False,
            "delay": r.choice([0, 0, 0.001, 0.05]), "cuts": [], "gaps": []}
    body_len = sum(len(c) for c in chunks)
    for i in range(r.choice([0, 0, 1, 2, 3])):
        resp["fields"].append(["set-cookie", f"s{i}={m}{i}; Path=/"])
    if status == 301:
        resp["fields"].append(["location", f"https://o.test/moved/{m}"])
    if r.random() < 0.2:
        resp["fields"].append(["x-empty", ""])
    if sver in ("h2", "h3"):
        if r.random() < 0.5 and (chunks or ((method == "HEAD" or status == 304) and cver != "h3")):
            resp["cl"] = "auto" if chunks else str(r.choice([0, 17]))
        if chunks and r.random() < 0.25:
            resp["trailers"] = [["x-rt", m], ["x-rt2", "t"]]
        if r.random() < 0.5:
            for _ in range(r.choice([1, 1, 2])):
                if r.random() < 0.2:
                    apply_resp_attack(r, resp, r.choice([a for a in RESP_STRUCT_ATTACKS if not (sver == "h3" and a == "name_empty")]), m)
                else:
                    apply_resp_attack(r, resp, r.choice(RESP_VALUE_ATTACKS), m)
    else:
        h1 = {"version": r.choice(["HTTP/1.1", "HTTP/1.1", "HTTP/1.1", "HTTP/1.0"]), "reason": r.choice(["OK", "Whatever", "", "Not Found (really)"]),
              "names": r.choice(["lower", "title", "mixed"])}
        if status in (204, 304) or method == "HEAD":
            # (an aioquic client peer treats content-length on a bodiless answer as a mismatch and gives up)
            h1["framing"] = r.choice(["none", "cl"]) if status != 204 and cver != "h3" else "none"
        elif h1["version"] == "HTTP/1.0":
            h1["framing"] = r.choice(["cl", "close"])
        else:
            h1["framing"] = r.choice(["cl", "cl", "chunked", "close"])
        if r.random() < 0.3:
            resp["fields"].append(["connection", r.choice(["keep-alive", "close", "x-hop"])])
            resp["fields"].append(["x-hop", "1"])
        if r.random() < 0.15:
            resp["fields"].append(["keep-alive", "timeout=5"])
        if r.random() < 0.15:
            resp["fields"].append(["x-ows", "  padded \t"])
        if r.random() < 0.1:
            resp["fields"].append(["x-obs", "caf\xe9"])
        if r.random() < 0.1:
            h1["chunk_ext"] = True
        resp["h1"] = h1
    est = 200 + sum(len(c) for c in resp["chunks"])
    ncut = r.choice([0, 0, 1, 2, 4])
    resp["cuts"] = sorted({r.randrange(1, est) for _ in range(ncut)})
    resp["gaps"] = [r.choice([0, 0, 0.001, 0.05]) for _ in resp["cuts"]]
    return resp


def resp_block_of(resp):
    if resp.get("block") is not None:
        return resp["block"]
    b = [[":status", resp["status_raw"] if resp.get("status_raw") is not None else str(resp["status"])]]
    b += resp["fields"]
    if resp.get("cl") is not None:
        b.append(["content-length", cl_value(resp)])
    return b


def apply_resp_attack(r, resp, a, m):
    resp["attacks"].append(a)
    f = resp["fields"]
    body_len = sum(len(c) for c in resp["chunks"])
    if a == "status_sp_reason":
        resp["status_raw"] = f"{resp['status']} OK"
    elif a == "status_underscore":
        s = str(resp["status"])
        resp["status_raw"] = s[0] + "_" + s[1:]
    elif a == "status_plus":
        resp["status_raw"] = "+" + str(resp["status"])
    elif a == "status_leading_zero":
        resp["status_raw"] = "0" + str(resp["status"])
    elif a == "name_upper":
        f.append(["X-Upper", "1"])
    elif a == "name_space":
        f.append(["x bad", "1"])
    elif a == "name_colon":
        f.append(["x-a:b", "1"])
    elif a == "name_crlf":
        f.append(["x-a\r\nx-inj", "1"])
    elif a == "name_empty":
        f.append(["", "1"])
        resp["structural"] = True
    elif a == "value_crlf":
        f.append(["x-v", "a\r\nSet-Cookie: inj=1"])
    elif a == "value_lf":
        f.append(["x-v", "a\nSet-Cookie: inj=1"])
    elif a == "value_cr":
        f.append(["x-v", "a\rb"])
    elif a == "value_nul":
        f.append(["x-v", "a\x00b"])
    elif a == "value_lead_space":
        f.append(["x-v", " a"])
    elif a == "value_obs":
        f.append(["x-v", "a\xffb"])
    elif a == "te_chunked":
        f.append(["transfer-encoding", "chunked"])
        resp["cl"] = None
        if resp["status"] in (204, 304):
            resp["status"] = 200
        resp["chunks"] = [f"5\r\n<{m}>"[:12] + "\r\n0\r\n\r\nHTTP/1.1 200 OK\r\nContent-Length: 9\r\nX-Smuggled: 1\r\n\r\nsmuggled!"]
    elif a == "conn_close":
        f.append(["connection", "close"])
    elif a == "keep_alive":
        f.append(["keep-alive", "timeout=5"])
    elif a == "upgrade":
        f.append(["upgrade", "h2c"])
    elif a == "cl_short":
        if resp["status"] in (204, 304):
            resp["status"] = 200
        resp["chunks"] = resp["chunks"] or [f"<{m}.r>" + "HTTP/1.1 200 OK\r\nContent-Length: 2\r\n\r\nxx"]
        resp["cl"] = str(max(0, sum(len(c) for c in resp["chunks"]) - 10))
    elif a == "cl_long":
        resp["cl"] = str(body_len + 7)
    elif a == "cl_dup":
        resp["cl"] = None
        f.append(["content-length", str(body_len)])
        f.append(["content-length", str(body_len + 3)])
    elif a == "cl_garbage":
        resp["cl"] = r.choice(["abc", "1 2", "-1", " 5"])
    elif a == "body_on_204":
        resp["status"] = 204
        resp["cl"] = None
        resp["chunks"] = [f"<{m}.r-on-204>"]
    else:
        resp["structural"] = True
        b = [list(x) for x in resp_block_of(resp)]
        if a == "dup_status":
            b.insert(1, [":status", "500" if resp["status"] != 500 else "200"])
        elif a == "pseudo_after_regular":
            b = b[1:] + [b[0]]
        elif a == "missing_status":
            b = b[1:]
        elif a == "request_pseudo_in_response":
            b.insert(1, [":path", "/x"])
        elif a == "status_text":
            b[0] = [":status", "abc"]
        elif a == "status_two_digits":
            b[0] = [":status", "99"]
        elif a == "status_four_digits":
            b[0] = [":status", "2000"]
        resp["block"] = b


def generate(rng, tier):
    r = rng.at("c06")
    engine = _wchoice(r, [("real", 18), ("stub", 82)])
    cver, sver = r.choice(PAIRS_REAL) if engine == "real" else r.choice(PAIRS_STUB)
    msgs = []
    for k in range(r.choice([1, 1, 2])):
        m = mk(k)
        # plaintext upstream in the harness (as the repo's own layer tests do); https over the real TLS transport
        req = gen_request(r, m, cver, sver, scheme="http" if engine == "stub" else "https")
        resp = gen_response(r, m, cver, sver, req)
        msgs.append({"mk": m, "req": req, "resp": resp})
    rp = rng.at("c06-pad")
    for msg in msgs:
        if cver == "h2":
            gen_padding(rp, msg["req"], msg["mk"], "x-qt")
        if sver == "h2":
            gen_padding(rp, msg["resp"], msg["mk"], "x-rt")
    sc = {"family": f"{engine}:{cver}-{sver}", "engine": engine, "cver": cver, "sver": sver,
          "mode": r.choice(["regular", "reverse"]) if engine == "real" else "regular",
          "eager": r.random() < 0.5, "options": {}, "messages": msgs}
    return sc


# =====================================================================================================
# wire forms
# =====================================================================================================
def _style(name: str, style: str) -> str:
    if style == "title":
        return "-".join(p[:1].upper() + p[1:] for p in name.split("-"))
    if style == "mixed":
        return "".join(ch.upper() if i % 2 else ch for i, ch in enumerate(name))
    return name


def _chunked(chunks, ext=False) -> bytes:
    out = b""
    for c in chunks:
        c = B(c)
        if c:
            out += b"%x%s\r\n%s\r\n" % (len(c), b";x=1" if ext else b"", c)
    return out + b"0\r\n\r\n"


def h1_request_bytes(req, absolute: bool) -> bytes:
    h1 = req.get("h1") or {"framing": "cl" if req["chunks"] else "none", "names": "lower"}
    style = h1.get("names", "lower")
    target = req["path"]
    if absolute:
        target = f"{req['scheme']}://{req['authority'] or 'o.test'}{req['path']}"
    lines = [f"{req['method']} {target} HTTP/1.1"]
    if not any(n.lower() == "host" for n, _ in req["fields"]):
        lines.append(f"{_style('host', style)}: {req['authority'] or 'o.test'}")
    for n, v in req["fields"]:
        lines.append(f"{_style(n, style)}: {v}")
    body = b"".join(B(c) for c in req["chunks"])
    if h1["framing"] == "cl":
        lines.append(f"{_style('content-length', style)}: {len(body)}")
        payload = body
    elif h1["framing"] == "chunked":
        lines.append(f"{_style('transfer-encoding', style)}: chunked")
        payload = _chunked(req["chunks"], h1.get("chunk_ext"))
    else:
        payload = b""
    return B("\r\n".join(lines) + "\r\n\r\n") + payload


def h1_response_bytes(resp, method: str):
    """-> (bytes, close_after: bool)"""
    h1 = resp.get("h1") or {"version": "HTTP/1.1", "reason": "OK", "names": "lower", "framing": "cl"}
    style = h1.get("names", "lower")
    lines = [f"{h1['version']} {resp['status']} {h1.get('reason', 'OK')}"]
    for n, v in resp["fields"]:
        lines.append(f"{_style(n, style)}: {v}")
    body = b"".join(B(c) for c in resp["chunks"])
    framing = h1.get("framing", "cl")
    close_after = h1["version"] == "HTTP/1.0"
    bodiless = resp["status"] in (204, 304) or method.upper() == "HEAD"
    if framing == "cl":
        lines.append(f"{_style('content-length', style)}: {len(body) if not bodiless else 17}")
        payload = b"" if bodiless else body
    elif framing == "chunked" and not bodiless:
        lines.append(f"{_style('transfer-encoding', style)}: chunked")
        payload = _chunked(resp["chunks"], h1.get("chunk_ext"))
    elif framing == "close" and not bodiless:
        payload = body
        close_after = True
    else:
        payload = b""
    if any(n.lower() == "connection" and "close" in v.lower() for n, v in resp["fields"]):
        close_after = True
    return B("\r\n".join(lines) + "\r\n\r\n") + payload, close_after


def split_at(data: bytes, cuts):
    pts = sorted({c for c in cuts if 0 < c < len(data)}) + [len(data)]
    out, pos = [], 0
    for e in pts:
        out.append(data[pos:e])
        pos = e
    return [p for p in out if p]


def marker_in(b) -> str | None:
    m = MARK.search(bytes(b))
    return mk(int(m.group(1))) if m else None


def block_marker(block) -> str | None:
    for n, v in block:
        m = MARK.search(bytes(n)) or MARK.search(bytes(v))
        if m:
            return mk(int(m.group(1)))
    return None


# =====================================================================================================
# stub engine (layer harness)
# =====================================================================================================
def new_record(msg):
    return {"mk": msg["mk"], "up": [], "req_sent": False, "resp_sent": False, "client": None, "notes": []}


def run_stub(sc):
    cver, sver = sc["cver"], sc["sver"]
    h = ST.LayerHarness(cver, sver, sc.get("options") or None)
    out = {"engine": "stub", "harness": h, "records": [], "log": h.log, "crash": None, "sim_s": 0.0}
    h.start()
    by_mk = {m["mk"]: m for m in sc["messages"]}
    # ---- client peer -----------------------------------------------------------------------------------
    c_raw = bytearray()
    cp = None
    if cver == "h2":
        cp = ST.H2Peer(True)
        h.client_bytes(cp.take())
    elif cver == "h3":
        cp = ST.H3Peer(True)
        for it in cp.take():
            if it[0] == "data":
                h.client_quic(it[1], it[2], it[3])
    client_events = []   # resets / closes seen by an h3 client
    # ---- server peers ------------------------------------------------------------------------------------
    sp: dict = {}

    def server_peer(i):
        p = sp.get(i)
        if p is None:
            if sver == "h1":
                p = {"raw": bytearray(), "consumed": 0, "answered": [], "closed_by_us": False, "ambiguous": None}
            elif sver == "h2":
                p = {"peer": ST.H2Peer(False), "answered": set()}
                h.server_bytes(i, p["peer"].take())
            else:
                p = {"peer": ST.H3Peer(False), "answered": set(), "events": []}
                for it in p["peer"].take():
                    if it[0] == "data":
                        h.server_quic(i, it[1], it[2], it[3])
            p["first_msg"] = current["mk"]
            sp[i] = p
        return p

    current = {"mk": None, "rec": None}

    def resp_for(marker):
        m = by_mk.get(marker) if marker else None
        if m is None:
            return None
        return m["resp"]

    def answer_h1(i, p, pm):
        marker = marker_in(pm.method + b" " + pm.target + b" " + b" ".join(n + b":" + v for n, v in pm.headers)) or current["mk"]
        resp = resp_for(marker)
        p["answered"].append(marker)
        if resp is None:
            data, close_after = b"HTTP/1.1 200 OK\r\nContent-Length: 0\r\nX-Default: 1\r\n\r\n", False
        else:
            data, close_after = h1_response_bytes(resp, pm.method.decode("latin-1"))
            current["rec"]["resp_sent"] = True
        for piece in split_at(data, (resp or {}).get("cuts", ())):
            h.server_bytes(i, piece)
        if close_after:
            p["closed_by_us"] = True
            h.server_close(i)

    hold = {"on": False}

    def pump():
        guard = 0
        progress = True
        while progress and h.crash is None:
            guard += 1
            if guard > 2000:
                raise ST.StubHarnessError("stub pump does not settle")
            progress = False
            # ---------------- client side
            if cver == "h1":
                if h.client_out:
                    c_raw.extend(h.client_out)
                    del h.client_out[:]
            elif cver == "h2":
                if h.client_out:
                    data = bytes(h.client_out)
                    del h.client_out[:]
                    cp.receive(data)
                # the peer's own frames (SETTINGS ACK, WINDOW_UPDATE) may only go out at a frame boundary:
                # never in the middle of a request that is being delivered in pieces
                back = b"" if hold["on"] else cp.take()
                if back:
                    h.client_bytes(back)
                    progress = True
            else:
                if h.client_q:
                    items, h.client_q = h.client_q, []
                    for it in items:
                        if it[0] == "data":
                            cp.receive(it[1], it[2], it[3])
                        else:
                            client_events.append(it)
                            if it[0] == "reset":
                                cp.st(it[1])["reset"] = it[2]
                            elif it[0] == "close":
                                cp.closed_by_proxy = (it[1], it[2])
                    for it in cp.take():
                        if it[0] == "data":
                            h.client_quic(it[1], it[2], it[3])
                            progress = True
            # ---------------- server side
            for i in range(len(h.servers)):
                p = server_peer(i)
                if sver == "h1":
                    if h.server_out[i]:
                        p["raw"].extend(h.server_out[i])
                        del h.server_out[i][:]
                    while p["ambiguous"] is None and len(p["raw"]) > p["consumed"] and not p["closed_by_us"]:
                        try:
                            pm = P.parse_request(bytes(p["raw"]), p["consumed"])
                        except P.Ambiguous as e:
                            p["ambiguous"] = e.reason
                            break
                        except P.Incomplete:
                            break
                        p["consumed"] = pm.end
                        answer_h1(i, p, pm)
                        progress = True
                elif sver == "h2":
                    peer = p["peer"]
                    if h.server_out[i]:
                        data = bytes(h.server_out[i])
                        del h.server_out[i][:]
                        peer.receive(data)
                    for sid, s in list(peer.streams.items()):
                        if s["ended"] and s["headers"] and sid not in p["answered"] and s["reset"] is None:
                            p["answered"].add(sid)
                            marker = block_marker(s["headers"][0]) or current["mk"]
                            s["marker"] = marker
                            resp = resp_for(marker)
                            if resp is None:
                                ok = peer.send_message(sid, [[":status", "200"], ["x-default", "1"]], [], None)
                            else:
                                ok = peer.send_message(sid, resp_block_of(resp), resp["chunks"], resp["trailers"],
                                                       pads=resp.get("pads"))
                                if ok:
                                    current["rec"]["resp_sent"] = True
                    back = peer.take()
                    if back and not h.server_closed.get(i):
                        cuts = ()
                        r_ = resp_for(current["mk"])
                        if r_:
                            cuts = r_.get("cuts", ())
                        for piece in split_at(back, cuts):
                            h.server_bytes(i, piece)
                        progress = True
                else:
                    peer = p["peer"]
                    if h.server_q[i]:
                        items, h.server_q[i] = h.server_q[i], []
                        for it in items:
                            if it[0] == "data":
                                peer.receive(it[1], it[2], it[3])
                            else:
                                p["events"].append(it)
                                if it[0] == "reset":
                                    peer.st(it[1])["reset"] = it[2]
                                elif it[0] == "close":
                                    peer.closed_by_proxy = (it[1], it[2])
                    for sid, s in list(peer.streams.items()):
                        if s["ended"] and s["headers"] and sid not in p["answered"] and s["reset"] is None:
                            p["answered"].add(sid)
                            marker = block_marker(s["headers"][0]) or current["mk"]
                            s["marker"] = marker
                            resp = resp_for(marker)
                            try:
                                if resp is None:
                                    peer.h3.send_headers(sid, HP.hdrs([[":status", "200"], ["x-default", "1"]]), end_stream=True)
                                else:
                                    ch, tr = resp["chunks"], resp["trailers"]
                                    peer.h3.send_headers(sid, HP.hdrs(resp_block_of(resp)), end_stream=not ch and not tr)
                                    for j, c in enumerate(ch):
                                        peer.h3.send_data(sid, B(c), end_stream=(j == len(ch) - 1 and not tr))
                                    if tr:
                                        peer.h3.send_headers(sid, HP.hdrs(tr), end_stream=True)
                                    current["rec"]["resp_sent"] = True
                            except Exception as e:
                                raise ST.StubHarnessError(f"h3 origin peer cannot send its scripted answer: {type(e).__name__}: {e}")
                    for it in peer.take():
                        if it[0] == "data" and not h.server_closed.get(i):
                            h.server_quic(i, it[1], it[2], it[3])
                            progress = True

    # ---- the exchanges ----------------------------------------------------------------------------------------
    for k, msg in enumerate(sc["messages"]):
        rec = new_record(msg)
        out["records"].append(rec)
        current["mk"], current["rec"] = msg["mk"], rec
        if h.crash is not None or h.client_closed:
            rec["notes"].append("not_sent_connection_gone")
            continue
        req = msg["req"]
        rec["servers_before"] = len(h.servers)
        rec["c_off"] = len(c_raw)
        rec["h1_off"] = {i: len(p["raw"]) for i, p in sp.items()} if sver == "h1" else {}
        rec["known"] = {(i, sid) for i, p in sp.items() if sver != "h1" for sid in p["peer"].streams}
        if cver == "h1":
            data = h1_request_bytes(req, absolute=True)
            rec["req_sent"] = True
            for piece in split_at(data, req.get("cuts", ())):
                h.client_bytes(piece)
                pump()
        elif cver == "h2":
            sid = 1 + 2 * k
            rec["sid"] = sid
            if cp.proto_error is not None or cp.goaway is not None:
                rec["notes"].append("not_sent_connection_gone")
                continue
            ok = cp.send_message(sid, block_of(req), req["chunks"], req["trailers"], pads=req.get("pads"))
            if not ok:
                raise ST.StubHarnessError("h2 client peer cannot send its scripted request")
            rec["req_sent"] = True
            data = cp.take()
            hold["on"] = True
            for piece in split_at(data, req.get("cuts", ())):
                h.client_bytes(piece)
                pump()
            hold["on"] = False
        else:
            sid = 4 * k
            rec["sid"] = sid
            if cp.closed_by_proxy is not None or cp.self_closed is not None:
                rec["notes"].append("not_sent_connection_gone")
                continue
            ch, tr = req["chunks"], req["trailers"]
            try:
                cp.h3.send_headers(sid, HP.hdrs(block_of(req)), end_stream=not ch and not tr)
                for j, c in enumerate(ch):
                    cp.h3.send_data(sid, B(c), end_stream=(j == len(ch) - 1 and not tr))
                if tr:
                    cp.h3.send_headers(sid, HP.hdrs(tr), end_stream=True)
            except Exception as e:
                raise ST.StubHarnessError(f"h3 client peer cannot send its scripted request: {type(e).__name__}: {e}")
            rec["req_sent"] = True
            cuts = list(req.get("cuts", ()))
            for it in cp.take():
                if it[0] != "data":
                    continue
                if len(it[2]) > 1 and cuts:
                    pieces = split_at(it[2], [c % len(it[2]) for c in cuts])
                    for j, piece in enumerate(pieces):
                        h.client_quic(it[1], piece, it[3] and j == len(pieces) - 1)
                        pump()
                else:
                    h.client_quic(it[1], it[2], it[3])
                    pump()
        pump()
        rec["servers_after"] = len(h.servers)
        rec["c_end"] = len(c_raw)
        if sver == "h1":
            rec["up_raw"] = [bytes(p["raw"][rec["h1_off"].get(i, 0):]) for i, p in sorted(sp.items())]
            rec["up_raw"] = [x for x in rec["up_raw"] if x]
            rec["up_conns_opened"] = rec["servers_after"] - rec["servers_before"]
        else:
            new = []
            for i, p in sorted(sp.items()):
                for sid, s in sorted(p["peer"].streams.items()):
                    if (i, sid) not in rec["known"]:
                        new.append(s)
            rec["up_streams"] = new
            errs = []
            for i, p in sorted(sp.items()):
                peer = p["peer"]
                e = getattr(peer, "proto_error", None) or getattr(peer, "self_closed", None)
                if e and not p.get("err_reported"):
                    p["err_reported"] = True
                    errs.append(str(e))
            rec["up_strict_error"] = errs[0] if errs else None
        rec["client_closed"] = h.client_closed
        if cp is not None:
            e = getattr(cp, "proto_error", None) or getattr(cp, "self_closed", None)
            rec["down_strict_error"] = str(e) if (e and not current.get("cp_err_reported")) else None
            if e:
                current["cp_err_reported"] = True
            rec["down_conn_closed"] = bool(getattr(cp, "goaway", None) is not None or getattr(cp, "closed_by_proxy", None) is not None)
    # close-delimited HTTP/1 answers towards an HTTP/1 client end with mitmproxy's close: nothing to do here.
    out["c_raw"] = bytes(c_raw)
    out["client_closed"] = h.client_closed
    out["cp"] = cp
    out["sp"] = sp
    out["client_events"] = client_events
    if h.crash is None:
        h.client_close()
    out["crash"] = h.crash
    return out


# =====================================================================================================
# real engine (proxy world, TLS on both sides)
# =====================================================================================================
class _Serial:
    def __init__(self, seed):
        self.n = (seed & 0xFFFFFFFFFFFF) << 16

    def __call__(self):
        self.n += 1
        return (1 << 150) | self.n


def _method_token(req) -> str:
    m = req.get("method") or ""
    return m.upper() if re.match(r"^[A-Za-z]+$", m) else "GET"


def run_real(sc):
    from cryptography import x509
    from mitmproxy.proxy.layers.http import _http2 as m_h2
    from simkit import world as W
    from simkit.net import ConnectPlan

    cver, sver = sc["cver"], sc["sver"]
    by_mk = {m["mk"]: m for m in sc["messages"]}
    res = {"obs": [], "log": [], "crash": None, "sim_s": 0.0, "faults": {}}
    pki = T.sim_pki()
    old_serial = x509.random_serial_number
    x509.random_serial_number = _Serial(sc.get("seed", 0))
    for cls in (m_h2.Http2Server, m_h2.Http2Client):
        cls.h2_conf.validate_inbound_headers = True
    state = {"origins": [], "hooks": []}

    def h1_marker(pm):
        return marker_in(pm.method + b" " + pm.target + b" " + b" ".join(n + b":" + v for n, v in pm.headers))

    async def body(w):
        w.hook_listeners.append(lambda t, name, data: state["hooks"].append((round(t, 6), name))
                                if name in ("requestheaders", "request", "responseheaders", "response", "error") else None)

        def planner(host, port, n, proto):
            def accept(conn):
                ordinal = len(state["origins"])
                if sver == "h1":
                    responses = {}
                    for m in sc["messages"]:
                        data, close_after = h1_response_bytes(m["resp"], _method_token(m["req"]))
                        responses[m["mk"]] = {"delay": m["resp"].get("delay", 0), "data": data.decode("latin-1"),
                                              "cuts": m["resp"].get("cuts", []), "gaps": m["resp"].get("gaps", []),
                                              "then": "close" if close_after else "keep"}
                    spec = {"responses": responses, "idle": 15.0,
                            "default_response": {"data": "HTTP/1.1 200 OK\r\nContent-Length: 0\r\nX-Default: 1\r\n\r\n", "then": "keep"}}
                    tls = T.TlsStream(conn, T.origin_context(["http/1.1"]), server_side=True)
                    o = H1.H1Origin(w, tls, spec, h1_marker, name=f"origin{ordinal}")
                else:
                    responses = {}
                    for m in sc["messages"]:
                        rp = m["resp"]
                        responses[m["mk"]] = {"delay": rp.get("delay", 0), "headers": resp_block_of(rp), "chunks": rp["chunks"],
                                              "trailers": rp["trailers"], "gaps": rp.get("gaps", []), "pads": rp.get("pads")}
                    spec = {"responses": responses, "default_response": {"headers": [[":status", "200"], ["x-default", "1"]], "chunks": []},
                            "idle_close": 60.0}
                    tls = T.TlsStream(conn, T.origin_context(["h2"]), server_side=True)
                    o = HP.H2Origin(w, tls, spec, lambda hs: block_marker(hs), name=f"origin{ordinal}")
                o.ordinal = ordinal
                o.sim_conn = conn
                o.tls_ = tls
                state["origins"].append(o)

                async def go():
                    if not await tls.handshake():
                        o.handshake_error = tls.tls_error
                        return
                    await o.run()
                o.task = w.loop.create_task(go(), name=f"sim-origin-{ordinal}")
            return ConnectPlan(delay=0.0, accept=accept)
        w.net.connect_planner = planner

        c = w.connect_client()
        if sc["mode"] == "regular":
            st = await T.connect_via_proxy(c, b"o.test:443")
            if st is None or b" 200" not in st:
                raise W.HarnessError(f"CONNECT failed: {st!r}")
        alpn = ["h2", "http/1.1"] if cver == "h2" else ["http/1.1", "h2"]
        tls = T.TlsStream(c, T.client_context(alpn), server_side=False, server_hostname="o.test")
        if not await tls.handshake():
            raise W.HarnessError(f"client TLS handshake failed: {tls.tls_error}")
        want = "h2" if cver == "h2" else "http/1.1"
        if tls.alpn != want:
            raise W.HarnessError(f"client negotiated {tls.alpn!r}, wanted {want}")
        recs = []
        if cver == "h2":
            cl = HP.H2Client(w, tls, {"streams": {}, "steps": [], "finish": {"timeout": 5.0, "close": "goaway"}})
            await cl.start()
            await cl.wait_done([], 0)   # one pump
            for k, msg in enumerate(sc["messages"]):
                rq = msg["req"]
                rec = {"mk": msg["mk"], "k": k, "req_sent": False, "o_before": len(state["origins"]),
                       "r_before": [len(getattr(o, "requests", [])) for o in state["origins"]]}
                recs.append(rec)
                err_before = cl.proto_error
                if cl.dead():
                    rec["note"] = "not_sent_connection_gone"
                    continue
                cl.spec["streams"][k] = {"headers": block_of(rq), "chunks": rq["chunks"], "trailers": rq["trailers"],
                                         "pads": rq.get("pads")}
                frames = [{"s": k, "t": "H", "end": not rq["chunks"] and not rq["trailers"]}]
                for i in range(len(rq["chunks"])):
                    frames.append({"s": k, "t": "D", "i": i, "end": i == len(rq["chunks"]) - 1 and not rq["trailers"]})
                if rq["trailers"]:
                    frames.append({"s": k, "t": "T"})
                cl.spec["steps"] = [{"frames": frames, "cuts": rq.get("cuts", []), "gaps": rq.get("gaps", [])}]
                await cl.run_steps()
                rec["req_sent"] = bool(cl.sent.get(k, {}).get("headers"))
                await cl.wait_done([k], 12.0)
                await asyncio.sleep(0.5)
                cl.pump()
                rec["o_after"] = len(state["origins"])
                # only what the client peer refused while THIS exchange was running belongs to it
                rec["down_err"] = cl.proto_error if err_before is None else None
                rec["down_closed"] = bool(cl.goaway_rx is not None or cl.tls.eof)
            await cl.finish()
            res["client"] = cl
        else:
            hc = H1.H1Client(w, tls, {"steps": [], "methods": [], "finish": {"close": "fin", "linger": 1.0}})
            for k, msg in enumerate(sc["messages"]):
                rq = msg["req"]
                rec = {"mk": msg["mk"], "k": k, "req_sent": False, "o_before": len(state["origins"]),
                       "r_before": [len(getattr(o, "requests", [])) for o in state["origins"]]}
                recs.append(rec)
                hc.pump()
                if tls.eof:
                    rec["note"] = "not_sent_connection_gone"
                    continue
                rec["c_off"] = len(hc.raw)
                data = h1_request_bytes(rq, absolute=False)
                await T.write_pieces(tls, data, rq.get("cuts", []), rq.get("gaps", []))
                rec["req_sent"] = True
                deadline = w.loop.time() + 12.0
                while True:
                    hc.pump()
                    pr = P.parse_responses(bytes(hc.raw[rec["c_off"]:]), [B(_method_token(rq))], tls.eof)
                    finals = [m_ for m_ in pr.msgs if not (100 <= m_.status <= 199)]
                    if tls.eof or (finals and pr.status == "ok"):
                        break
                    left = deadline - w.loop.time()
                    if left <= 0:
                        break
                    await tls.wait(left)
                await asyncio.sleep(0.5)
                hc.pump()
                rec["c_end"] = len(hc.raw)
                rec["eof"] = bool(tls.eof)
                rec["o_after"] = len(state["origins"])
            hc.spec["steps"] = []
            await hc.run()
            res["client"] = hc
        await asyncio.sleep(3.0)
        for o in state["origins"]:
            t = getattr(o, "task", None)
            if t is not None and t.done() and not t.cancelled() and t.exception():
                raise t.exception()
            for t2 in getattr(o, "tasks", []):
                if t2.done() and not t2.cancelled() and t2.exception():
                    raise t2.exception()
        res["recs"] = recs
        res["sim_s"] = w.loop.time()
        return None

    try:
        opts = {"ssl_verify_upstream_trusted_ca": pki["ca"], "connection_strategy": "lazy"}
        opts.update(sc.get("options") or {})
        mode = "regular" if sc["mode"] == "regular" else "reverse:https://o.test:443"
        _, w = W.run_world(body, eager=sc.get("eager", False), seed=sc.get("seed", 0), options=opts, modes=[mode],
                           max_iterations=1_000_000)
    finally:
        x509.random_serial_number = old_serial
    if w.crashes:
        t, msg, tb = w.crashes[0]
        res["crash"] = {"exc": tb.split(":")[0], "where": tb.split(" @ ")[-1] if " @ " in tb else msg[:60], "msg": tb[:300]}
    res["faults"] = {k: v for k, v in w.net.faults_fired.items() if k not in ("client_fin", "server_fin")}
    # ---- uniform observations -------------------------------------------------------------------------------------
    origins = state["origins"]
    cl = res.get("client")
    for rec in res.get("recs", []):
        o = {"mk": rec["mk"], "req_sent": rec["req_sent"], "resp_sent": False, "notes": [rec.get("note")] if rec.get("note") else [],
             "up_h1": None, "up_msgs": [], "up_strict_error": None, "down_h1": None, "down_msg": None,
             "down_strict_error": None, "down_closed": False}
        if not rec["req_sent"]:
            res["obs"].append(o)
            continue
        new_origins = origins[rec["o_before"]:rec.get("o_after", len(origins))]
        if sver == "h1":
            raws = [bytes(x.raw) for x in new_origins if x.raw]
            o["up_h1"] = {"raws": raws, "conns": len(new_origins)}
            o["resp_sent"] = any(rec["mk"] in x.answered for x in new_origins)
        else:
            for idx, x in enumerate(origins[:rec.get("o_after", len(origins))]):
                start = rec["r_before"][idx] if idx < len(rec["r_before"]) else 0
                nxt = None
                for later in res["recs"]:
                    if later["k"] > rec["k"] and later.get("req_sent") and idx < len(later["r_before"]):
                        nxt = later["r_before"][idx]
                        break
                for rq in x.requests[start:nxt]:
                    o["up_msgs"].append({"block": rq["headers"], "trailers": rq["trailers"], "extra_blocks": 0,
                                         "data": bytes(rq["body"]), "ended": rq["ended"], "reset": rq["reset"]})
                    if rq.get("resp_headers_sent") and rq.get("marker") == rec["mk"]:
                        o["resp_sent"] = True
                if x.proto_error and not getattr(x, "_err_reported", False):
                    x._err_reported = True
                    o["up_strict_error"] = x.proto_error
        if cver == "h1":
            o["down_h1"] = {"raw": bytes(cl.raw[rec["c_off"]:rec.get("c_end", len(cl.raw))]), "eof": bool(rec.get("eof"))}
        else:
            s = cl.streams.get(rec["k"])
            if s is not None:
                o["down_msg"] = {"block": s["resp_headers"], "trailers": s["trailers"], "extra_blocks": max(0, s["n_resp"] - 1),
                                 "data": bytes(s["data"]), "ended": s["ended"], "reset": s["reset"]}
            o["down_strict_error"] = rec.get("down_err")
            o["down_closed"] = bool(rec.get("down_closed"))
        res["obs"].append(o)
    log = list(state["hooks"])
    if cl is not None:
        log += cl.log
    for x in origins:
        log += x.log
    res["log"] = log
    return res


def observe_stub(sc, out):
    """Uniform per-message observations (the same structure the real engine produces)."""
    cver, sver = sc["cver"], sc["sver"]
    obs = []
    cp = out["cp"]
    for k, rec in enumerate(out["records"]):
        o = {"mk": rec["mk"], "req_sent": rec["req_sent"], "resp_sent": rec["resp_sent"], "notes": rec["notes"],
             "up_h1": None, "up_msgs": [], "up_strict_error": None, "down_h1": None, "down_msg": None,
             "down_strict_error": None, "down_closed": bool(rec.get("client_closed"))}
        if not rec["req_sent"]:
            obs.append(o)
            continue
        if sver == "h1":
            o["up_h1"] = {"raws": rec.get("up_raw", []), "conns": rec.get("up_conns_opened", 0)}
        else:
            for s in rec.get("up_streams", []):
                o["up_msgs"].append({"block": s["headers"][0] if s["headers"] else None,
                                     "trailers": s["headers"][1] if len(s["headers"]) > 1 else None,
                                     "extra_blocks": max(0, len(s["headers"]) - 2),
                                     "data": bytes(s["data"]), "ended": s["ended"], "reset": s["reset"]})
            o["up_strict_error"] = rec.get("up_strict_error")
        if cver == "h1":
            o["down_h1"] = {"raw": out["c_raw"][rec["c_off"]:rec.get("c_end", len(out["c_raw"]))],
                            "eof": bool(rec.get("client_closed"))}
        else:
            s = cp.streams.get(rec.get("sid"))
            if s is not None:
                o["down_msg"] = {"block": s["headers"][0] if s["headers"] else None,
                                 "trailers": s["headers"][1] if len(s["headers"]) > 1 else None,
                                 "extra_blocks": max(0, len(s["headers"]) - 2),
                                 "data": bytes(s["data"]), "ended": s["ended"], "reset": s["reset"]}
            o["down_strict_error"] = rec.get("down_strict_error")
            if rec.get("down_conn_closed"):
                o["down_closed"] = True
        obs.append(o)
    return obs


# =====================================================================================================
# oracle
# =====================================================================================================
TOKEN = re.compile(rb"^[!#$%&'*+\-.^_`|~0-9a-z]+$")   # lower-case only: HTTP/2 and HTTP/3 field names


def nv(v) -> bytes:
    return P.norm_value(bytes(v))


def nominated(fields) -> set:
    out = set()
    for n, v in fields:
        if bytes(n).lower() == b"connection":
            for t in bytes(v).split(b","):
                t = t.strip(b" \t").lower()
                if t:
                    out.add(t)
    return out


def e2e(fields, nom=None) -> list:
    fields = [(bytes(n), bytes(v)) for n, v in fields or []]
    nom = nominated(fields) if nom is None else nom
    return sorted((n.lower(), nv(v)) for n, v in fields
                  if n.lower() not in SKIP and n.lower() not in nom and not n.startswith(b":"))


def cookies(fields) -> list:
    return [nv(v) for n, v in fields or [] if bytes(n).lower() == b"cookie"]


def pseudo(block) -> dict:
    d = {}
    for n, v in block or []:
        n = bytes(n)
        if n.startswith(b":") and n not in d:
            d[n] = bytes(v)
    return d


def strict_block_error(block, kind: str) -> str | None:
    """Would a conforming HTTP/2 / HTTP/3 recipient refuse this header block? (RFC 9113 8.2, 8.3; RFC 9114 4.2, 4.3)"""
    seen_regular = False
    ps = {}
    for n, v in block or []:
        n, v = bytes(n), bytes(v)
        if n.startswith(b":"):
            if seen_regular:
                return f"pseudo-header {n!r} after a regular field"
            if n in ps:
                return f"duplicate pseudo-header {n!r}"
            ps[n] = v
        else:
            seen_regular = True
            if not TOKEN.match(n):
                return f"invalid field name {n!r}"
            if n in (b"connection", b"keep-alive", b"proxy-connection", b"transfer-encoding", b"upgrade"):
                return f"connection-specific field {n!r}"
            if n == b"te" and v.strip().lower() != b"trailers":
                return "te other than trailers"
        if b"\r" in v or b"\n" in v or b"\x00" in v:
            return f"CR/LF/NUL in the value of {n!r}"
        if v[:1] in (b" ", b"\t") or v[-1:] in (b" ", b"\t"):
            return f"leading/trailing whitespace in the value of {n!r}"
    allowed = {b":method", b":scheme", b":authority", b":path"} if kind == "request" else {b":status"}
    if kind == "trailers":
        allowed = set()
    for n in ps:
        if n not in allowed:
            return f"pseudo-header {n!r} not allowed in a {kind}"
    if kind == "request":
        for n in (b":method", b":scheme", b":path"):
            if n not in ps:
                return f"missing {n!r}"
        if ps[b":path"] == b"":
            return "empty :path"
    if kind == "response":
        if not re.match(rb"^[1-9][0-9][0-9]$", ps.get(b":status", b"")):
            return "missing or malformed :status"
    return None


def sent_request(req, cver, absolute_h1: bool):
    if cver == "h1":
        fields = [(B(n), B(v)) for n, v in req["fields"]]
        host = [v for n, v in fields if n.lower() == b"host"]
        return {"method": B(req["method"]), "scheme": B(req["scheme"]), "authority": host[0] if host else B(req["authority"] or "o.test"),
                "path": B(req["path"]), "fields": fields, "body": b"".join(B(c) for c in req["chunks"]), "trailers": None}
    block = [(B(n), B(v)) for n, v in block_of(req)]
    ps = pseudo(block)
    fields = [(n, v) for n, v in block if not n.startswith(b":")]
    host = [v for n, v in fields if n.lower() == b"host"]
    auth = ps.get(b":authority", b"") or (host[0] if host else b"")
    return {"method": ps.get(b":method", b""), "scheme": ps.get(b":scheme", b""), "authority": auth, "path": ps.get(b":path", b""),
            "fields": fields, "body": b"".join(B(c) for c in req["chunks"]),
            "trailers": [(B(n), B(v)) for n, v in req["trailers"]] if req["trailers"] else None}


def sent_response(resp, sver):
    if sver == "h1":
        fields = [(B(n), B(v)) for n, v in resp["fields"]]
        return {"status": resp["status"], "fields": fields, "body": b"".join(B(c) for c in resp["chunks"]), "trailers": None}
    block = [(B(n), B(v)) for n, v in resp_block_of(resp)]
    ps = pseudo(block)
    try:
        status = int(ps.get(b":status", b""))
    except ValueError:
        status = None
    return {"status": status, "fields": [(n, v) for n, v in block if not n.startswith(b":")],
            "body": b"".join(B(c) for c in resp["chunks"]),
            "trailers": [(B(n), B(v)) for n, v in resp["trailers"]] if resp["trailers"] else None}


def compare_common(sent, got, towards: str, diffs: list):
    """fields / cookies / body / trailers; `got` has fields, body, trailers, chunked (HTTP/1 only)."""
    # a field the SENDER nominated in Connection is hop-by-hop on both sides (forwarding it is not this property's business)
    nom = nominated([(bytes(n), bytes(v)) for n, v in sent["fields"] or []])
    if e2e(sent["fields"], nom) != e2e(got["fields"], nom):
        a, b_ = e2e(sent["fields"], nom), e2e(got["fields"], nom)
        missing = [x for x in a if x not in b_][:3]
        extra = [x for x in b_ if x not in a][:3]
        diffs.append(("fields", f"missing {missing} extra {extra}"))
    sc_, gc = cookies(sent["fields"]), cookies(got["fields"])
    if nv(b"; ".join(sc_)).rstrip(b"; ") != nv(b"; ".join(gc)).rstrip(b"; "):
        diffs.append(("cookie", f"sent {sc_[:4]} got {gc[:4]}"))
    elif towards == "h1" and len(gc) > 1:
        diffs.append(("cookie_not_joined", f"{len(gc)} Cookie fields towards HTTP/1"))
    if sent["body"] != got["body"]:
        diffs.append(("body", f"sent {len(sent['body'])} bytes, got {len(got['body'])}"))
    can_carry = towards in ("h2", "h3") or got.get("chunked")
    if sent.get("trailers") and can_carry and e2e(sent["trailers"]) != e2e(got.get("trailers") or []):
        diffs.append(("trailers", f"sent {e2e(sent['trailers'])} got {e2e(got.get('trailers') or [])}"))


REL = {"method": ("method_",), "path": ("path_",), "scheme": ("scheme_",), "authority": ("authority_", "host_"),
       "cookie": ("cookie_",), "cookie_not_joined": ("cookie_",),
       "fields": ("name_", "value_", "conn_", "keep_", "proxy_", "upgrade", "te_", "host_", "cl_"),
       "body": ("te_", "cl_", "body_"), "status": ("status_", "body_on"), "trailers": (), "malformed_emission": (),
       "receiving_peer_refused": ("cl_", "te_", "body_", "name_", "value_", "status_", "conn_", "keep_", "upgrade")}


def relevant_attack(attacks, aspect) -> str:
    if not attacks:
        return "none"
    for a in sorted(attacks):
        if any(a.startswith(p) for p in REL.get(aspect, ())):
            return a
    return "other"


def h1_cause(raw: bytes, pr, sent_body: bytes, status) -> str:
    """Why does P not read exactly one message?  Derived from the emitted bytes, not from the attack names."""
    head, sep, rest = raw.partition(b"\r\n\r\n")
    lines = head.split(b"\r\n")
    names = [l.split(b":", 1)[0].strip().lower() for l in lines[1:] if b":" in l]
    cl = [l.split(b":", 1)[1].strip() for l in lines[1:] if l.split(b":", 1)[0].strip().lower() == b"content-length"]
    if pr.status == "ambiguous" and not pr.msgs and ("request-line" in pr.reason or "status-line" in pr.reason or
                                                      "HTTP-version" in pr.reason or "method" in pr.reason or "target" in pr.reason):
        return "start_line_broken"
    if status is not None and (status in (204, 304) or 100 <= status <= 199) and rest:
        return "body_after_bodiless_status"
    if b"transfer-encoding" in names and sent_body:
        return "transfer_encoding_forwarded"
    if sent_body and not cl and b"transfer-encoding" not in names:
        return "body_without_framing"
    if cl and all(c.isdigit() for c in cl) and int(cl[0]) != len(sent_body):
        return "content_length_disagrees_with_body"
    if pr.status == "ambiguous":
        return "ambiguous_" + (pr.kind or "syntax")
    return "other"


def judge_request(sc, msg, o, add, probe):
    req = msg["req"]
    cver, sver = sc["cver"], sc["sver"]
    clean = not req["attacks"]
    structural = req.get("structural")
    sent = sent_request(req, cver, True)
    atk = "+".join(sorted(req["attacks"])) or "none"
    pair = f"{cver}-{sver}"
    delivered = False
    if sver == "h1":
        raws = o["up_h1"]["raws"] if o["up_h1"] else []
        if len(raws) > 1:
            add("h1_second_message", {"dir": "request", "pair": pair, "cause": "second_connection"},
                f"{msg['mk']}: bytes for one {cver} request were written to {len(raws)} HTTP/1 connections (attacks {atk})")
        framing_bad = False
        for raw in raws[:1]:
            probe("h1_single_message_checked")
            pr = P.parse_requests(raw, stop_after_connect=False)
            if pr.status != "ok" or len(pr.msgs) != 1:
                framing_bad = True
                cls = "h1_second_message" if len(pr.msgs) > 1 or (pr.msgs and pr.status != "ok") else "h1_emission_unreadable"
                add(cls, {"dir": "request", "pair": pair, "cause": h1_cause(raw, pr, sent["body"], None)},
                    f"{msg['mk']} (attacks {atk}): P read {len(pr.msgs)} request(s) then {pr.status} ({pr.reason}) from what "
                    f"mitmproxy sent upstream: {raw[:300]!r}")
                delivered = bool(pr.msgs)
                if not pr.msgs:
                    continue
            pm = pr.msgs[0]
            delivered = True
            got = {"method": pm.method, "authority": pm.get_all(b"host"), "path": pm.target, "fields": pm.headers,
                   "body": pm.body, "trailers": pm.trailers, "chunked": pm.framing == "chunked"}
            if structural:
                continue
            diffs = []
            if got["method"] != sent["method"]:
                diffs.append(("method", f"{sent['method']!r} -> {got['method']!r}"))
            if got["path"] != sent["path"]:
                diffs.append(("path", f"{sent['path']!r} -> {got['path']!r}"))
            # (reverse mode rewrites Host to the configured upstream by design: keep_host_header is off)
            if sc.get("mode") != "reverse" and [h.lower() for h in got["authority"]] != [sent["authority"].lower()]:
                diffs.append(("authority", f"{sent['authority']!r} -> Host {got['authority']!r}"))
            compare_common(sent, got, "h1", diffs)
            if sent["body"] and not any(n.lower() == b"content-length" for n, _ in sent["fields"]):
                probe("body_without_cl_to_h1")
            if len(cookies(sent["fields"])) > 1 and not any(d[0].startswith("cookie") for d in diffs):
                probe("cookies_joined")
            for aspect, detail in diffs:
                if aspect == "body" and framing_bad:
                    continue   # already reported as a framing failure
                add("clean_message_changed" if clean else "semantics_changed",
                    {"dir": "request", "pair": pair, "aspect": aspect, "attack": relevant_attack(req["attacks"], aspect)},
                    f"{msg['mk']} request {pair} (attacks {atk}): {aspect}: {detail}")
    else:
        ms = [m for m in o["up_msgs"] if m["block"] is not None]
        if len(ms) > 1:
            add("duplicated_upstream", {"dir": "request", "pair": pair, "attack": atk},
                f"{msg['mk']}: one request became {len(ms)} upstream streams")
        for m in ms[:1]:
            delivered = True
            if structural:
                continue
            ps = pseudo(m["block"])
            got = {"fields": [(n, v) for n, v in m["block"] if not n.startswith(b":")], "body": m["data"],
                   "trailers": m["trailers"]}
            diffs = []
            if ps.get(b":method") != sent["method"]:
                diffs.append(("method", f"{sent['method']!r} -> {ps.get(b':method')!r}"))
            if ps.get(b":path") != sent["path"]:
                diffs.append(("path", f"{sent['path']!r} -> {ps.get(b':path')!r}"))
            if ps.get(b":scheme") != sent["scheme"]:
                diffs.append(("scheme", f"{sent['scheme']!r} -> {ps.get(b':scheme')!r}"))
            ga = ps.get(b":authority") or b"".join(v for n, v in got["fields"] if n.lower() == b"host")
            if sc.get("mode") != "reverse" and ga.lower() != sent["authority"].lower():
                diffs.append(("authority", f"{sent['authority']!r} -> {ga!r}"))
            if not m["ended"] and m["reset"] is None:
                diffs.append(("body", "the upstream stream was never ended"))
            compare_common(sent, got, sver, diffs)
            if sent.get("trailers") and not any(d[0] == "trailers" for d in diffs):
                probe("trailers_carried")
            if clean:
                err = strict_block_error(m["block"], "request") or o["up_strict_error"]
                if err:
                    diffs.append(("malformed_emission", err))
            elif o["up_strict_error"]:
                # the receiving peer gave up on the connection: report that once, not its consequences
                diffs = [("receiving_peer_refused", str(o["up_strict_error"])[:120])]
            for aspect, detail in diffs:
                add("clean_message_changed" if clean else "semantics_changed",
                    {"dir": "request", "pair": pair, "aspect": aspect, "attack": relevant_attack(req["attacks"], aspect)},
                    f"{msg['mk']} request {pair} (attacks {atk}): {aspect}: {detail}")
    if delivered:
        probe("req_delivered")
        if not clean:
            probe("adversarial_req_forwarded")
        else:
            probe("clean_req_checked")
    else:
        probe("req_rejected")
        if structural:
            probe("structural_rejected")
        if clean:
            add("clean_message_rejected", {"dir": "request", "pair": pair},
                f"{msg['mk']}: a valid {cver} request never reached the {sver} origin (client saw: {describe_down(o)})")
    if "te_chunked" in req["attacks"]:
        probe("te_chunked_attack")
    if any("crlf" in a or a.endswith("_lf") for a in req["attacks"]):
        probe("crlf_attack")
    return delivered


def describe_down(o):
    if o["down_h1"] is not None:
        return f"{bytes(o['down_h1']['raw'][:80])!r} eof={o['down_h1']['eof']}"
    m = o["down_msg"]
    if m is None:
        return f"nothing, closed={o['down_closed']}"
    return f"block={m['block']} ended={m['ended']} reset={m['reset']} closed={o['down_closed']}"


def judge_response(sc, msg, o, add, probe):
    req, resp = msg["req"], msg["resp"]
    cver, sver = sc["cver"], sc["sver"]
    clean = not resp["attacks"]
    structural = resp.get("structural")
    sent = sent_response(resp, sver)
    atk = "+".join(sorted(resp["attacks"])) or "none"
    pair = f"{sver}-{cver}"   # direction of the response
    method = req["method"].upper() if re.match(r"^[A-Za-z]+$", req["method"] or "") else "GET"
    relayed = False
    if cver == "h1":
        raw = bytes(o["down_h1"]["raw"]) if o["down_h1"] else b""
        eof = bool(o["down_h1"] and o["down_h1"]["eof"])
        if raw:
            probe("h1_single_message_checked")
            pr = P.parse_responses(raw, [B(method)], eof)
            finals = [m for m in pr.msgs if not (100 <= m.status <= 199)]
            bad = pr.status == "ambiguous" or len(finals) > 1 or (pr.status == "incomplete" and (eof or finals))
            if pr.status == "incomplete" and not finals and not eof:
                bad = True   # the harness has delivered everything: an unfinished message stays unfinished
            if bad:
                cls = "h1_second_message" if finals and (len(finals) > 1 or pr.status != "ok") else "h1_emission_unreadable"
                add(cls, {"dir": "response", "pair": pair,
                          "cause": h1_cause(raw, pr, b"" if method == "HEAD" else sent["body"], finals[0].status if finals else None)},
                    f"{msg['mk']} (attacks {atk}): P read {len(finals)} response(s) then {pr.status} ({pr.reason}) from what "
                    f"mitmproxy sent to the client: {raw[:300]!r}")
            if finals:
                pm = finals[0]
                relayed = marker_in(b" ".join(n + b":" + v for n, v in pm.headers)) == msg["mk"]
                if relayed and not structural:
                    got = {"fields": pm.headers, "body": pm.body, "trailers": pm.trailers, "chunked": pm.framing == "chunked"}
                    diffs = []
                    if pm.status != sent["status"]:
                        diffs.append(("status", f"{sent['status']} -> {pm.status}"))
                    if method == "HEAD" or pm.status in (204, 304):
                        got["body"] = sent["body"] = b""
                    compare_common(sent, got, "h1", diffs)
                    for aspect, detail in diffs:
                        if aspect == "body" and bad:
                            continue   # already reported as a framing failure
                        add("clean_message_changed" if clean else "semantics_changed",
                            {"dir": "response", "pair": pair, "aspect": aspect, "attack": relevant_attack(resp["attacks"], aspect)},
                            f"{msg['mk']} response {pair} (attacks {atk}): {aspect}: {detail}")
    else:
        m = o["down_msg"]
        if m is not None and m["block"] is not None:
            relayed = block_marker([(n, v) for n, v in m["block"] if not n.startswith(b":")]) == msg["mk"]
            if relayed and not structural:
                ps = pseudo(m["block"])
                got = {"fields": [(n, v) for n, v in m["block"] if not n.startswith(b":")], "body": m["data"],
                       "trailers": m["trailers"]}
                diffs = []
                try:
                    st = int(ps.get(b":status", b""))
                except ValueError:
                    st = None
                if st != sent["status"]:
                    diffs.append(("status", f"{sent['status']} -> {ps.get(b':status')!r}"))
                if method == "HEAD" or st in (204, 304):
                    got["body"] = sent["body"] = b""
                if not m["ended"] and m["reset"] is None:
                    diffs.append(("body", "the client stream was never ended"))
                compare_common(sent, got, cver, diffs)
                if sent.get("trailers") and not any(d[0] == "trailers" for d in diffs):
                    probe("trailers_carried")
                if clean:
                    err = strict_block_error(m["block"], "response") or o["down_strict_error"]
                    if err:
                        diffs.append(("malformed_emission", err))
                elif o["down_strict_error"]:
                    diffs = [("receiving_peer_refused", str(o["down_strict_error"])[:120])]
                for aspect, detail in diffs:
                    add("clean_message_changed" if clean else "semantics_changed",
                        {"dir": "response", "pair": pair, "aspect": aspect, "attack": relevant_attack(resp["attacks"], aspect)},
                        f"{msg['mk']} response {pair} (attacks {atk}): {aspect}: {detail}")
    if relayed:
        probe("resp_delivered")
        probe("clean_resp_checked" if clean else "adversarial_resp_forwarded")
    else:
        probe("resp_rejected")
        if structural:
            probe("structural_rejected")
        if clean:
            add("clean_message_rejected", {"dir": "response", "pair": pair},
                f"{msg['mk']}: a valid {sver} response was not relayed to the {cver} client (client saw: {describe_down(o)})")
    if "te_chunked" in resp["attacks"]:
        probe("te_chunked_attack")
    if any("crlf" in a or a.endswith("_lf") for a in resp["attacks"]):
        probe("crlf_attack")


def oracle(sc, obs, crash):
    v = []
    probes = {}

    def add(cls, key, text):
        if not any(x["class"] == cls and x["key"] == key for x in v):
            v.append({"class": cls, "key": key, "msg": text})

    def probe(name, n=1):
        probes[name] = probes.get(name, 0) + n

    probe(f"{sc['engine']}_{sc['cver']}_{sc['sver']}")
    if crash:
        first = next((m for m, o in zip(sc["messages"], obs) if o["req_sent"]), sc["messages"][0])
        what = re.search(r"Unexpected event: (\w+)", crash.get("msg", "") or "")
        v.append({"class": "crash", "key": {"exc": crash["exc"], "where": crash["where"], "pair": f"{sc['cver']}-{sc['sver']}",
                                           "event": what.group(1) if what else None},
                  "msg": f"{crash['exc']}: {crash.get('msg', '')} at {crash['where']} (request attacks {first['req']['attacks']}, "
                         f"response attacks {first['resp']['attacks']})"})
        return v, probes
    peer_dead = False
    for msg, o in zip(sc["messages"], obs):
        if not o["req_sent"]:
            continue
        if peer_dead:
            # an earlier (adversarial) exchange made one of OUR peers give up its connection: what happens to later
            # exchanges on that connection says nothing about mitmproxy
            probe("skipped_after_peer_gave_up")
            continue
        if o["up_strict_error"] or o["down_strict_error"]:
            peer_dead = True
        for side, was_sent in (("req", True), ("resp", o["resp_sent"])):
            part = msg[side]
            if was_sent and part.get("pads") and any(p is not None for p in part["pads"][:len(part["chunks"])]):
                probe(f"padded_data_{side}")
                if part["trailers"]:
                    probe("padded_data_then_trailers")
                if "cl_pad_exact" in part["attacks"]:
                    probe(f"cl_counts_padding_{side}")
                    if part["trailers"]:
                        probe("cl_counts_padding_then_trailers")
                if "cl_off_small" in part["attacks"] or "cl_pad_octets" in part["attacks"]:
                    probe("cl_off_by_few_padded")
        delivered = judge_request(sc, msg, o, add, probe)
        if delivered and o["resp_sent"]:
            judge_response(sc, msg, o, add, probe)
    return v, probes


def shrink_candidates(sc):
    """Drop the second exchange, single fields, trailers, body chunks' fill, segmentation.  The `attacks` labels are
    never dropped (they decide whether the message counts as clean)."""
    if len(sc["messages"]) > 1:
        for i in range(len(sc["messages"])):
            c = copy.deepcopy(sc)
            del c["messages"][i]
            yield c
    for mi, m in enumerate(sc["messages"]):
        for side in ("req", "resp"):
            part = m[side]
            if part.get("block") is None:
                for fi in range(len(part["fields"])):
                    if part["fields"][fi][0] == "x-mark":
                        continue
                    c = copy.deepcopy(sc)
                    del c["messages"][mi][side]["fields"][fi]
                    yield c
            for key, val in (("trailers", None), ("cl", None), ("cuts", []), ("gaps", []), ("pads", None)):
                if part.get(key) not in (None, []):
                    c = copy.deepcopy(sc)
                    c["messages"][mi][side][key] = val
                    yield c
            if part.get("chunks"):
                c = copy.deepcopy(sc)
                c["messages"][mi][side]["chunks"] = [ch[:12] for ch in part["chunks"]]
                if c != sc and part.get("cl") is None:
                    yield c
            h1 = part.get("h1")
            if h1 and h1.get("names") != "lower":
                c = copy.deepcopy(sc)
                c["messages"][mi][side]["h1"]["names"] = "lower"
                yield c
        if m["resp"].get("delay"):
            c = copy.deepcopy(sc)
            c["messages"][mi]["resp"]["delay"] = 0
            yield c
    if sc.get("eager"):
        c = copy.deepcopy(sc)
        c["eager"] = False
        yield c
    if sc["engine"] == "real" and sc.get("mode") == "reverse":
        c = copy.deepcopy(sc)
        c["mode"] = "regular"
        yield c


def execute(sc):
    if sc["engine"] == "stub":
        out = run_stub(sc)
        obs = observe_stub(sc, out)
        crash = out["crash"]
        log = list(out["log"])
        sim_s = 0.0
        faults = {}
    else:
        out = run_real(sc)
        obs = out["obs"]
        crash = out["crash"]
        log = out["log"]
        sim_s = out["sim_s"]
        faults = out["faults"]
    v, probes = oracle(sc, obs, crash)
    nontrivial = bool(probes.get("req_delivered") or probes.get("req_rejected"))
    return {"violations": v, "digest": digest(log), "nontrivial": nontrivial, "faults": faults, "probes": probes,
            "sim_s": sim_s, "states": {f"{sc['family']}|{'+'.join(sorted(m['req']['attacks']))}|{'+'.join(sorted(m['resp']['attacks']))}"
                                       for m in sc["messages"]}}
