"""C24 — upstream_auth credentials are only sent to the upstream proxy or the reverse target."""
from __future__ import annotations

import asyncio
import base64
import re

from peers import c2x as X
from simkit import h1gen as G
from simkit import world as W
from simkit.net import ConnectPlan, oserror

ID = "C24"
LEVEL = "exploration"
ENGINE = "simkit/proxy-world"
QUICK_RUNS = 12000
QUICK_BUDGET_S = 150
THOROUGH_BUDGET_S = 900
CHUNK = 50
RULE = ("seeded client histories (1-3 connections; absolute-form http and https requests, CONNECT to a plain or TLS "
        "port followed by plain-HTTP / HTTPS requests inside the tunnel, SOCKS5 and transparent entries, reverse http/https) "
        "through the real proxy in modes regular, transparent, socks5, reverse:http(s), upstream:http and upstream:https, "
        "with and without upstream_auth (a unique marker credential), x segmentation x eager/lazy connection strategy x "
        "occasional upstream connect failures / CONNECT refusals x the upstream side (origin or upstream proxy) hanging up "
        "an established server connection / CONNECT+TLS tunnel (idle timeout with close_notify, bare FIN, RST at a chosen "
        "moment) while the client pauses before or trickles its next request (all modes). Oracle over the plaintext every peer RECEIVED (TLS "
        "peers decrypt with Python ssl): the marker may appear only as Proxy-Authorization of CONNECT / absolute-form "
        "requests at the upstream proxy, or as Authorization at the reverse target. non-trivial = upstream_auth set and "
        "at least one request reached a peer; distinct = distinct abstract event-log digests")
COMPONENTS_REAL = ["Master", "AddonManager", "default addons (UpstreamAuth, ProxyAuth, NextLayer, TlsConfig ...)",
                   "ProxyConnectionHandler", "mode layers (regular, upstream, transparent, socks5, reverse)",
                   "HttpLayer/HttpStream", "HttpUpstreamProxy tunnel layer", "ClientTLSLayer/ServerTLSLayer (pyOpenSSL)",
                   "Http1Server/Http1Client"]
COMPONENTS_STUB = ["kernel TCP (SimNet pipes)", "event loop clock/selector (VLoop)",
                   "client, origin, reverse-target and upstream-proxy peers (scripted; TLS via Python ssl over MemoryBIO)",
                   "oracle reader P (peers/h1.py)"]
ASSUMPTIONS = ["VLoop keeps asyncio FIFO semantics; SimNet pipes behave like reliable ordered TCP streams",
               "the upstream proxy peer is a plain RFC 9110 CONNECT/absolute-form proxy that tunnels bytes verbatim",
               "the credential marker is unique: it cannot occur in any byte string the client sends"]
EXPECTED_PROBES = ["proxy_connect", "proxy_absolute", "tunnel_plain_request", "tunnel_tls_request", "reverse_request",
                   "origin_request", "upstream_proxy_tls", "absolute_https_in_tunnel", "same_hostport_https_then_http",
                   "same_hostport_http_then_https", "plain_http_for_tls_port_at_proxy", "marker_at_proxy", "marker_at_reverse_target", "no_auth_runs",
                   "hangup_fired", "hangup_used_conn", "hangup_unused_tls_conn", "request_after_hangup_of_unused_tls_conn",
                   "request_after_hangup_upstream_mode", "request_after_hangup_other_modes", "request_after_hangup_upstream_auth"]

UP_HTTP = "upstream:http://p.test:3128"
UP_HTTPS = "upstream:https://p.test:3128"
REV_HTTP = "reverse:http://r.test:80"
REV_HTTPS = "reverse:https://r.test:443"
MODES = [(UP_HTTP, 5), (UP_HTTPS, 2.5), ("regular", 1.5), ("transparent", 1), ("socks5", 1), (REV_HTTP, 1.2), (REV_HTTPS, 0.8)]


def _wchoice(r, items):
    tot = sum(w for _, w in items)
    x = r.random() * tot
    for v, w in items:
        x -= w
        if x <= 0:
            return v
    return items[-1][0]


def family_of(mode: str) -> str:
    return mode.split(":")[0]


# ---------------------------------------------------------------------------
# generator
# ---------------------------------------------------------------------------
def _req(r, tok, form, scheme, host, port):
    method = r.choice(["GET", "GET", "GET", "POST"])
    d = {"op": "req", "tok": tok, "form": form, "scheme": scheme, "host": host, "port": port, "method": method}
    if method == "POST":
        d["body"] = "b" * r.choice([0, 1, 20, 300])
    return d


def generate(rng, tier):
    r = rng.at("c24")
    mode = _wchoice(r, MODES)
    fam = family_of(mode)
    tok = [0]

    def nt():
        tok[0] += 1
        return tok[0]

    clients = []
    for ci in range(r.choice([1, 1, 1, 2, 2, 3])):
        steps = []
        entry = {}
        if fam in ("regular", "upstream"):
            shared = r.random() < (0.45 if fam == "upstream" else 0.25)
            if shared:
                # 2-4 absolute-form requests on this ONE connection that reach the same host AND port once as https://
                # and once as http:// (either order), plus controls on other ports: the proxy must keep "plain connection
                # to the upstream proxy for host:P" and "CONNECT+TLS tunnel to host:P" apart when it re-uses connections
                host = f"o{r.randrange(3)}.test"
                port = r.choice([443, 443, 8443])
                kinds = ["https_same", "http_same"]
                for _ in range(r.choice([0, 0, 1, 2])):
                    kinds.append(r.choice(["https_same", "http_same", "http_other", "https_other"]))
                r.shuffle(kinds)
                for k in kinds:
                    if k == "https_same":
                        steps.append(_req(r, nt(), "absolute", "https", host, port))
                    elif k == "http_same":
                        steps.append(_req(r, nt(), "absolute", "http", host, port))
                    elif k == "http_other":
                        steps.append(_req(r, nt(), "absolute", "http", host, r.choice([80, 8080])))
                    else:
                        steps.append(_req(r, nt(), "absolute", "https", host, 8443 if port == 443 else 443))
                    steps[-1]["shared"] = True
            for _ in range(0 if shared else r.choice([0, 0, 1, 1, 2])):
                # "GET https://host/..." sent to the proxy directly (no CONNECT by the client): in upstream mode the proxy
                # itself CONNECTs through the upstream proxy, does TLS with the origin and sends the request inside
                if r.random() < (0.4 if fam == "upstream" else 0.15):
                    steps.append(_req(r, nt(), "absolute", "https", f"o{r.randrange(3)}.test", r.choice([443, 443, 8443])))
                else:
                    steps.append(_req(r, nt(), "absolute", "http", f"o{r.randrange(3)}.test", r.choice([80, 80, 8080])))
            if r.random() < 0.8 or not steps:
                port = r.choice([80, 80, 443, 8080, 443])
                host = f"o{r.randrange(3)}.test"
                steps.append({"op": "connect", "host": host, "port": port})
                scheme = "http"
                if port == 443:
                    steps.append({"op": "tls", "sni": host})
                    scheme = "https"
                for _ in range(r.choice([1, 1, 2, 3])):
                    steps.append(_req(r, nt(), "origin", scheme, host, port))
        elif fam in ("transparent", "socks5"):
            port = r.choice([80, 80, 443])
            host = f"o{r.randrange(3)}.test"
            if fam == "transparent":
                entry["original_dst"] = [host, port]
            else:
                steps.append({"op": "socks", "host": host, "port": port})
            scheme = "http"
            if port == 443:
                steps.append({"op": "tls", "sni": host})
                scheme = "https"
            for _ in range(r.choice([1, 2, 3])):
                steps.append(_req(r, nt(), "origin", scheme, host, port))
        else:  # reverse
            scheme = "http"
            if r.random() < 0.3:
                steps.append({"op": "tls", "sni": "r.test"})
                scheme = "https"
            for _ in range(r.choice([1, 2, 3])):
                steps.append(_req(r, nt(), "origin", scheme, "r.test", 443 if mode == REV_HTTPS else 80))
        for s in steps:
            if s["op"] == "req" and r.random() < 0.3:
                s["cutseed"] = r.randrange(1 << 30)
        entry.update({"steps": steps, "start": r.choice([0.0, 0.0, 0.0, 0.01, 0.5]), "ip": f"192.168.1.{7 + ci}"})
        clients.append(entry)

    options = {"connection_strategy": r.choice(["eager", "lazy"])}
    if r.random() < 0.85:
        user = "up" + "%06x" % r.randrange(1 << 24)
        pw = "sec" + "%08x" % r.randrange(1 << 32)
        if r.random() < 0.15:
            pw += ":x" + "%04x" % r.randrange(1 << 16)   # RFC 7617 allows ':' in the password
        options["upstream_auth"] = f"{user}:{pw}"
    if r.random() < 0.1:
        options["http_connect_send_host_header"] = False
    faults = []
    if r.random() < 0.12:
        faults.append({"kind": "connect_error", "nth": r.choice([0, 0, 1, 2]), "err": r.choice(["refused", "timeout", "unreachable"])})
    if fam == "upstream" and r.random() < 0.08:
        faults.append({"kind": "proxy_connect_status", "status": r.choice([407, 502, 403])})
    eager_loop = r.random() < 0.5
    # -- upstream side hangs up an established (still unused / idle) server connection -------------------------------
    # The origin or the upstream proxy closes a connection the proxy has opened for a client (eager strategy: before the
    # client is served) at a chosen moment, while the client delays or trickles its next request: the request that
    # follows must be sent on a connection set up anew the same way (CONNECT + TLS to an https origin), and the
    # credential must still go to the upstream proxy only.  Own rng site: scenarios without the fault keep their shape.
    h = rng.at("c24-hangup")
    tls_tunnel = [ci for ci, c in enumerate(clients)
                  if any(s["op"] == "tls" for s in c["steps"]) and any(s["op"] == "connect" for s in c["steps"])]
    if h.random() < (0.5 if tls_tunnel else 0.12):
        ci = h.choice(tls_tunnel) if tls_tunnel else h.randrange(len(clients))
        steps = clients[ci]["steps"]
        first_setup = next((i for i, s in enumerate(steps) if s["op"] in ("connect", "socks")), None)
        if first_setup and h.random() < 0.5:
            del steps[:first_setup]          # the tunnel is the first thing this client asks for
        last_setup = max([i for i, s in enumerate(steps) if s["op"] in ("connect", "socks", "tls")], default=-1)
        pause = h.choice([0.0, 0.01, 0.2, 0.6, 0.6, 2.0, 2.0, 5.0])
        nxt = last_setup + 1
        if pause and nxt < len(steps):
            steps.insert(nxt, {"op": "sleep", "t": pause})
            nxt += 1
        if nxt < len(steps) and steps[nxt]["op"] == "req" and h.random() < 0.5:
            steps[nxt]["cutseed"] = h.randrange(1 << 30)      # ... or the request trickles in
        if len(steps) > nxt + 1 and h.random() < 0.3:
            steps.insert(nxt + 1, {"op": "sleep", "t": h.choice([0.3, 1.0, 3.0])})   # hang-up between two requests (used connection)
        how = h.choice(["idle", "idle", "fin", "fin", "rst"])
        f = {"kind": "hangup", "nth": h.choice([0, 0, 0, 0, 1, 1, 2]), "how": how}
        if how == "idle":
            f["idle"] = h.choice([0.05, 0.3, 0.3, 1.0, 3.0])      # peer closes after that long without traffic
        else:
            f["at"] = h.choice([0.0, 0.002, 0.05, 0.05, 0.4, 0.4, 1.5])   # seconds after the connection was accepted
        faults.append(f)
        if h.random() < 0.5:
            options["connection_strategy"] = "eager"
    return {"family": fam + ("-tlsproxy" if mode == UP_HTTPS else ""), "modes": [mode], "eager": eager_loop,
            "options": options, "clients": clients, "faults": faults}


# ---------------------------------------------------------------------------
# executor
# ---------------------------------------------------------------------------
def build_request(step) -> bytes:
    host, port = step["host"], step["port"]
    default = 443 if step["scheme"] == "https" else 80
    hostport = host if port == default else f"{host}:{port}"
    path = f"/r{step['tok']}"
    target = f"{step['scheme']}://{hostport}{path}" if step["form"] == "absolute" else path
    head = f"{step['method']} {target} HTTP/1.1\r\nHost: {hostport}\r\nUser-Agent: c24\r\n"
    body = X.B(step.get("body", "")) if step["method"] == "POST" else b""
    if step["method"] == "POST":
        head += f"Content-Length: {len(body)}\r\n"
    return head.encode("latin1") + b"\r\n" + body


async def run_client(w, ci, cspec, out):
    import random
    if cspec.get("start"):
        await asyncio.sleep(cspec["start"])
    od = cspec.get("original_dst")
    conn = w.connect_client(peername=(cspec.get("ip", "192.168.1.7"), 50000 + ci),
                            original_dst=tuple(od) if od else None)
    cl = X.HttpClient(w.loop, X.ConnStream(w.loop, conn))
    for si, step in enumerate(cspec.get("steps", [])):
        op = step["op"]
        if cl.stream.closed_by_proxy:
            out.append((ci, si, op, "skipped_closed"))
            break
        if op == "req":
            data = build_request(step)
            cuts, gaps = (), ()
            if "cutseed" in step:
                rr = random.Random(step["cutseed"])
                cuts = G.gen_cuts(rr, len(data), style=rr.choice(["few", "many", "head"]))
                gaps = G.gen_gaps(rr, len(cuts))
            await cl.stream.send(data, cuts, gaps)
            m, err = await cl.read_response(step["method"].encode())
            out.append((ci, si, "req", step["tok"], m.status if m else err,
                        bool(m and m.body.startswith(b"served:"))))
            if m is None:
                break
        elif op == "connect":
            await cl.stream.send(f"CONNECT {step['host']}:{step['port']} HTTP/1.1\r\nHost: {step['host']}:{step['port']}\r\n\r\n".encode())
            m, err = await cl.read_response(b"CONNECT")
            out.append((ci, si, "connect", m.status if m else err))
            if m is None or not 200 <= m.status <= 299:
                break
        elif op == "tls":
            ok = await cl.start_tls(step["sni"])
            out.append((ci, si, "tls", ok))
            if not ok:
                break
        elif op == "socks":
            await cl.stream.send(X.socks5_greeting([0]))
            g = await cl.read_exact(2)
            if g != b"\x05\x00":
                out.append((ci, si, "socks", "greeting:" + g.hex()))
                break
            await cl.stream.send(X.socks5_connect(step["host"], step["port"]))
            rep = await cl.read_exact(10)
            out.append((ci, si, "socks", rep[:2].hex()))
            if rep[:2] != b"\x05\x00":
                break
        elif op == "sleep":
            await asyncio.sleep(step.get("t", 0.1))
    await asyncio.sleep(0.05)
    cl.stream.close()
    return conn


def run(sc, keep_log=False):
    log: list = []
    out: list = []
    mode = sc["modes"][0]
    fam = family_of(mode)
    proxy_addr = ("p.test", 3128) if fam == "upstream" else None
    proxy_tls = mode.startswith("upstream:https")
    faults = [dict(f) for f in sc.get("faults", [])]
    connect_status = 200
    for f in faults:
        if f["kind"] == "proxy_connect_status":
            connect_status = f["status"]
    servers = []
    hangups = []

    async def watch_hangup(w, conn, f, is_proxy):
        """The upstream side ends connection `conn` on its own: 'fin'/'rst' at a fixed time after accept (the peer task keeps
        reading, what it writes afterwards is dropped by SimConn like a closed socket would), 'idle' = the peer's idle timer."""
        t0 = w.loop.time()
        if f.get("how") == "idle":
            await asyncio.wait([conn.peer_task])
        else:
            await asyncio.sleep(float(f.get("at", 0.0)))
        if conn.proxy_closed or conn.rx_eof:
            return                      # the proxy was done with the connection first: nothing fired
        if f.get("how") == "fin":
            conn.send_eof()
        elif f.get("how") == "rst":
            conn.reset()
        hangups.append({"conn": conn.id, "t0": t0, "t": w.loop.time(), "how": f.get("how"), "is_proxy": is_proxy})

    async def body(w):
        def planner(host, port, n, proto):
            for f in faults:
                if f["kind"] == "connect_error" and f.get("nth") == n:
                    return ConnectPlan(delay=3.0 if f.get("err") == "timeout" else 0.0, error=oserror(f.get("err", "refused")))
            is_proxy = proxy_addr is not None and (host, port) == proxy_addr
            tls = proxy_tls if is_proxy else port in X.TLS_PORTS

            hang = next((f for f in faults if f["kind"] == "hangup" and f.get("nth") == n), None)

            def accept(conn):
                servers.append(conn)
                idle = 25.0
                if hang is not None and hang.get("how") == "idle":
                    idle = float(hang.get("idle", 1.0))      # the peer's own idle timeout: orderly close (TLS close_notify + FIN)
                conn.peer_task = w.loop.create_task(
                    X.serve_conn(w.loop, conn, log, addr=(host, port), is_proxy=is_proxy, tls=tls, idle=idle,
                                 connect_status=connect_status if is_proxy else 200, tunnel_sniff=True),
                    name=f"sim-origin-{conn.id}")
                if hang is not None:
                    w.loop.create_task(watch_hangup(w, conn, hang, is_proxy), name=f"sim-hangup-{conn.id}")
            return ConnectPlan(accept=accept)
        w.net.connect_planner = planner
        tasks = [w.loop.create_task(run_client(w, ci, c, out), name=f"sim-clientpeer-{ci}")
                 for ci, c in enumerate(sc.get("clients", []))]
        if tasks:
            done, pending = await asyncio.wait(tasks, timeout=600.0)
            for t in done:
                if t.exception():
                    raise t.exception()
            if pending:
                raise W.HarnessError("client peer did not finish")
        await asyncio.sleep(sc.get("settle", 30.0))
        for c in servers:
            t = c.peer_task
            if t.done() and not t.cancelled() and t.exception():
                raise t.exception()
        return w.loop.time()

    opts = dict(sc.get("options", {}))
    opts.setdefault("ssl_insecure", True)
    sim_s, w = W.run_world(body, eager=sc.get("eager", False), seed=sc.get("seed", 0), options=opts,
                           modes=sc["modes"], keep_log=keep_log)
    w.hangups = hangups
    return log, out, w, sim_s


# ---------------------------------------------------------------------------
# oracle
# ---------------------------------------------------------------------------
TOK_RE = re.compile(rb"/r(\d+)$")


def markers(auth: str):
    """Byte strings that reveal the credential: the Basic token, the raw pair, and the password alone."""
    raw = auth.encode("utf8")
    pw = raw.split(b":", 1)[1]
    return [base64.b64encode(raw), raw, pw]


def oracle(sc, log, w):
    v = []
    probes: dict = {}
    mode = sc["modes"][0]
    fam = family_of(mode)
    auth = sc.get("options", {}).get("upstream_auth")
    reverse_addr = None
    if fam == "reverse":
        reverse_addr = ("r.test", 443 if mode == REV_HTTPS else 80)

    def bump(k):
        probes[k] = probes.get(k, 0) + 1

    if not auth:
        bump("no_auth_runs")
    want = b"Basic " + base64.b64encode(auth.encode("utf8")) if auth else None
    shape_of = {}
    for c in sc.get("clients", []):
        first = {}
        for i, s in enumerate(c.get("steps", [])):
            if s.get("op") == "req":
                shape_of[s["tok"]] = f"{s.get('form')}-{s.get('scheme')}"
                if s.get("form") == "absolute":
                    first.setdefault((s.get("host"), s.get("port"), s.get("scheme")), i)
        for (h, p, sch), i in sorted(first.items(), key=repr):
            if sch == "https" and (h, p, "http") in first:
                bump("same_hostport_https_then_http" if i < first[(h, p, "http")] else "same_hostport_http_then_https")
    for e in log:
        m = e.get("msg")
        zone = e["zone"]
        if m is None:
            # bytes the peer could not read as a complete request: the credential must not be in there either
            if auth and any(x in e.get("raw", b"") for x in markers(auth)) and not (zone == "proxy" and fam == "upstream"):
                v.append({"class": "credential_leak",
                          "key": {"mode": fam, "zone": zone + ("_tls" if zone == "tunnel" and e["tls"] else ""),
                                  "peer_tls": bool(e["tls"]), "header": "(unparsed bytes)", "request": "incomplete"},
                          "msg": f"upstream_auth credential inside unparsed bytes received by {zone} peer {e['addr']}"})
            continue
        is_connect = m.method.upper() == b"CONNECT"
        tm = TOK_RE.search(m.target)
        shape = shape_of.get(int(tm.group(1)), "?") if tm else ("connect" if is_connect else "?")
        if zone == "tunnel" and e["tls"] and shape == "absolute-https":
            bump("absolute_https_in_tunnel")
        if zone == "proxy":
            bump("proxy_connect" if is_connect else "proxy_absolute")
            if not is_connect and re.match(rb"http://[^/]*:(443|8443)/", m.target):
                bump("plain_http_for_tls_port_at_proxy")
            if e["tls"]:
                bump("upstream_proxy_tls")
        elif zone == "tunnel":
            bump("tunnel_tls_request" if e["tls"] else "tunnel_plain_request")
        elif reverse_addr and tuple(e["addr"]) == reverse_addr:
            bump("reverse_request")
        else:
            bump("origin_request")
        if not auth:
            continue
        # where may the credential be, and in which header?
        allowed = None
        if zone == "proxy" and fam == "upstream":
            allowed = b"proxy-authorization"
        elif zone == "origin" and reverse_addr and tuple(e["addr"]) == reverse_addr:
            allowed = b"authorization"
        mk = markers(auth)
        where = []
        for name, value in m.headers:
            if any(x in value for x in mk):
                where.append(name.lower())
        if any(x in m.target for x in mk) or any(x in m.body for x in mk):
            where.append(b"(target/body)")
        for name in where:
            if allowed is not None and name == allowed:
                continue
            place = zone
            if zone == "origin" and reverse_addr and tuple(e["addr"]) == reverse_addr:
                place = "reverse_target"
            if zone == "tunnel" and e["tls"]:
                place = "tunnel_tls"   # TLS with the origin inside the tunnel (https), as opposed to plain HTTP in a tunnel
            elif zone == "tunnel" and shape.endswith("-https"):
                # a request the client made over https arrived in the clear inside the tunnel: not the "plain-HTTP
                # request inside a tunnel" situation (client_shape *-http), a different failure mode
                place = "tunnel_plain_for_https"
            v.append({"class": "credential_leak",
                      "key": {"mode": fam, "zone": place, "peer_tls": bool(e["tls"]), "header": name.decode("latin1"),
                              "request": "connect" if is_connect else ("absolute" if b"://" in m.target else "origin-form"),
                              "client_shape": shape},
                      "msg": f"upstream_auth credential received by {place} peer {e['addr']} (conn {e['conn']}, "
                             f"{'TLS' if e['tls'] else 'plain'}) in {name.decode('latin1')!r} of "
                             f"{m.method.decode('latin1')} {m.target.decode('latin1')}"})
        if allowed is not None:
            got = m.get_all(allowed)
            if got == [want]:
                bump("marker_at_proxy" if zone == "proxy" else "marker_at_reverse_target")
            else:
                v.append({"class": "credential_missing",
                          "key": {"mode": fam, "zone": zone, "request": "connect" if is_connect else "forwarded",
                                  "got": "none" if not got else "other"},
                          "msg": f"{m.method.decode('latin1')} {m.target.decode('latin1')} reached {zone} peer {e['addr']} "
                                 f"with {allowed.decode()}={got!r}, expected [{want!r}]"})
    # what the hang-up faults met (probes only)
    tls_up = sorted(t for t, name, _ in w.hooks if name == "tls_established_server")
    for hg in getattr(w, "hangups", []):
        bump("hangup_fired")
        mine = [e for e in log if e["conn"] == hg["conn"] and e.get("msg") is not None and e["t"] <= hg["t"]]
        tunnel_open = any(e["zone"] == "proxy" and e["msg"].method.upper() == b"CONNECT" for e in mine)
        used = any(e["msg"].method.upper() != b"CONNECT" for e in mine)
        later = any(e.get("msg") is not None and e["conn"] != hg["conn"] and e["t"] > hg["t"]
                    and e["msg"].method.upper() != b"CONNECT" for e in log)
        if used:
            bump("hangup_used_conn")
        elif (sum(1 for t in tls_up if hg["t0"] <= t <= hg["t"]) >= (2 if hg["is_proxy"] and mode == UP_HTTPS else 1)
              and (tunnel_open or not hg["is_proxy"])):
            # TLS with the origin was up on this connection (through the tunnel if there is an upstream proxy), no request yet
            bump("hangup_unused_tls_conn")
            if later:
                bump("request_after_hangup_of_unused_tls_conn")
                bump("request_after_hangup_upstream_mode" if fam == "upstream" else "request_after_hangup_other_modes")
                if auth and fam == "upstream":
                    bump("request_after_hangup_upstream_auth")
    if w.crashes:
        t, msg, tb = w.crashes[0]
        v = [{"class": "crash", "key": {"where": tb.split(" @ ")[-1] if " @ " in tb else msg[:60], "exc": tb.split(":")[0]},
              "msg": f"t={t:.6f} {msg} {tb}"}]
    # de-duplicate identical (class, key) within one run
    seen, uniq = set(), []
    for x in v:
        s = (x["class"], repr(sorted(x["key"].items())))
        if s not in seen:
            seen.add(s)
            uniq.append(x)
    return uniq, probes


def execute(sc):
    log, out, w, sim_s = run(sc)
    v, probes = oracle(sc, log, w)
    ev = [(round(t, 6), name) for t, name, _ in w.hooks]
    for e in log:
        m = e.get("msg")
        ev.append(("peer", e["zone"], tuple(e["addr"]), e["tls"], round(e["t"], 6),
                   (m.method, m.target, tuple(sorted(n.lower() for n, _ in m.headers))) if m else ("garbage", e.get("garbage"))))
    ev.extend(("client",) + tuple(o) for o in out)
    ev.sort(key=repr)
    faults = {}
    if w.net.faults_fired.get("connect_error"):
        faults["connect_error"] = w.net.faults_fired["connect_error"]
    refused = sum(1 for f in sc.get("faults", []) if f["kind"] == "proxy_connect_status") and sum(
        1 for e in log if e["zone"] == "proxy" and e.get("msg") is not None and e["msg"].method.upper() == b"CONNECT")
    if refused:
        faults["proxy_refused_connect"] = refused
    if w.hangups:
        faults["upstream_hangup"] = len(w.hangups)
        ev.extend(("hangup", hg["how"], hg["is_proxy"], round(hg["t"], 6)) for hg in w.hangups)
        ev.sort(key=repr)
    reached = any(e.get("msg") is not None for e in log)
    states = {f"{e['zone']}:{'tls' if e['tls'] else 'plain'}:{e['msg'].method.decode('latin1') if e.get('msg') else 'garbage'}"
              for e in log}
    return {"violations": v, "digest": W.digest(ev), "nontrivial": bool(reached and sc.get("options", {}).get("upstream_auth")),
            "faults": faults, "probes": probes, "sim_s": sim_s or 0.0, "states": states}
