"""C12 — error pages never reflect unescaped client input (HTTP/1 legs; HTTP/2 pages ride on the C05/C06 runs)."""
from __future__ import annotations

import re

from peers import h1 as P
from simkit import h1gen as G
from simkit import h1world as H
from simkit.world import digest

ID = "C12"
LEVEL = "exploration"
QUICK_RUNS = 8000
QUICK_BUDGET_S = 150
THOROUGH_BUDGET_S = 900
CHUNK = 50
RULE = ("seeded inputs that make mitmproxy answer with its own HTML error page over HTTP/1: malformed request lines, "
        "invalid or conflicting framing headers, invalid header names, missing Host, oversized bodies (body_size_limit), "
        "connect failures whose OS error text is attacker-influenced, origin protocol errors (bad status lines, bad "
        "chunk framing, invalid Content-Length, early close) and addon-set connection errors; CONNECT requests in regular "
        "mode (rng site c12-connect, ~15% of runs) whose upstream connect fails (refused/unreachable/timeout/unresolvable "
        "with scripted OS error text, addon-set error text, addon-redirected host with markup) under "
        "connection_strategy eager (mitmproxy answers the CONNECT itself) and lazy (200, then the error page inside the "
        "tunnel), plus reachable-target and markup-in-authority controls; a non-2xx answer to CONNECT is judged as an "
        "error page only if its body is an HTML document or it declares an HTML type (a plain-text answer without "
        "content type is not an HTML page); every attacker-controlled "
        "string carries a unique marker wrapped in markup (<zqN>, \"zqN', &zqN;). Oracle on every response the client "
        "reads that carries Server: mitmproxy and a 4xx/5xx status: Content-Type text/html; P reads it as one complete, "
        "correctly framed response in the context of the request method and nothing follows it; no marker appears with "
        "its raw markup. non-trivial = at least one error page was produced and a marker reached its text; distinct = "
        "distinct (status, error-text skeleton) pairs + event-log digests")
COMPONENTS_REAL = ["format_error / html.escape", "make_error_response", "Http1Server.send(ResponseProtocolError)",
                   "HttpStream error paths", "validate", "Master", "AddonManager"]
COMPONENTS_STUB = ["kernel TCP (SimNet; connect error texts are script-controlled)", "event loop (VLoop)", "peers"]
ASSUMPTIONS = ["an error page is recognised by the Server: mitmproxy header and status >= 400",
               "P (peers/h1.py) decides framing"]
EXPECTED_PROBES = ["error_pages", "marker_in_page", "page_400", "page_502", "page_413_or_body_limit", "connect_error_page",
                   "head_request_error", "error_after_keepalive_exchange", "error_after_head_exchange",
                   "long_error_page", "connect_tunnel_established", "page_inside_tunnel",
                   "connect_fail_lazy_page_inside_tunnel", "connect_refused_response", "connect_fail_eager_response",
                   "connect_fail_eager_marker_in_response", "connect_fail_eager_hook_error_text",
                   "connect_fail_eager_markup_host"]

MARK = re.compile(rb"zq(\d+)")


def mk(r, n):
    return r.choice([f"<zq{n}>", f"<script>zq{n}</script>", f"\"zq{n}'", f"&zq{n};", f"<img src=x onerror=zq{n}>"])


def gen_connect(rc):
    """CONNECT requests in regular mode whose upstream connect fails (or, as controls, succeeds / is made lazily).

    With connection_strategy=eager mitmproxy connects upstream while it handles the CONNECT and answers a failure
    itself; with lazy it answers 200 and the failure only shows inside the tunnel (an ordinary error page there)."""
    n = rc.randrange(100, 999)
    m = mk(rc, n)
    if rc.random() < 0.15:
        m = m * rc.choice([30, 120, 400])
    strategy = rc.choice(["eager", "eager", "eager", "lazy"])
    options = {"connection_strategy": strategy}
    sub = rc.choice(["fail", "fail", "fail", "fail", "fail", "fail", "bad_authority", "reachable"])
    host = rc.choice(["b.test", "b.test", "c.test", "10.9.8.7"])
    port = rc.choice([443, 80, 8443])
    authority = f"{host}:{port}"
    policy = []
    markup_host = False
    errsrc = None
    tconnect = [{}]
    if sub == "bad_authority":
        # markup straight in the authority on the wire: refused with an ordinary 400 page
        authority = rc.choice([f"{m}:443", f"b.test:{m}", f"b.test{m}:443", f"{m}"]).replace(" ", "")
    elif sub == "fail":
        errsrc = rc.choice(["os_markup", "os_markup", "os_plain", "hook_markup"])
        kind = rc.choice(["refused", "unreachable", "timeout", "dns"])
        delay = rc.choice([0, 0, 0.2, 20.0 if kind == "timeout" else 0.01])
        if errsrc == "os_markup":
            tconnect = [{"error": kind, "errmsg": f"connect to {m} failed", "delay": delay}]
        elif errsrc == "os_plain":
            tconnect = [{"error": kind, "delay": delay}]
        else:
            # an addon refuses the connection in server_connect with a text of its own
            tconnect = [{"error": kind, "delay": delay}]
            policy.append({"hook": "server_connect", "nth": "*", "latency": rc.choice([0, 0, 0.01]),
                           "action": "set_error", "msg": f"blocked {m}"})
        if rc.random() < 0.35:
            # an addon re-points the tunnel (http_connect hook) at a name that contains markup, e.g. taken from a header
            markup_host = True
            policy.append({"hook": "http_connect", "nth": 0, "latency": rc.choice([0, 0, 0.01]), "action": "edit",
                           "which": "request", "edits": [{"k": "host", "value": rc.choice([f"x{m}y.test", m]).replace(" ", "")}]})
    headers = [["Host", authority if sub != "bad_authority" else "b.test:443"], ["X-M", m]]
    if rc.random() < 0.3:
        headers.append(["Proxy-Connection", "keep-alive"])
    head = f"CONNECT {authority} HTTP/1.1\r\n" + "".join(f"{k}: {v}\r\n" for k, v in headers) + "\r\n"
    cuts = G.gen_cuts(rc, len(head), rc.choice(["none", "none", "few"]))
    pre, steps, replies = [], [], {}
    if rc.random() < 0.3:
        # the CONNECT follows a clean keep-alive exchange with a reachable origin on the same client connection
        pm = rc.choice(["HEAD", "GET", "POST"])
        pb = "hello" if pm == "POST" else ""
        pdata = f"{pm} http://a.test/p0/clean HTTP/1.1\r\nHost: a.test\r\n" + (f"Content-Length: {len(pb)}\r\n" if pb else "") + "\r\n" + pb
        steps += [{"op": "send", "data": pdata, "cuts": [], "gaps": []}, {"op": "await", "n": 1, "timeout": 30.0}]
        replies["0"] = {"data": "HTTP/1.1 200 OK\r\nX-P0: w\r\nContent-Length: 2\r\n\r\n" + ("" if pm == "HEAD" else "ok"),
                        "then": "keep", "cuts": [], "gaps": [0.0]}
        pre.append(pm)
    npre = len(pre)
    steps += [{"op": "send", "data": head, "cuts": cuts, "gaps": [rc.choice([0.001, 0.01]) for _ in range(len(cuts) + 1)]},
              {"op": "await", "n": npre + 1, "timeout": 60.0}]
    inner_method = rc.choice(["GET", "GET", "POST", "HEAD"])
    ib = "abc" if inner_method == "POST" else ""
    ipath = f"/r0/{m}".replace(" ", "%20")
    inner = (f"{inner_method} {ipath} HTTP/1.1\r\nHost: {host}\r\nX-M: {m}\r\n"
             + (f"Content-Length: {len(ib)}\r\n" if ib else "") + "\r\n" + ib)
    follow = None
    if sub == "reachable" or (sub == "fail" and strategy == "lazy"):
        # a tunnel is (or seems) established: plain HTTP/1 inside it
        follow = "inner"
        steps += [{"op": "send", "data": inner, "cuts": [], "gaps": []}, {"op": "await_close", "timeout": 40.0}]
    elif rc.random() < 0.4:
        # the refused CONNECT is followed by an ordinary proxy request on the same connection
        follow = "second"
        steps += [{"op": "send", "data": "GET http://a.test/r1/second HTTP/1.1\r\nHost: a.test\r\n\r\n", "cuts": [], "gaps": []},
                  {"op": "await", "n": npre + 2, "timeout": 10.0}]
    steps.append({"op": "fin"})
    a_origin = {"kind": "h1", "replies": dict(replies), "idle_close": 5.0, "connect": [{}]}
    if follow == "second":
        a_origin["replies"][str(npre)] = {"data": "HTTP/1.1 200 OK\r\nX-R1: w\r\nContent-Length: 2\r\n\r\nok", "then": "keep",
                                          "cuts": [], "gaps": [0.0]}
    # the CONNECT target: never reachable in the fail family; in the reachable control it answers garbage with a marker
    t_origin = {"kind": "h1", "idle_close": 5.0, "connect": tconnect,
                "replies": {"0": {"data": f"HTTP/1.1 2x0 {m}\r\nX: y\r\n\r\n", "then": "fin", "cuts": [], "gaps": [0.0]}}}
    return {"family": "errpage-connect_tunnel_" + sub, "modes": ["regular"], "eager": rc.random() < 0.5, "options": options,
            "pre": pre, "clients": [{"steps": steps, "methods": pre + ["CONNECT", "GET"], "original_dst": None}],
            "origins": {"a.test:80": a_origin, "*": t_origin}, "policy": policy, "faults": [], "settle": 30.0,
            "kind": "connect_tunnel_" + sub, "method": "CONNECT", "inner_method": inner_method, "follow": follow,
            "markup_host": markup_host, "errsrc": errsrc}


def generate(rng, tier):
    rc = rng.at("c12-connect")
    if rc.random() < 0.15:
        return gen_connect(rc)
    r = rng.at("c12")
    mode = r.choice(["regular", "regular", "reverse:http://a.test:80", "transparent"])
    form = "absolute" if mode == "regular" else "origin"
    options = {"connection_strategy": r.choice(["eager", "lazy"])}
    kind = r.choice(["bad_request_line", "bad_header_name", "conflicting_framing", "no_host", "body_limit",
                     "connect_error", "origin_bad_status", "origin_bad_chunk", "origin_bad_cl", "origin_early_close",
                     "server_connect_set_error", "bad_version", "origin_garbage"])
    n = r.randrange(100, 999)
    m = mk(r, n)
    rl = rng.at("c12-long")
    if rl.random() < 0.2:
        # peer input of a few KB: the quoted text in the page must be escaped whatever its length
        m = m * rl.choice([30, 120, 400])
    method = r.choice(["GET", "GET", "POST", "HEAD", "OPTIONS"])
    host = "a.test"
    path = f"/r0/{m}".replace(" ", "%20")
    target = f"http://{host}{path}" if form == "absolute" else path
    headers = [["Host", host], [f"X-M", m]]
    body = b""
    reply = {"data": "HTTP/1.1 200 OK\r\nX-R0: w0\r\nContent-Length: 2\r\n\r\nok", "then": "keep"}
    connect = [{}]
    policy = []
    version = "HTTP/1.1"
    if kind == "bad_request_line":
        target = r.choice([f"http://{host}:port{m}/", f"htt{m}p://x/", f"http:///{m}", f"{m}", f"http://{host}/ {m}"])
    elif kind == "bad_header_name":
        headers.append([f"X {m}", "v"])
    elif kind == "conflicting_framing":
        headers += [["Content-Length", r.choice(["3", f"3{m}", "+3"])], r.choice([["Transfer-Encoding", f"chunked{m}"],
                                                                               ["Content-Length", f"4"]])]
        body = b"abc"
    elif kind == "no_host":
        if form == "origin" and mode.startswith("reverse"):
            headers = [[f"X-M", m]]
        else:
            target = path
            headers = [[f"X-M", m]] if r.random() < 0.5 else [["Host", m.replace(" ", "")], [f"X-M", m]]
    elif kind == "body_limit":
        options["body_size_limit"] = "10"
        method = "POST"
        body = (m * 5).encode("latin1")
        headers.append(["Content-Length", str(len(body))])
    elif kind == "connect_error":
        connect = [{"error": r.choice(["refused", "unreachable", "timeout", "dns"]), "errmsg": f"connect to {m} failed",
                    "delay": r.choice([0, 0.2])}]
    elif kind == "origin_bad_status":
        reply = {"data": r.choice([f"HTTP/1.1 {m} OK\r\n\r\n", f"HTTP/{m} 200 OK\r\n\r\n", f"{m}\r\n\r\n",
                                   f"HTTP/1.1 2x0 {m}\r\nX: y\r\n\r\n"]), "then": "fin"}
    elif kind == "origin_bad_chunk":
        reply = {"data": f"HTTP/1.1 200 OK\r\nTransfer-Encoding: chunked\r\n\r\n{m}\r\nabc\r\n0\r\n\r\n", "then": "keep"}
    elif kind == "origin_bad_cl":
        reply = {"data": f"HTTP/1.1 200 OK\r\nContent-Length: {m}\r\n\r\nabc", "then": "keep"}
    elif kind == "origin_early_close":
        reply = {"data": f"HTTP/1.1 200 OK\r\nX-M: {m}\r\nContent-Length: 50\r\n\r\nshort", "then": "fin"}
    elif kind == "server_connect_set_error":
        policy.append({"hook": "server_connect", "nth": 0, "latency": 0, "action": "set_error", "msg": f"blocked {m}"})
    elif kind == "bad_version":
        version = r.choice([f"HTTP/{m}", "HTTP/1", f"HTTX/1.1{m}"])
    elif kind == "origin_garbage":
        reply = {"data": f"{m} garbage without any structure {m}\r\n", "then": "fin"}
    head = f"{method} {target} {version}\r\n" + "".join(f"{k}: {v}\r\n" for k, v in headers) + "\r\n"
    data = head.encode("latin1") + body
    cuts = G.gen_cuts(r, len(data), r.choice(["none", "none", "few"]))
    # the failing exchange may follow clean keep-alive exchanges on the same connection (state left over from an
    # earlier request, e.g. its method, must not shape the error answer)
    pre, steps, replies = [], [], {}
    if kind not in ("connect_error", "server_connect_set_error") and r.random() < 0.4:
        for j in range(r.choice([1, 1, 2])):
            pm = r.choice(["HEAD", "HEAD", "GET", "POST"])
            pb = "hello" if pm == "POST" else ""
            ptarget = ("http://a.test" if form == "absolute" else "") + f"/p{j}/clean"
            pdata = f"{pm} {ptarget} HTTP/1.1\r\nHost: a.test\r\n" + (f"Content-Length: {len(pb)}\r\n" if pb else "") + "\r\n" + pb
            steps += [{"op": "send", "data": pdata, "cuts": [], "gaps": []}, {"op": "await", "n": j + 1, "timeout": 30.0}]
            replies[str(j)] = {"data": f"HTTP/1.1 200 OK\r\nX-P{j}: w\r\nContent-Length: 2\r\n\r\n" + ("" if pm == "HEAD" else "ok"),
                               "then": "keep", "cuts": [], "gaps": [0.0]}
            pre.append(pm)
    npre = len(pre)
    steps += [{"op": "send", "data": G.S(data), "cuts": cuts, "gaps": [r.choice([0.001, 0.01]) for _ in range(len(cuts) + 1)]},
              {"op": "await", "n": npre + 1, "timeout": 30.0}]
    if r.random() < 0.3:
        steps += [{"op": "send", "data": f"GET {'http://a.test' if form == 'absolute' else ''}/r1/second HTTP/1.1\r\nHost: a.test\r\n\r\n",
                   "cuts": [], "gaps": []}, {"op": "await", "n": npre + 2, "timeout": 10.0}]
    steps.append({"op": "fin"})
    reply["cuts"] = G.gen_cuts(r, len(reply["data"]), r.choice(["none", "few"]))
    reply["gaps"] = [r.choice([0.0, 0.01]) for _ in range(len(reply["cuts"]) + 1)]
    replies[str(npre)] = reply
    origin = {"kind": "h1", "replies": replies, "idle_close": 5.0, "connect": connect}
    return {"family": "errpage-" + kind, "modes": [mode], "eager": r.random() < 0.5, "options": options, "pre": pre,
            "clients": [{"steps": steps, "methods": pre + [method, "GET"],
                         "original_dst": ["a.test", 80] if mode == "transparent" else None}],
            "origins": {"*": origin}, "policy": policy, "faults": [], "settle": 30.0, "kind": kind, "method": method}


def oracle(sc, obs):
    v = []
    probes = {}

    def bump(k):
        probes[k] = probes.get(k, 0) + 1

    if any(name == "tcp_start" for _, name, _, _ in obs.hooks):
        return [], {"raw_tcp_fallback": 1}
    skel = set()
    for c in obs.clients:
        cp = P.parse_requests(c.sent)
        methods = [m.method for m in cp.msgs]
        # where P refuses the client's own syntax take the scripted method (HEAD-ness matters for framing)
        scripted = [H.B(x) for x in sc.get("pre", [])] + [H.B(sc["method"])]
        if len(methods) < len(scripted):
            methods += scripted[len(methods):]
        rp = P.parse_responses(c.received, methods + [b"GET"] * 3, c.proxy_closed)
        pages = [m for m in rp.msgs if (m.get(b"server") or b"").startswith(b"mitmproxy") and m.status >= 400]
        any_page = b"Server: mitmproxy" in c.received
        if sc["kind"].startswith("connect_tunnel_"):
            npre = len(sc.get("pre", []))
            if rp.tunnel_from is not None:
                # 2xx to the CONNECT: what follows is the HTTP/1 conversation inside the tunnel
                bump("connect_tunnel_established")
                ip = P.parse_responses(rp.rest, [H.B(sc["inner_method"])] + [b"GET"] * 2, c.proxy_closed)
                inner = [m for m in ip.msgs if (m.get(b"server") or b"").startswith(b"mitmproxy") and m.status >= 400]
                if inner:
                    bump("page_inside_tunnel")
                    if sc["options"]["connection_strategy"] == "lazy" and sc["kind"] == "connect_tunnel_fail":
                        bump("connect_fail_lazy_page_inside_tunnel")
                pages += inner
                if b"Server: mitmproxy" in rp.rest and ip.status != "ok":
                    v.append({"class": "error_page_misframed",
                              "key": {"status": ip.status, "reason": re.sub(r"[^a-zA-Z ].*$", "", ip.reason)[:40],
                                      "head_request": sc["inner_method"] == "HEAD", "inside_tunnel": True},
                              "msg": f"stream inside the tunnel containing an error page does not parse cleanly: "
                                     f"{ip.status} {ip.reason}; rest={ip.rest[:100]!r}"})
            elif len(rp.msgs) > npre and rp.msgs[npre].status >= 400:
                # A non-2xx answer to a CONNECT in regular mode never comes from an origin (and no addon answers in
                # these scenarios): mitmproxy made it.  The statement is about HTML error pages: an answer that is an
                # HTML document, or says it is one, is judged as a page (declared type, escaping, framing); a plain
                # text answer that does not claim to be HTML is not a page and is left alone.
                m = rp.msgs[npre]
                bump("connect_refused_response")
                eager = sc["options"]["connection_strategy"] == "eager"
                if sc["kind"] == "connect_tunnel_fail" and eager:
                    bump("connect_fail_eager_response")
                    if MARK.search(m.body):
                        bump("connect_fail_eager_marker_in_response")
                        if sc.get("errsrc") == "hook_markup":
                            bump("connect_fail_eager_hook_error_text")
                        if sc.get("markup_host"):
                            bump("connect_fail_eager_markup_host")
                ct = (m.get(b"content-type") or b"").lower()
                declares_html = ct.startswith((b"text/html", b"application/xhtml"))
                # (the markers never contain these elements)
                is_html_doc = re.search(rb"<\s*(!doctype\s+html|html|head|body|title|h1)\b", m.body, re.I) is not None
                if declares_html or is_html_doc:
                    bump("connect_refused_html_page")
                    if not any(x is m for x in pages):
                        pages.append(m)
                else:
                    bump("connect_refused_plain_text")
        if any_page and rp.status != "ok":
            v.append({"class": "error_page_misframed", "key": {"status": rp.status, "reason": re.sub(r"[^a-zA-Z ].*$", "", rp.reason)[:40],
                                                                 "head_request": sc["method"] == "HEAD",
                                                                 # did mitmproxy get as far as recording the request?
                                                                 "flow_recorded": len(obs.flow_objs) > len(sc.get("pre", []))},
                      "msg": f"client stream containing an error page does not parse cleanly: {rp.status} {rp.reason}; "
                             f"rest={rp.rest[:100]!r}"})
        for i, m in enumerate(pages):
            bump("error_pages")
            if len(m.body) > 2500:
                bump("long_error_page")
            bump({400: "page_400", 502: "page_502", 413: "page_413_or_body_limit"}.get(m.status, "page_other"))
            if sc["method"] == "HEAD":
                bump("head_request_error")
            if sc.get("pre"):
                bump("error_after_keepalive_exchange")
                if "HEAD" in sc["pre"] and sc["method"] != "HEAD":
                    bump("error_after_head_exchange")
            if sc["kind"] in ("connect_error",):
                bump("connect_error_page")
            ct = (m.get(b"content-type") or b"").lower()
            if not ct.startswith(b"text/html"):
                v.append({"class": "error_page_content_type", "key": {"ct": ct.decode("latin1")[:30]},
                          "msg": f"error page {m.status} declares Content-Type {ct!r}"})
            if not m.complete or m.framing not in ("cl", "none"):
                v.append({"class": "error_page_misframed", "key": {"status": "incomplete", "framing": m.framing},
                          "msg": f"error page {m.status} framing={m.framing} complete={m.complete}"})
            cl = m.get(b"content-length")
            if m.framing == "cl" and cl is not None and int(cl) != len(m.body):
                v.append({"class": "error_page_misframed", "key": {"status": "content-length"},
                          "msg": f"error page Content-Length {cl!r} but body has {len(m.body)} bytes"})
            body = m.body
            for mm in MARK.finditer(body):
                bump("marker_in_page")
                s, e = mm.start(), mm.end()
                before = body[max(0, s - 24):s]
                after = body[e:e + 12]
                # raw markup directly around the marker
                raw = None
                if before.endswith(b"<") or re.search(rb"<(script|img src=x onerror=)$", before):
                    raw = "<"
                elif after.startswith(b">") and not before.endswith(b"&lt;") and b"&lt;" not in before[-24:]:
                    raw = ">"
                elif before.endswith(b"&") and after.startswith(b";"):
                    raw = "&"
                elif before.endswith(b'"') or after.startswith(b"'") and not after.startswith(b"'&"):
                    # quotes: html.escape(quote=True) turns them into &quot; / &#x27;
                    if before.endswith(b'"'):
                        raw = '"'
                if raw:
                    v.append({"class": "unescaped_input_in_error_page", "key": {"char": raw, "kind": sc["kind"]},
                              "msg": f"error page {m.status} reflects marker with raw {raw!r}: ...{body[max(0, s - 30):e + 15]!r}..."})
            skel.add((m.status, re.sub(rb"zq\d+|[0-9]+", b"#", body[body.find(b"<p>"):body.find(b"</p>")])[:80]))
        # a raw '<zq' anywhere in a page body is the simplest witness
        for m in pages:
            if re.search(rb"<(?:script>|img src=x onerror=)?zq\d+", m.body):
                if not any(x["class"] == "unescaped_input_in_error_page" for x in v):
                    v.append({"class": "unescaped_input_in_error_page", "key": {"char": "<", "kind": sc["kind"]},
                              "msg": f"error page {m.status} contains raw markup around a marker"})
    obs.skel = skel
    cv = H.crash_violations(sc, obs)
    if cv:
        v = cv
    return v, probes


def execute(sc):
    obs = H.run(sc)
    v, probes = oracle(sc, obs)
    w = obs.world
    skel = sorted(repr(s) for s in getattr(obs, "skel", ()))
    return {"violations": v, "digest": digest(obs.event_log() + skel),
            "nontrivial": bool(probes.get("error_pages") and probes.get("marker_in_page")),
            "faults": dict(w.net.faults_fired), "probes": probes, "sim_s": obs.sim_s, "states": set(skel)}
