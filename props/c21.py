"""C21 — SOCKS5 handshakes are parsed exactly and subsequent data is relayed once, in order."""
from __future__ import annotations

import asyncio

from peers import h1 as P
from peers import socks_ref as R
from simkit import world as W
from simkit.net import ConnectPlan, oserror
from simkit.world import digest

ID = "C21"
LEVEL = "exploration"
ENGINE = "simkit/proxy-world"
QUICK_RUNS = 30000
QUICK_BUDGET_S = 150
THOROUGH_BUDGET_S = 900
CHUNK = 50
RULE = ("one client byte string = greeting [+ RFC 1929 auth] + request + payload, built by an own RFC 1928/1929 encoder with "
        "seeded mutations (version, method lists and counts, auth version/lengths, CMD, RSV, ATYP, address lengths, truncation at "
        "any offset), sent to the real socks5 mode 2-3 times with different segmentations (whole, cut anywhere, byte-wise) x "
        "connection_strategy eager/lazy x proxyauth on/off x upstream connect ok/refused/timeout/slow x payload opaque bytes "
        "(tcp_hosts) or an HTTP/1 request; non-trivial = the reference accepts or rejects at the request stage AND at least one "
        "segmentation has a cut; distinct = distinct digests of (reference decision, observed outcome per segmentation)")
COMPONENTS_REAL = ["Master", "AddonManager", "default addons (ProxyAuth, NextLayer, Proxyserver)", "ProxyConnectionHandler",
                   "Socks5Proxy mode layer", "TCPLayer / HttpLayer behind it"]
COMPONENTS_STUB = ["kernel TCP (SimNet pipes)", "event loop clock/selector (VLoop)", "client and origin (scripted peers)"]
ASSUMPTIONS = ["SimNet pipes behave like reliable ordered TCP streams; segments separated by a positive gap are delivered as separate reads",
               "server policy is the documented one: method 0x02 is required iff proxyauth is set, else 0x00; only CONNECT is supported",
               "grammar deviations with an obvious reading (RSV != 0, auth VER != 1, empty user/password/domain) may be refused or accepted",
               "a failed upstream connect may be reported with any of the RFC 1928 codes 1,3,4,5,6",
               "destination equality is asserted for ASCII domain names, IPv4 and IPv6; non-ASCII domain octets only take part in the "
               "segmentation-independence comparison"]
EXPECTED_PROBES = ["accept", "reject_greeting", "reject_auth", "reject_request", "incomplete", "connect_failed", "lazy", "eager",
                   "payload_in_handshake_segment", "cut_inside_request", "ipv6", "domain", "ipv4", "http_payload", "lenient",
                   "unresolvable_name"]

S = lambda b: bytes(b).decode("latin1")  # noqa: E731
B = lambda s: s.encode("latin1")  # noqa: E731

USER, PASSWORD = "alice", "s3cret"


# ---------------------------------------------------------------------------
# generator
# ---------------------------------------------------------------------------
def _gen_dest(r):
    k = r.random()
    if k < 0.3:
        addr = bytes(r.randrange(256) for _ in range(4))
        if r.random() < 0.2:
            addr = r.choice([b"\x00\x00\x00\x00", b"\x7f\x00\x00\x01", b"\xff\xff\xff\xff", b"\x0a\x00\x00\x02", b"\x01\x02\x03\x04"])
        return R.ATYP_V4, addr
    if k < 0.55:
        addr = bytes(r.randrange(256) for _ in range(16))
        if r.random() < 0.4:
            addr = r.choice([b"\x00" * 15 + b"\x01", b"\x00" * 16, b"\x00" * 10 + b"\xff\xff" + bytes([1, 2, 3, 4]),
                             b"\x20\x01\x0d\xb8" + b"\x00" * 11 + b"\x01", b"\xfe\x80" + b"\x00" * 6 + bytes(range(8)),
                             b"\x20\x01\x00\x00\x00\x00\x00\x01\x00\x00\x00\x00\x00\x00\x00\x01",
                             b"\x00\x64\xff\x9b" + b"\x00" * 8 + bytes([8, 8, 8, 8])])
        return R.ATYP_V6, addr
    j = r.random()
    if j < 0.7:
        labels = [r.choice(["a", "www", "example", "Origin", "xn--bcher-kva", "h-1", "test", "COM", "o9", "x" * 30])
                  for _ in range(r.choice([1, 2, 2, 3, 4]))]
        name = ".".join(labels).encode()
        if r.random() < 0.1:
            name += b"."
    elif j < 0.8:
        name = bytes(r.choice(b"abcXYZ019-._~!$&'()*+,;=:@%[]/ ") for _ in range(r.choice([1, 3, 10, 40])))
    elif j < 0.86:
        name = r.choice([b"1.2.3.4", b"::1", b"[::1]", b"127.1", b"0x7f.1", b"2001:db8::1"])
    elif j < 0.92:
        name = bytes(r.choice(b"abcdefghijklmnopqrstuvwxyz0123456789-.") for _ in range(r.choice([63, 64, 200, 254, 255])))
    elif j < 0.96:
        name = b""
    else:
        name = bytes(r.randrange(256) for _ in range(r.choice([1, 4, 20])))  # arbitrary octets, not asserted
    return R.ATYP_DOMAIN, name[:255]


def _gen_port(r, http):
    while True:
        p = r.choice([80, 443, 1, 65535, 0, 256, 1080, 0x3500, 0x0035, 53, 8080, r.randrange(65536), r.randrange(65536)])
        if p == 8080:
            continue  # keep clear of the proxy's own listener (C23's subject)
        if http and p in (53, 5353):
            continue  # port-53 detection would select the DNS layer (C26/C27's subject)
        return p


def _gen_payload(r, kind, k):
    if kind == "http":
        body = b""
        if r.random() < 0.4:
            body = bytes(r.choice(b"abcdefgh\r\n\x00\xff") for _ in range(r.choice([1, 5, 100])))
            head = f"POST /p{k}/socks HTTP/1.1\r\nHost: origin.test\r\nContent-Length: {len(body)}\r\nX-Marker: m{k}\r\n\r\n"
        else:
            head = f"GET /p{k}/socks?x=1 HTTP/1.1\r\nHost: origin.test\r\nX-Marker: m{k}\r\n\r\n"
        return head.encode() + body, 0
    n = r.choice([0, 0, 1, 2, 5, 17, 100, 300, 1500, 70000 if r.random() < 0.15 else 40])
    data = bytearray(r.randrange(256) for _ in range(min(n, 400)))
    if data and data[0] == 0x16:
        data[0] = 0x17  # a TLS record would be picked up by TLS detection before tcp_hosts is consulted
    return bytes(data), max(0, n - 400)  # (literal octets, number of formula-generated octets that follow)


def _pad(n: int) -> bytes:
    return bytes((i * 7 + i // 251) & 0xFF for i in range(n))


def generate(rng, tier):
    r = rng.at("c21")
    auth = r.random() < 0.35
    kind = "http" if r.random() < 0.25 else "tcp"
    chunks = []
    # --- greeting ------------------------------------------------------------------
    want = 2 if auth else 0
    g = r.random()
    if g < 0.6:
        methods = [want]
    elif g < 0.87:
        methods = r.sample([0, 1, 2, 3, 0x80, 0xFE], r.choice([1, 2, 3, 4]))
        if want not in methods and r.random() < 0.92:
            methods.insert(r.randrange(len(methods) + 1), want)
    elif g < 0.9:
        methods = [2 - want] if r.random() < 0.5 else [1, 3]
    elif g < 0.92:
        methods = []
    else:
        methods = [r.randrange(256) for _ in range(r.choice([5, 40, 255]))]
        if r.random() < 0.7:
            methods[r.randrange(len(methods))] = want
    ver = 5
    if r.random() < 0.06:
        ver = r.choice([4, 0, 6, 0x47, 0x43, 1, 255])
    nm = None
    if r.random() < 0.06:
        nm = min(255, r.choice([0, 1, len(methods) + 1, len(methods) + 3, max(len(methods) - 1, 0), 255]))
    if ver == 0x47 and r.random() < 0.7:
        chunks.append(S(b"GET http://example.com/ HTTP/1.1\r\nHost: example.com\r\n\r\n"))
    else:
        chunks.append(S(R.greeting(methods, ver=ver, nmethods=nm)))
    # --- auth ----------------------------------------------------------------------------
    send_auth = auth if r.random() < 0.93 else not auth
    if send_auth:
        a = r.random()
        if a < 0.65:
            u, p = USER.encode(), PASSWORD.encode()
        elif a < 0.8:
            u, p = USER.encode(), r.choice([b"", b"wrong", PASSWORD.encode() + b"x", PASSWORD.encode()[:-1], PASSWORD.upper().encode()])
        elif a < 0.9:
            u, p = r.choice([b"", b"bob", b"alice:s3cret", b"Alice", "alicé".encode(), b"\xff\xfe"]), PASSWORD.encode()
        else:
            u = bytes(r.randrange(256) for _ in range(r.choice([1, 10, 255])))
            p = bytes(r.randrange(256) for _ in range(r.choice([0, 1, 255])))
        av = 1 if r.random() < 0.9 else r.choice([0, 5, 2, 255])
        m = R.userpass(u, p, ver=av)
        if r.random() < 0.05:
            # inconsistent length octets
            mb = bytearray(m)
            mb[1] = min(255, r.choice([0, len(u) + 1, max(len(u) - 1, 0), 255]))
            m = bytes(mb)
        chunks.append(S(m))
    # --- request ---------------------------------------------------------------------------
    atyp, addr = _gen_dest(r)
    port = _gen_port(r, kind == "http")
    cmd = 1 if r.random() < 0.9 else r.choice([2, 3, 0, 4, 255])
    rver = 5 if r.random() < 0.95 else r.choice([4, 0, 1, 255])
    rsv = 0 if r.random() < 0.95 else r.choice([1, 255])
    req = R.request(atyp, addr, port, cmd=cmd, ver=rver, rsv=rsv)
    if r.random() < 0.06:
        rb = bytearray(req)
        rb[3] = r.choice([0, 2, 5, 6, 255, 0x41])
        req = bytes(rb)
    chunks.append(S(req))
    # --- payload -----------------------------------------------------------------------------
    pay, pad = _gen_payload(r, kind, r.randrange(1000))
    if pay:
        chunks.append(S(pay))
    data = b"".join(B(c) for c in chunks) + _pad(pad)
    pay = pay + _pad(pad)
    truncate = None
    if r.random() < 0.18:
        hs = len(data) - len(pay)
        truncate = r.randrange(0, max(hs, 1) + 1) if r.random() < 0.85 else r.randrange(0, len(data) + 1)
        data = data[:truncate]
    # --- segmentations -----------------------------------------------------------------------
    n = len(data)
    segs = [{"cuts": [], "gaps": []}]
    bounds = []
    acc = 0
    for c in chunks[:-1]:
        acc += len(c)
        bounds.append(acc)
    hs_end = min(n, (len(data) - len(pay)) if truncate is None else n)
    for _ in range(r.choice([1, 1, 2])):
        style = r.random()
        if style < 0.25 and hs_end <= 600:
            cuts = list(range(1, min(hs_end + 2, n)))  # byte-wise through the handshake
        elif style < 0.45:
            cuts = [b for b in bounds if b < n]  # the way a well-behaved client would send it
        elif style < 0.6:
            cuts = sorted({b + d for b in bounds for d in (-1, 1) if 0 < b + d < n and r.random() < 0.6})
        else:
            k = r.choice([1, 1, 2, 3, 6])
            cuts = sorted({r.randrange(1, max(2, min(n, hs_end + 5))) for _ in range(k)}) if n > 1 else []
            if r.random() < 0.3 and n > 1:
                cuts = sorted(set(cuts) | {r.randrange(1, n)})
        gaps = [r.choice([0.0, 0.0005, 0.002, 0.05, 0.5]) for _ in range(len(cuts) + 1)]
        gaps[0] = 0.0
        segs.append({"cuts": cuts, "gaps": gaps})
    c = r.random()
    if c < 0.7:
        connect = {"delay": r.choice([0.0, 0.001, 0.02, 0.3])}
    elif c < 0.85:
        connect = {"delay": r.choice([0.0, 0.02]), "error": r.choice(["refused", "unreachable", "dns", "reset"])}
    else:
        connect = {"delay": r.choice([3.0, 20.0]), "error": "timeout"}
    options = {"connection_strategy": r.choice(["eager", "lazy"])}
    if auth:
        options["proxyauth"] = f"{USER}:{PASSWORD}"
    if kind == "tcp":
        # must match every destination (also an empty host name), or port 53/5353 would select the DNS layer
        # ((?s): a domain name may contain a line feed, which '.' would not match)
        options["tcp_hosts"] = [".*"] if r.random() < 0.8 else ["nomatch", r"(?s)^.*$"]
    else:
        # which layer follows SOCKS must not depend on how much payload the first read holds (that heuristic is
        # C19's subject): with rawtcp off everything that is not TLS is HTTP
        options["rawtcp"] = False
    sc = {"family": f"socks5-{kind}", "eager": r.random() < 0.5, "options": options, "kind": kind,
          "chunks": chunks, "pad": pad, "truncate": truncate, "segmentations": segs, "connect": connect,
          "banner": S(r.choice([b"", b"", b"220 origin ready\r\n", b"\x00\x01banner"])) if kind == "tcp" else ""}
    return sc


def shrink_candidates(sc):
    import copy
    segs = sc.get("segmentations", [])
    # fewer segmentations (keep the whole-string one as the baseline)
    if len(segs) > 2:
        for i in range(1, len(segs)):
            c = copy.deepcopy(sc)
            del c["segmentations"][i]
            yield c
    if len(segs) > 1:
        c = copy.deepcopy(sc)
        c["segmentations"] = segs[:1]
        yield c
        c = copy.deepcopy(sc)
        c["segmentations"] = [segs[0], segs[-1]]
        yield c
    if sc.get("pad"):
        for keep in (0, sc["pad"] // 2, 65536 - 400):
            if keep < sc["pad"]:
                c = copy.deepcopy(sc)
                c["pad"] = keep
                yield c
    # shorter payload (last chunk), keeping cut positions valid
    ch = sc.get("chunks", [])
    if ch and len(ch[-1]) > 8:
        for keep in (0, 1, 4, len(ch[-1]) // 2):
            c = copy.deepcopy(sc)
            c["chunks"][-1] = ch[-1][:keep]
            yield c
    if sc.get("banner"):
        c = copy.deepcopy(sc)
        c["banner"] = ""
        yield c
    if sc.get("truncate") is not None:
        c = copy.deepcopy(sc)
        c["chunks"] = [S(client_bytes(sc))]
        c["truncate"] = None
        c["pad"] = 0
        yield c
    for k in ("delay",):
        if sc.get("connect", {}).get(k):
            c = copy.deepcopy(sc)
            c["connect"][k] = 0
            yield c


# ---------------------------------------------------------------------------
# executor
# ---------------------------------------------------------------------------
def client_bytes(sc) -> bytes:
    data = b"".join(B(c) for c in sc["chunks"]) + _pad(sc.get("pad", 0))
    if sc.get("truncate") is not None:
        data = data[:sc["truncate"]]
    return data


def _http_request_complete(buf: bytes):
    p = P.parse_requests(bytes(buf))
    return p.status == "ok" and len(p.msgs) >= 1


def run(sc):
    data = client_bytes(sc)
    kind = sc.get("kind", "tcp")
    results = []

    async def body(w):
        state = {"attempts": [], "origins": []}

        def planner(host, port, n, proto):
            cp = sc.get("connect", {})
            res = cp.get("error") or "ok"
            if proto == "tcp" and isinstance(host, str):
                try:
                    host.encode("idna")
                except UnicodeError:
                    # getaddrinfo() cannot IDNA-encode this name (empty / over-long label, U+FFFD from a non-ASCII
                    # octet): SimNet raises UnicodeError for it as the real loop does - a failed connect
                    res = "unresolvable"
            state["attempts"].append((host, port, proto, res))
            if cp.get("error"):
                return ConnectPlan(delay=cp.get("delay", 0.0), error=oserror(cp["error"]))

            def accept(conn):
                state["origins"].append(conn)
                w.loop.create_task(origin(conn), name=f"sim-origin-{conn.id}")
            return ConnectPlan(delay=cp.get("delay", 0.0), accept=accept)
        w.net.connect_planner = planner

        async def origin(conn):
            if kind == "tcp":
                if sc.get("banner"):
                    conn.feed(B(sc["banner"]))
            answered = False
            while not conn.rx_eof:
                if kind == "http" and not answered and _http_request_complete(conn.received):
                    answered = True
                    conn.feed(b"HTTP/1.1 200 OK\r\nContent-Length: 9\r\n\r\nfrom-orig")
                if not await conn.wait_change(120.0):
                    break
            conn.send_eof()

        auth_seen = []
        w.hook_listeners.append(lambda t, name, d: auth_seen.append((d.username, d.password, d.valid))
                                if name == "socks5_auth" else None)

        for vi, seg in enumerate(sc.get("segmentations", [{"cuts": [], "gaps": []}])):
            state["attempts"], state["origins"] = [], []
            del auth_seen[:]
            c = w.connect_client(peername=("192.168.1.7", 50100 + vi))
            await c.send(data, seg.get("cuts", ()), seg.get("gaps", ()), 0.001)
            await asyncio.sleep(45.0)
            o = {"rx_before_fin": bytes(c.received), "closed_before_fin": bool(c.proxy_closed)}
            c.send_eof()
            await asyncio.sleep(20.0)
            o["rx"] = bytes(c.received)
            o["closed"] = bool(c.proxy_closed)
            o["handler_done"] = c.task.done()
            o["attempts"] = list(state["attempts"])
            o["origin_rx"] = [bytes(x.received) for x in state["origins"]]
            o["origin_eof"] = [bool(x.rx_eof) for x in state["origins"]]
            o["auth_seen"] = list(auth_seen)
            o["ncuts"] = len([x for x in seg.get("cuts", ()) if 0 < x < len(data)])
            results.append(o)
        return w.loop.time()

    sim_s, w = W.run_world(body, eager=sc.get("eager", False), seed=sc.get("seed", 0),
                           options=dict(sc.get("options", {})), modes=["socks5"])
    return results, w, sim_s


# ---------------------------------------------------------------------------
# oracle
# ---------------------------------------------------------------------------
def _valid(user: bytes, pw: bytes) -> bool:
    return user == USER.encode() and pw == PASSWORD.encode()


def _domain_asserted(dest) -> bool:
    atyp, addr, _ = dest
    if atyp != R.ATYP_DOMAIN:
        return True
    return all(0x21 <= b <= 0x7E for b in addr) and len(addr) > 0


def _as_reject(d, o, rest, allow_auth_status):
    """Is `rest` (client bytes after the method selection reply) what a refusing server sends?"""
    if o["attempts"]:
        return "connected although refusing"
    if not o["closed_before_fin"]:
        return "did not close"
    if rest == b"":
        return None
    if allow_auth_status and len(rest) == 2 and rest[0] == 1 and rest[1] != 0:
        return None
    if allow_auth_status and rest[:2] == b"\x01\x00":
        rest = rest[2:]
        if rest == b"":
            return None
    rep, ln = R.parse_reply(rest)
    if isinstance(rep, int) and rep != 0 and ln == len(rest):
        return None
    return f"unexpected bytes {rest[:40]!r}"


def check_one(sc, d, o, v, probes, tag):
    """Compare one observed connection `o` with the reference decision `d`."""
    opts = sc.get("options", {})
    strategy = opts.get("connection_strategy", "eager")
    kind = sc.get("kind", "tcp")
    cerr = sc.get("connect", {}).get("error")
    if any(res == "unresolvable" for _, _, _, res in o["attempts"]):
        cerr = cerr or "unresolvable"
        probes["unresolvable_name"] = probes.get("unresolvable_name", 0) + 1
    rx = o["rx"]

    def bad(cls, key, msg):
        if cls == "not_closed":
            # what tells the failure modes apart is not the SOCKS stage but how the handler ended
            key = dict(key, eager_task_factory=bool(sc.get("eager")), handler_done=o["handler_done"],
                       after_auth_hook=bool(opts.get("proxyauth")) and len(d.replies) >= 2 and d.replies[1] == 2)
            msg += f" (handler task finished: {o['handler_done']})"
        else:
            key = dict(key, stage=d.stage)
        v.append({"class": cls, "key": key, "msg": f"[{tag}] {msg}"})

    if d.outcome == "incomplete":
        if o["attempts"]:
            bad("connect_on_incomplete_handshake", {}, f"upstream connect {o['attempts']} although the handshake never completed")
        rest = rx[len(d.replies):] if rx.startswith(d.replies) else None
        ok = rest == b""
        if rest and d.invalid_prefix:
            # a field seen so far is already invalid: the server may refuse without waiting for the rest
            rep, ln = R.parse_reply(rest)
            ok = isinstance(rep, int) and rep != 0 and ln == len(rest) and (d.invalid_prefix == "any" or rep in d.invalid_prefix)
            if d.stage == "greeting_version" and rest == bytes([5, 0xFF]):
                ok = True
        if not ok:
            bad("reply_mismatch", {"outcome": "incomplete"}, f"client received {rx!r}, reference expects {d.replies!r} and then silence")
        if not o["closed"]:
            bad("not_closed", {"outcome": "incomplete"}, "connection still open after the client's FIN")
        return
    if d.outcome == "reject":
        if o["attempts"]:
            bad("connect_on_rejected_handshake", {}, f"upstream connect {o['attempts']} although the reference rejects ({d.stage})")
        if not o["closed_before_fin"]:
            bad("not_closed", {"outcome": "reject"},
                f"proxy did not close the connection after refusing (closed after the client's FIN: {o['closed']})")
        if not rx.startswith(d.replies):
            bad("reply_mismatch", {"outcome": "reject"}, f"client received {rx!r}, expected it to start with {d.replies!r}")
            return
        rest = rx[len(d.replies):]
        if d.stage == "greeting_methods":
            if rest:
                bad("malformed_reply", {"outcome": "reject", "what": "method_selection_trailing_octets"},
                    f"the METHOD selection message is two octets (RFC 1928 section 3); {len(rest)} more followed the "
                    f"'no acceptable methods' reply: {rest!r}")
        elif d.stage == "auth_failed":
            if not (len(rest) == 2 and rest[0] == 1 and rest[1] != 0) and not (d.lenient and rest == b""):
                bad("reply_mismatch", {"outcome": "reject"}, f"expected an RFC 1929 failure status, got {rest!r}")
        elif d.codes is None:
            if rest:
                rep, ln = R.parse_reply(rest)
                if not (isinstance(rep, int) and rep != 0 and ln == len(rest)) and rest != bytes([5, 0xFF]):
                    bad("malformed_reply", {"outcome": "reject"}, f"refusal bytes are not a well-formed reply: {rest!r}")
        else:
            rep, ln = R.parse_reply(rest)
            if not isinstance(rep, int) or ln != len(rest):
                bad("malformed_reply", {"outcome": "reject"}, f"expected exactly one well-formed failure reply, got {rest!r}")
            elif rep not in d.codes:
                bad("wrong_reply_code", {"got": rep, "want": sorted(d.codes)}, f"reply code {rep}, applicable: {sorted(d.codes)}")
        return
    # ---- accept -------------------------------------------------------------------------------
    if d.lenient:
        probes["lenient"] = probes.get("lenient", 0) + 1
        if rx.startswith(d.replies[:2]):
            why = _as_reject(d, o, rx[2:], allow_auth_status=len(d.replies) > 2)
            if why is None:
                probes["lenient_refused"] = probes.get("lenient_refused", 0) + 1
                return
    asserted = _domain_asserted(d.dest) and not d.lenient
    for host, port, proto, res in o["attempts"]:
        if proto != "tcp":
            bad("wrong_destination", {"what": "protocol"}, f"upstream connect over {proto}")
        elif asserted and not R.dest_matches(d.dest, host, port):
            bad("wrong_destination", {"atyp": d.dest[0], "what": "port" if R.dest_matches((d.dest[0], d.dest[1], port), host, port) else "host"},
                f"connected to {host!r}:{port}, requested {R.dest_text(d.dest)}")
    if len(o["attempts"]) > 1:
        bad("multiple_connects", {}, f"{len(o['attempts'])} upstream connects for one request: {o['attempts']}")
    if not rx.startswith(d.replies):
        bad("reply_mismatch", {"outcome": "accept"}, f"client received {rx[:40]!r}, expected it to start with {d.replies!r}")
        return
    rest = rx[len(d.replies):]
    rep, ln = R.parse_reply(rest)
    if not isinstance(rep, int):
        bad("malformed_reply", {"outcome": "accept"}, f"no well-formed reply to the request: {rest[:40]!r} ({rep}, {ln})")
        return
    relayed = rest[ln:]
    http_complete = kind == "http" and _http_request_complete(d.payload)
    # lazy: the layer behind SOCKS is only chosen (and the upstream connection only opened) once payload arrives
    must_connect = strategy == "eager" or (kind == "tcp" and len(d.payload) > 0) or http_complete
    if must_connect and not o["attempts"]:
        bad("no_connect", {"strategy": strategy}, f"reference accepts {R.dest_text(d.dest)} but no upstream connect was made")
        return
    if cerr and o["attempts"]:
        probes["connect_failed"] = probes.get("connect_failed", 0) + 1
        if strategy == "eager":
            if rep not in R.CONNECT_FAILURE_CODES:
                bad("wrong_reply_code", {"got": rep, "want": "connect failure"}, f"upstream connect failed ({cerr}) but reply code is {rep}")
            if relayed:
                bad("reply_mismatch", {"outcome": "connect_failed"}, f"bytes after the failure reply: {relayed[:40]!r}")
            if not o["closed_before_fin"]:
                bad("not_closed", {"outcome": "connect_failed"}, "proxy did not close after the failure reply")
        else:
            if rep != 0:
                bad("wrong_reply_code", {"got": rep, "want": 0}, f"lazy strategy: reply code {rep} before any connect")
            if not o["closed"]:
                bad("not_closed", {"outcome": "connect_failed_lazy"}, "connection still open at the end")
        return
    if rep != 0:
        bad("wrong_reply_code", {"got": rep, "want": 0}, f"reference accepts, upstream connect succeeded, but reply code is {rep}")
        return
    probes["accept"] = probes.get("accept", 0) + 1
    if not o["attempts"]:
        return
    if len(o["origin_rx"]) != 1:
        return
    got = o["origin_rx"][0]
    if kind == "tcp":
        if got != d.payload:
            n = 0
            while n < min(len(got), len(d.payload)) and got[n] == d.payload[n]:
                n += 1
            how = ("missing_tail" if d.payload.startswith(got) else "extra_tail" if got.startswith(d.payload) else
                   "missing_head" if d.payload.endswith(got) else "different")
            bad("relay_mismatch", {"how": how, "kind": "tcp"},
                f"origin received {len(got)} bytes, client sent {len(d.payload)} after the request; first difference at {n}: "
                f"got {got[n:n + 20]!r} want {d.payload[n:n + 20]!r}")
        if not o["origin_eof"][0]:
            bad("not_closed", {"outcome": "origin_after_client_fin"}, "origin connection still open after the client's FIN")
        if not relayed == B(sc.get("banner", "")):
            bad("relay_mismatch", {"how": "to_client", "kind": "tcp"}, f"client received {relayed[:40]!r} after the reply, origin sent {sc.get('banner')!r}")
    elif http_complete:
        want = P.parse_requests(d.payload)
        have = P.parse_requests(got)
        if have.status != "ok" or len(have.msgs) != len(want.msgs):
            bad("relay_mismatch", {"how": "request_count", "kind": "http"},
                f"origin saw {len(have.msgs)} request(s) ({have.status}), client sent {len(want.msgs)}: {got[:80]!r}")
        else:
            for a, b in zip(want.msgs, have.msgs):
                if (a.method, a.target, a.body, a.get(b"X-Marker")) != (b.method, b.target, b.body, b.get(b"X-Marker")):
                    bad("relay_mismatch", {"how": "request_differs", "kind": "http"}, f"origin saw {b.brief()}, client sent {a.brief()}")
        if b"from-orig" not in relayed:
            bad("relay_mismatch", {"how": "to_client", "kind": "http"}, f"client did not receive the origin's response: {relayed[:60]!r}")
    if not o["closed"]:
        bad("not_closed", {"outcome": "accept_after_fin"}, "client connection still open long after its FIN")


def execute(sc):
    results, w, sim_s = run(sc)
    data = client_bytes(sc)
    auth = bool(sc.get("options", {}).get("proxyauth"))
    d = R.decide(data, auth, _valid)
    v: list = []
    probes: dict = {}
    for i, o in enumerate(results):
        check_one(sc, d, o, v, probes, f"segmentation {i}")
        if d.auth_checked is not None:
            for u, p, ok in o["auth_seen"]:
                # the credentials shown to addons are the octets the client sent (compared where they are valid UTF-8)
                try:
                    want = (d.auth_checked[0].decode("utf-8"), d.auth_checked[1].decode("utf-8"))
                except UnicodeDecodeError:
                    continue
                if (u, p) != want:
                    v.append({"class": "auth_fields_misparsed", "key": {}, "msg": f"socks5_auth saw {(u, p)!r}, client sent {want!r}"})
    # outcome must not depend on the segmentation
    def outcome(o):
        return (o["rx"], o["closed_before_fin"], o["closed"], tuple(o["attempts"]), tuple(o["origin_rx"]), tuple(o["origin_eof"]))
    for i in range(1, len(results)):
        if outcome(results[i]) != outcome(results[0]):
            a, b = results[0], results[i]
            what = [k for k in ("rx", "closed_before_fin", "closed", "attempts", "origin_rx", "origin_eof") if a[k] != b[k]]
            leaked = any(o["handler_done"] and not o["closed"] for o in results)
            if leaked and set(what) <= {"closed_before_fin", "closed", "origin_eof"} and any(x["class"] == "not_closed" for x in v):
                break  # already reported as not_closed; the difference is its consequence
            v.append({"class": "segmentation_dependent",
                      "key": {"differs": what, "outcome": d.outcome, "stage": d.stage, "handler_ended_without_closing": leaked},
                      "msg": f"same {len(data)} client bytes, segmentation 0 (whole) vs {i} (cuts {sc['segmentations'][i].get('cuts')}): "
                             f"{ {k: (a[k] if not isinstance(a[k], bytes) else a[k][:60]) for k in what} } vs "
                             f"{ {k: (b[k] if not isinstance(b[k], bytes) else b[k][:60]) for k in what} }"})
            break
    if w.crashes:
        t, msg, tb = w.crashes[0]
        v = [{"class": "crash", "key": {"where": tb.split(" @ ")[-1] if " @ " in tb else msg[:60], "exc": tb.split(":")[0]},
              "msg": f"t={t:.6f} {msg} {tb}"}]
    # ---- probes --------------------------------------------------------------------------------
    if d.outcome == "reject":
        k = "reject_greeting" if d.stage.startswith("greeting") else "reject_auth" if d.stage == "auth_failed" else "reject_request"
        probes[k] = 1
    elif d.outcome == "incomplete":
        probes["incomplete"] = 1
    strategy = sc.get("options", {}).get("connection_strategy", "eager")
    probes[strategy] = 1
    if d.dest is not None and d.outcome == "accept":
        probes[{1: "ipv4", 3: "domain", 4: "ipv6"}[d.dest[0]]] = 1
        hs = len(data) - len(d.payload)
        for seg in sc.get("segmentations", []):
            cuts = [c for c in seg.get("cuts", ()) if 0 < c < len(data)]
            if d.payload and hs not in cuts:
                probes["payload_in_handshake_segment"] = 1
            if any(c < hs and c > len(data) - len(d.payload) - 6 for c in cuts):
                probes["cut_inside_request"] = 1
        if sc.get("kind") == "http":
            probes["http_payload"] = 1
    any_cut = any(o["ncuts"] for o in results)
    log = [d.as_tuple()] + [(o["rx"], o["closed_before_fin"], o["closed"], o["attempts"], o["origin_rx"], o["origin_eof"],
                              o["handler_done"], o["ncuts"]) for o in results]
    return {"violations": v, "digest": digest(log),
            "nontrivial": any_cut and (d.outcome == "accept" or d.stage.startswith("request")),
            "faults": dict(w.net.faults_fired), "probes": probes, "sim_s": sim_s,
            "states": {f"{d.outcome}/{d.stage}/{strategy}/{sc.get('kind')}"}}
