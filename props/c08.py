"""C08 — upstream connection reuse never sends a request to the wrong destination."""
from __future__ import annotations

import re

from peers import h1 as P
from simkit import h1gen as G
from simkit import h1world as H
from simkit.world import digest

ID = "C08"
LEVEL = "exploration"
QUICK_RUNS = 8000
QUICK_BUDGET_S = 150
THOROUGH_BUDGET_S = 900
CHUNK = 50
RULE = ("seeded histories of 2-10 requests on one client connection over a universe of 3 hosts x 2 ports x "
        "{no upstream proxy, proxy A, proxy B} (plain http), with addon rewrites of host/port at requestheaders/request "
        "and of server_conn.via at requestheaders, interleaved with connect failures, origin FIN/RST between and inside "
        "exchanges, 'Connection: close' replies and addon attempts to re-point an open server connection (inside flow "
        "hooks and inside the server_connected connection hook, with server_connect as the not-yet-open control); "
        "oracle: every "
        "request P reads on upstream pipe X (directly, or inside the CONNECT tunnel an upstream proxy opened) was recorded "
        "with destination == X's address/tunnel target and via == X's proxy at the time it was forwarded; nothing is "
        "written to a pipe after the origin closed it; assigning address/via on an open server connection raises. "
        "non-trivial = at least two requests were forwarded and some upstream pipe was reused or replaced after a "
        "fault/rewrite; distinct = distinct event-log digests. https/TLS destinations are exercised by C15/C19 runs, "
        "not here.")
COMPONENTS_REAL = ["HttpLayer.get_connection/register_connection/connections/waiting_for_establishment",
                   "GetHttpConnection.connection_spec_matches", "Server.__setattr__", "HttpUpstreamProxy (CONNECT to via)",
                   "Http1Client", "Master", "AddonManager"]
COMPONENTS_STUB = ["kernel TCP (SimNet pipes)", "event loop (VLoop)", "origins and upstream proxies (scripted peers reading with P)"]
ASSUMPTIONS = ["requests are attributed to flows by the unique token in their path",
               "an origin's FIN is visible to the proxy at the same virtual instant (SimNet has no propagation delay); "
               "1 ms of slack is allowed before a write counts as 'after close'"]
EXPECTED_PROBES = ["reused_connection", "new_connection_after_close", "via_tunnel", "rewritten_destination",
                   "connect_failed", "poke_raised", "same_host_other_port", "poke_in_server_connected_raised",
                   "poke_before_connect_allowed"]

HOSTS = ["a.test", "b.test", "c.test"]
PORTS = [80, 8080]
VIAS = [None, None, ["http", ["p1.test", 3128]], ["http", ["p2.test", 3128]]]
TOK = re.compile(rb"/r(\d+)")


def generate(rng, tier):
    r = rng.at("c08")
    nreq = r.choice([2, 3, 4, 5, 6, 8, 10])
    steps, replies, methods, policy = [], {}, [], []
    sticky = r.random() < 0.5  # revisit few destinations so reuse happens
    pool = [(r.choice(HOSTS), r.choice(PORTS)) for _ in range(2 if sticky else 4)]
    for k in range(nreq):
        host, port = r.choice(pool)
        hp = host if port == 80 else f"{host}:{port}"
        method = r.choice(["GET", "GET", "POST", "HEAD"])
        body = G.rand_body(r, r.choice([0, 5, 40]), k) if method == "POST" else b""
        head = f"{method} http://{hp}/r{k}/x HTTP/1.1\r\nHost: {hp}\r\nX-F{k}: v{k}\r\n"
        if method == "POST":
            head += f"Content-Length: {len(body)}\r\n"
        data = head.encode() + b"\r\n" + body
        steps.append({"op": "send", "data": G.S(data), "cuts": [], "gaps": []})
        steps.append({"op": "await", "n": k + 1, "timeout": 30.0})
        if r.random() < 0.2:
            steps.append({"op": "sleep", "t": r.choice([0.01, 0.5, 4.0])})
        rb = G.rand_body(r, r.choice([0, 3, 30]), k)
        close = r.random() < 0.2
        rdata = (f"HTTP/1.1 200 OK\r\nX-R{k}: w{k}\r\nContent-Length: {len(rb)}\r\n" +
                 ("Connection: close\r\n" if close and r.random() < 0.5 else "") + "\r\n").encode() + \
                (rb if method != "HEAD" else b"")
        then = "keep"
        if close:
            then = r.choice(["fin", "fin", "rst"])
        replies[str(k)] = {"data": G.S(rdata), "cuts": [], "gaps": [], "then": then, "method": method,
                           "delay": r.choice([0, 0, 0.01])}
        methods.append(method)
        # addon rewrites for this flow
        if r.random() < 0.3:
            h2, p2 = r.choice(HOSTS), r.choice(PORTS)
            policy.append({"hook": r.choice(["requestheaders", "request"]), "nth": k, "latency": 0, "action": "edit",
                           "which": "request", "edits": [{"k": "host", "value": h2}, {"k": "port", "value": p2}]})
        if r.random() < 0.3:
            policy.append({"hook": "requestheaders", "nth": k, "latency": 0, "action": "edit", "which": "request",
                           "edits": [{"k": r.choice(["via", "via", "replace_server_conn"]), "value": r.choice(VIAS)}]})
        if r.random() < 0.15:
            policy.append({"hook": r.choice(["responseheaders", "response"]), "nth": k, "latency": 0,
                           "action": "poke_server_conn"})
    steps.append({"op": "fin"})
    # connect failures for some attempts to some address
    connect = [{}]
    if r.random() < 0.3:
        connect = [r.choice([{}, {"error": "refused"}, {"error": "timeout", "delay": 2.0}, {"delay": 0.3}])
                   for _ in range(r.choice([2, 4]))] + [{}]
    faults = []
    if r.random() < 0.2:
        faults.append({"conn": "server", "nth": r.choice([0, 1]), "kind": r.choice(["fin_time", "rst_time"]),
                       "t": r.choice([0.02, 0.6, 3.0])})
    # an addon that tries to re-point the upstream connection from inside the CONNECTION hooks: in server_connected
    # the socket is connected (must be refused); in server_connect nothing is connected yet (control: allowed)
    rc = rng.at("c08-connpoke")
    if rc.random() < 0.3:
        for _ in range(rc.choice([1, 1, 2])):
            policy.append({"hook": rc.choice(["server_connected", "server_connected", "server_connect"]),
                           "nth": rc.choice([0, 0, 1, 2, "*"]), "latency": 0, "action": "poke_server_conn"})
    origin = {"kind": "h1", "replies": replies, "idle_close": r.choice([2.0, 60.0]), "connect": connect}
    return {"family": "http1-reuse", "modes": ["regular"], "eager": r.random() < 0.5,
            "options": {"connection_strategy": r.choice(["eager", "lazy"])},
            "clients": [{"steps": steps, "methods": methods}], "origins": {"*": origin}, "policy": policy,
            "faults": faults, "settle": 70.0}


def oracle(sc, obs):
    v = []
    probes = {}

    def bump(k):
        probes[k] = probes.get(k, 0) + 1

    flows = {}
    for f in obs.flow_objs.values():
        if f.request is None:
            continue
        # token as the client sent it (an addon may have rewritten host/port, never the path)
        tm = TOK.search(f.request.data.path)
        if tm:
            flows[int(tm.group(1))] = f
    forwarded = 0
    for s in obs.servers:
        p = P.parse_requests(s.received, stop_after_connect=False)
        if p.status == "ambiguous":
            v.append({"class": "upstream_ambiguous", "key": {}, "msg": f"pipe to {s.address}: {p.reason}"})
        tunnel_to = None
        n_on_pipe = 0
        first_byte_times = {}
        for t, d in s.rx_log:
            for mm in TOK.finditer(d):
                first_byte_times.setdefault(int(mm.group(1)), t)
        close_t = None
        if s.peer_eof or s.peer_reset:
            # when did the origin close?  (tx_log has data only; closing time is tracked by faults/replies: use the
            # last byte it sent as a lower bound, and the proxy's own close as the upper bound)
            pass
        for m in p.msgs:
            if m.method.upper() == b"CONNECT":
                host, _, port = m.target.rpartition(b":")
                tunnel_to = (host.decode("latin1").strip("[]"), int(port))
                bump("via_tunnel")
                continue
            tm = TOK.search(m.target)
            if not tm:
                continue
            k = int(tm.group(1))
            f = flows.get(k)
            if f is None:
                v.append({"class": "request_without_flow", "key": {}, "msg": f"pipe {s.address} carried r{k} which no flow records"})
                continue
            forwarded += 1
            n_on_pipe += 1
            snap = obs.done_snaps.get((f.id, "request")) or obs.done_snaps.get((f.id, "requestheaders"))
            if snap is None:
                continue
            want_dest = (snap["request"]["host"], snap["request"]["port"])
            want_via = snap["server"][3]
            got_dest = tunnel_to if tunnel_to is not None else tuple(s.address)
            got_via = ("http", tuple(s.address)) if tunnel_to is not None else None
            if want_via is not None:
                want_via = (want_via[0], tuple(want_via[1]))
            orig = re.search(rb"Host: ([^\r\n:]+)(?::(\d+))?", H.B(sc["clients"][0]["steps"][0]["data"]))
            if want_dest != got_dest:
                v.append({"class": "wrong_destination", "key": {"via": got_via is not None},
                          "msg": f"r{k} recorded for {want_dest} (via {want_via}) was written to the pipe for {got_dest} "
                                 f"(via {got_via}) as request #{n_on_pipe} on it"})
            elif want_via != got_via:
                v.append({"class": "wrong_upstream_proxy", "key": {"recorded_via": want_via is not None},
                          "msg": f"r{k} recorded with via={want_via} went out with via={got_via} (dest {got_dest})"})
            if n_on_pipe > 1:
                bump("reused_connection")
        # nothing written after the origin closed this pipe
        if s.peer_closed_at is not None:
            late = [(t, len(d)) for t, d in s.rx_log if t > s.peer_closed_at + 1e-3]
            if late:
                v.append({"class": "written_after_close", "key": {"rst": bool(s.peer_reset)},
                          "msg": f"pipe to {s.address}: origin closed at t={s.peer_closed_at:.6f}, proxy still wrote "
                                 f"{late[:3]} afterwards"})
    # rewrites / probes
    for a in obs.policy.applied:
        if a[3] == "edit":
            bump("rewritten_destination")
    if obs.world.net.faults_fired.get("connect_error"):
        bump("connect_failed")
    addrs = [tuple(s.address) for s in obs.servers]
    if len(addrs) != len(set(addrs)):
        bump("new_connection_after_close")
    if len({a[0] for a in addrs}) < len(set(addrs)):
        bump("same_host_other_port")
    for t, hook, attr, was_open, raised in obs.policy.poke_log:
        if was_open and raised:
            bump("poke_raised")
        if was_open and not raised:
            v.append({"class": "open_connection_repointed", "key": {"attr": attr},
                      "msg": f"assigning server_conn.{attr} on an OPEN connection inside the {hook} hook did not raise"})
    # the same attempt from inside the connection hooks.  "Open" is judged without looking at mitmproxy's own state
    # flag: server_connected has fired for the connection (the proxy itself announces it as established) and a
    # simulated socket to the place it connects to exists that the proxy has not closed.
    for t, hook, attr, flag_open, raised, target in obs.policy.conn_poke_log:
        sock_live = any(tuple(s.address) == target and s.opened_at <= t and (s.close_time is None or s.close_time > t)
                        for s in obs.servers)
        if hook == "server_connected" and sock_live:
            if raised:
                bump("poke_in_server_connected_raised")
            else:
                v.append({"class": "open_connection_repointed", "key": {"attr": attr, "hook": hook},
                          "msg": f"assigning server.{attr} inside the server_connected hook (socket to {target} is "
                                 f"connected; mitmproxy's state flag said open={flag_open}) did not raise"})
        elif hook == "server_connect" and not sock_live:
            bump("poke_before_connect")
            if not raised:
                bump("poke_before_connect_allowed")
    obs.forwarded = forwarded
    cv = H.crash_violations(sc, obs)
    if cv:
        v = cv
    return v, probes


def monitor(w, obs):
    # remember when each origin pipe was closed by its peer
    from simkit import net as N
    orig_eof, orig_rst = N.SimConn.send_eof, N.SimConn.reset
    for s in ():
        pass


def execute(sc):
    obs = H.run(sc)
    for s in obs.servers:
        s.peer_closed_at = getattr(s, "peer_closed_at", None)
    v, probes = oracle(sc, obs)
    w = obs.world
    nontrivial = obs.forwarded >= 2 and (probes.get("reused_connection") or probes.get("new_connection_after_close")
                                         or probes.get("rewritten_destination"))
    return {"violations": v, "digest": digest(obs.event_log()), "nontrivial": bool(nontrivial),
            "faults": dict(w.net.faults_fired), "probes": probes, "sim_s": obs.sim_s}
