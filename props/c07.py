"""C07 — body size limits are enforced and streamed bodies are relayed exactly."""
from __future__ import annotations

import re

from peers import h1 as P
from simkit import h1gen as G
from simkit import h1world as H
from simkit.world import digest

ID = "C07"
LEVEL = "exploration"
QUICK_RUNS = 8000
QUICK_BUDGET_S = 150
THOROUGH_BUDGET_S = 900
CHUNK = 50
RULE = ("seeded HTTP/1 exchanges whose request and response body sizes sit at limit-1 / limit / limit+1 / >> limit for "
        "body_size_limit in {10,100,1k} and stream_large_bodies in {off,5,50,1k}, Content-Length and chunked framing, "
        "chunkings and TCP segmentations from one byte to everything at once, store_streamed_bodies on/off, addon "
        "stream = unset / True / callable (upper, drop, double, split, tag; length-changing ones only on chunked "
        "messages); oracle: (a) known-oversized => error outcome, client gets an error, oversized body never reaches the "
        "destination; (b) monitor after every processed event: bytes held in HttpStream.request_body_buf/"
        "response_body_buf <= limit + largest received segment; (c) streamed: bytes P reads at the destination == "
        "concatenation of what the callable returned, flow keeps content iff store_streamed_bodies. non-trivial = a body "
        "crossed a threshold or was streamed; distinct = distinct event-log digests")
COMPONENTS_REAL = ["HttpStream.check_body_size / state_stream_* / state_consume_*", "Http1Server/Http1Client", "human.parse_size",
                   "Proxyserver options", "Master", "AddonManager"]
COMPONENTS_STUB = ["kernel TCP (SimNet pipes)", "event loop clock/selector (VLoop)", "clients/origins (scripted peers)"]
ASSUMPTIONS = ["the monitor reads HttpStream.request_body_buf/response_body_buf (the anchored state) by walking the layer tree",
               "P (peers/h1.py) reads the destination's bytes", "length-changing stream callables are only attached to chunked messages"]
EXPECTED_PROBES = ["request_over_limit", "response_over_limit", "request_streamed", "response_streamed", "stream_callable",
                   "at_limit_exactly", "stored_streamed"]

LIMITS = {"10": 10, "100": 100, "1k": 1024}
STREAMS = {"5": 5, "50": 50, "1k": 1024}


def sizes_around(r, n):
    return r.choice([0, 1, max(0, n - 1), n, n + 1, n + 1, 2 * n + 3, 5 * n + 17])


def generate(rng, tier):
    r = rng.at("c07")
    mode = r.choice(["regular", "regular", "reverse:http://a.test:80"])
    form = "absolute" if mode == "regular" else "origin"
    options = {"connection_strategy": r.choice(["eager", "lazy"])}
    lim = r.choice([None, "10", "100", "100", "1k"])
    st = r.choice([None, None, "5", "50", "1k"])
    if lim:
        options["body_size_limit"] = lim
    if st:
        options["stream_large_bodies"] = st
    if r.random() < 0.4:
        options["store_streamed_bodies"] = True
    pivot = LIMITS.get(lim) or STREAMS.get(st) or 50
    pivot2 = STREAMS.get(st) or pivot
    nreq = r.choice([1, 1, 2])
    steps, replies, methods, meta = [], {}, [], []
    for k in range(nreq):
        method = r.choice(["POST", "PUT", "POST", "GET"])
        n_req = sizes_around(r, r.choice([pivot, pivot2])) if method != "GET" else 0
        body = G.rand_body(r, n_req, k)
        req_chunked = method != "GET" and r.random() < 0.5
        hp = "a.test"
        target = (f"http://{hp}/r{k}/b" if form == "absolute" else f"/r{k}/b")
        head = f"{method} {target} HTTP/1.1\r\nHost: {hp}\r\nX-F{k}: v{k}\r\n"
        if req_chunked:
            wire = G.chunk_encode(r, body)
            head += "Transfer-Encoding: chunked\r\n\r\n"
        else:
            wire = body
            head += (f"Content-Length: {len(body)}\r\n" if method != "GET" else "") + "\r\n"
        data = head.encode() + wire
        cuts = G.gen_cuts(r, len(data), r.choice(["none", "few", "many", "bytes"]))
        steps.append({"op": "send", "data": G.S(data), "cuts": cuts, "gaps": [r.choice([0.0, 0.001, 0.01]) for _ in range(len(cuts) + 1)]})
        steps.append({"op": "await", "n": k + 1, "timeout": 30.0})
        n_resp = sizes_around(r, r.choice([pivot, pivot2]))
        rbody = G.rand_body(r, n_resp, k)
        framing = r.choice(["cl", "chunked", "close"]) if k == nreq - 1 else r.choice(["cl", "chunked"])
        rhead = f"HTTP/1.1 200 OK\r\nX-R{k}: w{k}\r\n"
        then = "keep"
        if framing == "cl":
            rwire = rbody
            rhead += f"Content-Length: {len(rbody)}\r\n\r\n"
        elif framing == "chunked":
            rwire = G.chunk_encode(r, rbody)
            rhead += "Transfer-Encoding: chunked\r\n\r\n"
        else:
            rwire = rbody
            rhead += "\r\n"
            then = "fin"
        rdata = rhead.encode() + rwire
        rc = G.gen_cuts(r, len(rdata), r.choice(["none", "few", "many", "bytes"]))
        replies[str(k)] = {"data": G.S(rdata), "cuts": rc, "gaps": [r.choice([0.0, 0.001, 0.01]) for _ in range(len(rc) + 1)],
                           "then": then, "method": method}
        methods.append(method)
        meta.append({"tok": k, "method": method, "req_body": G.S(body), "req_chunked": req_chunked,
                     "resp_body": G.S(rbody), "resp_framing": framing})
    steps.append({"op": "fin"})
    policy = []
    for m in meta:
        if r.random() < 0.45:
            which = r.choice(["request", "response"])
            chunked = m["req_chunked"] if which == "request" else m["resp_framing"] == "chunked"
            fns = [None, None, "upper", "ident"] + (["drop", "double", "split", "tag"] if chunked else [])
            policy.append({"hook": "requestheaders" if which == "request" else "responseheaders", "nth": m["tok"],
                           "latency": 0, "action": "stream", "which": which, "fn": r.choice(fns)})
    origin = {"kind": "h1", "replies": replies, "idle_close": 10.0, "connect": [{"delay": r.choice([0, 0.01])}]}
    return {"family": "http1-" + mode.split(":")[0], "modes": [mode], "eager": r.random() < 0.5, "options": options,
            "clients": [{"steps": steps, "methods": methods}], "origins": {"*": origin}, "policy": policy, "faults": [],
            "settle": 25.0, "meta": meta}


# ---------------------------------------------------------------------------
def monitor(w, obs):
    from mitmproxy.proxy import layer as mlayer
    from mitmproxy.proxy import events as mevents
    obs.buf_max = {"request": 0, "response": 0}
    obs.seg_max = 0
    obs.buf_viol = []

    def walk(l, seen):
        if id(l) in seen:
            return
        seen.add(id(l))
        yield l
        for attr in ("child_layer", "layer"):
            c = getattr(l, attr, None)
            if isinstance(c, mlayer.Layer):
                yield from walk(c, seen)
        st = getattr(l, "streams", None)
        if isinstance(st, dict):
            for s in list(st.values()):
                if isinstance(s, mlayer.Layer):
                    yield from walk(s, seen)

    def on_event(handler, event):
        if isinstance(event, mevents.DataReceived):
            obs.seg_max = max(obs.seg_max, len(event.data))
        for l in walk(handler.layer, set()):
            rb = getattr(l, "request_body_buf", None)
            if rb is not None:
                a, b = len(rb), len(l.response_body_buf)
                obs.buf_max["request"] = max(obs.buf_max["request"], a)
                obs.buf_max["response"] = max(obs.buf_max["response"], b)
    w.event_listeners.append(on_event)


def stream_expected(obs, fid, which):
    """Concatenation of what the stream callable returned for this flow/direction, or None if no callable ran."""
    outs = [o for f, w_, i, o in obs.policy.stream_log if f == fid and w_ == which]
    if not outs:
        return None
    acc = b""
    for o in outs:
        acc += o if isinstance(o, bytes) else b"".join(o)
    return acc


def oracle(sc, obs):
    v = []
    probes = {}

    def bump(k):
        probes[k] = probes.get(k, 0) + 1

    opts = sc["options"]
    limit = LIMITS.get(opts.get("body_size_limit"))
    sthr = STREAMS.get(opts.get("stream_large_bodies"))
    store = bool(opts.get("store_streamed_bodies"))
    flows = {}
    for f in obs.flow_objs.values():
        if f.request is not None:
            tm = re.search(rb"/r(\d+)", f.request.data.path)
            if tm:
                flows[int(tm.group(1))] = f
    up = {}
    up_status = "ok"
    for s in obs.servers:
        p = P.parse_requests(s.received)
        if p.status == "ambiguous":
            up_status = "ambiguous: " + p.reason
        for m in p.msgs + ([p.partial] if p.partial is not None else []):
            tm = re.search(rb"/r(\d+)", m.target)
            if tm:
                up[int(tm.group(1))] = m
    c = obs.clients[0]
    cp = P.parse_responses(c.received, [H.B(m) for m in sc["clients"][0]["methods"]] + [b"GET"] * 3, c.proxy_closed)
    down = {}
    for m in cp.msgs + ([cp.partial] if cp.partial is not None else []):
        t = m.get(b"x-r0") and 0
        for n, val in m.headers:
            mm = re.match(rb"x-r(\d+)$", n.lower())
            if mm:
                down[int(mm.group(1))] = m
    err_pages = [m for m in cp.msgs if (m.get(b"server") or b"").startswith(b"mitmproxy") and m.status >= 400]
    if up_status != "ok":
        v.append({"class": "upstream_ambiguous", "key": {}, "msg": up_status})
    # ---- (b) buffer bound --------------------------------------------------------------------------------
    # (with store_streamed_bodies the user asked for streamed bodies to be kept in memory: the same buffers then hold
    #  the whole streamed body by design, so the bound is only meaningful without it)
    if limit is not None and not store:
        for which in ("request", "response"):
            if obs.buf_max[which] > limit + obs.seg_max:
                v.append({"class": "buffer_exceeds_limit", "key": {"which": which},
                          "msg": f"{which}_body_buf held {obs.buf_max[which]} bytes with body_size_limit={limit} and the "
                                 f"largest received segment {obs.seg_max}"})
    for m in sc["meta"]:
        k = m["tok"]
        f = flows.get(k)
        req_body, resp_body = H.B(m["req_body"]), H.B(m["resp_body"])
        # ------------------------------- request direction --------------------------------
        req_stream_flag = f is not None and bool(f.request.stream)
        known_over = limit is not None and len(req_body) > limit and (
            not m["req_chunked"]  # Content-Length tells before anything is buffered
            or not (req_stream_flag or (sthr is not None and sthr < limit)))  # buffered until it is over the limit
        if limit is not None and len(req_body) == limit:
            bump("at_limit_exactly")
        if known_over:
            bump("request_over_limit")
            um = up.get(k)
            if um is not None and um.complete and um.body == req_body:
                v.append({"class": "oversized_body_forwarded", "key": {"which": "request"},
                          "msg": f"request r{k} body of {len(req_body)} bytes > limit {limit} reached the origin completely"})
            if f is not None and f.error is None:
                v.append({"class": "oversized_without_error", "key": {"which": "request"},
                          "msg": f"request r{k} body {len(req_body)} > limit {limit} but the flow has no error"})
            if not err_pages and not c.proxy_closed:
                v.append({"class": "oversized_no_client_error", "key": {"which": "request"},
                          "msg": f"request r{k} over the limit but the client got neither an error response nor a close"})
            continue
        um = up.get(k)
        if f is None or um is None:
            continue
        exp = stream_expected(obs, f.id, "request")
        if exp is not None:
            bump("stream_callable")
        streamed = req_stream_flag
        if streamed:
            bump("request_streamed")
        want = exp if exp is not None else req_body
        if um.complete and um.body != want and f.error is None:
            v.append({"class": "relayed_body_differs", "key": {"which": "request", "streamed": streamed,
                                                                "callable": exp is not None},
                      "msg": f"request r{k}: origin read {len(um.body)} bytes {um.body[:50]!r}, expected {len(want)} bytes "
                             f"{want[:50]!r} (sent {len(req_body)})"})
        if streamed and um.complete and len(req_body) > 0 and f.error is None:
            kept = f.request.data.content
            if store:
                bump("stored_streamed")
                if kept != want:
                    v.append({"class": "stored_streamed_body_wrong", "key": {"which": "request"},
                              "msg": f"request r{k}: store_streamed_bodies on, flow keeps {None if kept is None else len(kept)} "
                                     f"bytes, relayed {len(want)}"})
            elif kept not in (None, b""):
                v.append({"class": "streamed_body_kept", "key": {"which": "request"},
                          "msg": f"request r{k} was streamed with store_streamed_bodies off but the flow keeps {len(kept)} bytes"})
        # ------------------------------- response direction -------------------------------
        resp_stream_flag = f.response is not None and bool(f.response.stream)
        known_over_r = limit is not None and len(resp_body) > limit and (
            m["resp_framing"] == "cl" or not (resp_stream_flag or (sthr is not None and sthr < limit)))
        if limit is not None and len(resp_body) == limit:
            bump("at_limit_exactly")
        dm = down.get(k)
        if known_over_r and f.response is not None:
            bump("response_over_limit")
            if dm is not None and dm.complete and dm.body == resp_body and len(resp_body) > 0:
                v.append({"class": "oversized_body_forwarded", "key": {"which": "response"},
                          "msg": f"response r{k} body of {len(resp_body)} bytes > limit {limit} reached the client completely"})
            if f.error is None:
                v.append({"class": "oversized_without_error", "key": {"which": "response"},
                          "msg": f"response r{k} body {len(resp_body)} > limit {limit} but the flow has no error"})
            if not err_pages and not c.proxy_closed:
                v.append({"class": "oversized_no_client_error", "key": {"which": "response"},
                          "msg": f"response r{k} over the limit but the client got neither an error response nor a close"})
            continue
        if dm is None or f.response is None:
            continue
        expr = stream_expected(obs, f.id, "response")
        if expr is not None:
            bump("stream_callable")
        if resp_stream_flag:
            bump("response_streamed")
        wantr = expr if expr is not None else resp_body
        if m["method"] != "HEAD" and dm.complete and dm.body != wantr and f.error is None:
            v.append({"class": "relayed_body_differs", "key": {"which": "response", "streamed": resp_stream_flag,
                                                                "callable": expr is not None},
                      "msg": f"response r{k}: client read {len(dm.body)} bytes {dm.body[:50]!r}, expected {len(wantr)} bytes "
                             f"{wantr[:50]!r} (origin sent {len(resp_body)})"})
        if resp_stream_flag and dm.complete and len(resp_body) > 0 and f.error is None:
            kept = f.response.data.content
            if store:
                bump("stored_streamed")
                if kept != wantr:
                    v.append({"class": "stored_streamed_body_wrong", "key": {"which": "response"},
                              "msg": f"response r{k}: store_streamed_bodies on, flow keeps "
                                     f"{None if kept is None else len(kept)} bytes, relayed {len(wantr)}"})
            elif kept not in (None, b""):
                v.append({"class": "streamed_body_kept", "key": {"which": "response"},
                          "msg": f"response r{k} was streamed with store_streamed_bodies off but the flow keeps {len(kept)} bytes"})
    cv = H.crash_violations(sc, obs)
    if cv:
        v = cv
    return v, probes


def execute(sc):
    obs = H.run(sc, monitors=(monitor,))
    v, probes = oracle(sc, obs)
    w = obs.world
    nontrivial = any(probes.get(k) for k in ("request_over_limit", "response_over_limit", "request_streamed",
                                             "response_streamed", "at_limit_exactly"))
    return {"violations": v, "digest": digest(obs.event_log()), "nontrivial": bool(nontrivial),
            "faults": dict(w.net.faults_fired), "probes": probes, "sim_s": obs.sim_s}
