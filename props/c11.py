"""C11 — intercepted flows are held until resumed, killed flows are never forwarded (HTTP/1 legs)."""
from __future__ import annotations

import re

from peers import h1 as P
from simkit import h1gen as G
from simkit import h1world as H
from simkit.world import digest

ID = "C11"
LEVEL = "exploration"
QUICK_RUNS = 8000
QUICK_BUDGET_S = 150
THOROUGH_BUDGET_S = 900
CHUNK = 50
RULE = ("seeded HTTP/1 conversations (1-3 requests, sequential or pipelined, no body streaming) through the real proxy; "
        "the policy addon intercepts at requestheaders/request/responseheaders/response and a simulated user resumes, "
        "edits+resumes or kills after a delay chosen relative to further message arrival, peer closes and the next "
        "pipelined request; oracle over the wire recorder's virtual timestamps: nothing of the held message at its "
        "destination during the hold, exactly one (edited) copy after resume, nothing after kill, flow.error set and "
        "no hook left pending at quiescence. non-trivial = an interception actually held a message for > 0 s and the "
        "exchange otherwise reached an origin or the client; distinct = distinct event-log digests. "
        "WebSocket/TCP/UDP/DNS legs of the statement are exercised by the checks of C28/C29/C27 (message hooks with "
        "latency), not here.")
COMPONENTS_REAL = ["Flow.intercept/resume/kill/wait_for_resume", "ProxyConnectionHandler.handle_hook", "HttpStream.check_killed",
                   "Master", "AddonManager", "Intercept addon loaded (unused filter)", "HTTP/1 layers"]
COMPONENTS_STUB = ["kernel TCP (SimNet pipes)", "event loop clock/selector (VLoop)", "the user (scripted resume/kill at a virtual time)"]
ASSUMPTIONS = ["a message is attributed to its flow by the unique token in its start line / marker header",
               "bodies are not streamed in these scenarios (a streamed body has left before the hook that could hold it)"]
EXPECTED_PROBES = ["held_request", "held_response", "resumed", "edited_resume", "killed_while_held", "client_left_while_held",
                   "pipelined_behind_held", "killed_streamed_response", "killed_in_hook"]

TOKQ = re.compile(rb"/r(\d+)")


def generate(rng, tier):
    r = rng.at("c11")
    mode = r.choice(["regular", "regular", "reverse:http://a.test:80", "transparent"])
    form = "absolute" if mode == "regular" else "origin"
    nreq = r.choice([1, 1, 2, 3])
    pipelined = nreq > 1 and r.random() < 0.4
    reqs, replies, methods = [], {}, []
    for k in range(nreq):
        rq = G.gen_request(r, k, form=form, host="a.test", profile={"adversarial": 0.0, "body_sizes": [0, 5, 40, 300]})
        reqs.append(rq)
        methods.append(rq["method"])
        rp, _ = G.gen_reply(r, k, rq["method"], {"adversarial_reply": 0.0, "reply_sizes": [0, 7, 60, 400]})
        rp["cuts"] = G.gen_cuts(r, len(rp["data"]), r.choice(["none", "few"]))
        rp["gaps"] = G.gen_gaps(r, len(rp["cuts"]))
        replies[str(k)] = rp
    steps = []
    if pipelined:
        data = b"".join(q["data"] for q in reqs)
        steps.append({"op": "send", "data": G.S(data), "cuts": G.gen_cuts(r, len(data), r.choice(["none", "few"])), "gaps": []})
        steps.append({"op": "await", "n": nreq, "timeout": 40.0})
    else:
        for k, q in enumerate(reqs):
            steps.append({"op": "send", "data": G.S(q["data"]), "cuts": [], "gaps": []})
            steps.append({"op": "await", "n": k + 1, "timeout": 40.0})
    if r.random() < 0.2:
        # the client gives up while a flow is (probably) held
        i = r.choice([j for j, s in enumerate(steps) if s["op"] == "await"])
        steps = steps[:i] + [{"op": "sleep", "t": r.choice([0.05, 0.5, 2.0])}, {"op": r.choice(["fin", "rst"])}]
    else:
        steps.append({"op": "fin"})
    policy = []
    rk = rng.at("c11-kill-in-hook")
    for _ in range(r.choice([1, 1, 2, 3])):
        hook = r.choice(["requestheaders", "request", "request", "responseheaders", "response", "response"])
        which = "request" if hook in ("requestheaders", "request") else "response"
        then = r.choice(["resume", "resume", "edit_resume", "edit_resume", "kill", "kill"])
        in_hook = rk.random() < 0.12
        in_hook_after = rk.choice([0.0, 0.0, 0.001, 0.1])
        rule = {"hook": hook, "nth": r.choice([0, 0, 1, 2]), "latency": r.choice([0, 0, 0.01]), "action": "intercept",
                "then": then, "after": r.choice([0.0, 0.001, 0.1, 1.0, 5.0]), "which": which,
                "edits": [{"k": "set_header", "name": "X-Edited", "value": f"{hook}"}] +
                         ([{"k": "content", "value": "edited-body"}] if hook in ("request", "response") and r.random() < 0.5 else [])}
        if in_hook:
            # the kill arrives while the hook that intercepted the flow is still running (a later addon, or a user
            # who is quicker than a slow addon): the proxy has not started to wait for the resume yet
            rule["then"], rule["after"] = "kill_in_hook", in_hook_after
        policy.append(rule)
    # at most one rule per (hook, nth): two users fighting over one held flow is not what is being checked
    seen, pol2 = set(), []
    for p in policy:
        if (p["hook"], p["nth"]) not in seen:
            seen.add((p["hook"], p["nth"]))
            pol2.append(p)
    origin = {"kind": "h1", "replies": replies, "idle_close": 20.0, "connect": [{"delay": r.choice([0, 0, 0.01, 0.3])}]}
    options = {"connection_strategy": r.choice(["eager", "lazy"])}
    if not pipelined and r.random() < 0.3:
        # a response is held for longer than the idle timeout while another hook of the same client connection
        # (server_disconnected: the origin closes together with its answer) starts and completes during the hold
        T = r.choice([1, 2])
        options["tcp_timeout"] = T
        replies["0"]["then"] = "fin"
        hk = r.choice(["responseheaders", "response"])
        pol2 = [p for p in pol2 if not (p["hook"] in ("responseheaders", "response") and p["nth"] == 0)]
        pol2.append({"hook": hk, "nth": 0, "latency": 0, "action": "intercept",
                     "then": r.choice(["resume", "edit_resume"]), "after": r.choice([1.5 * T, 2.5 * T]), "which": "response",
                     "edits": [{"k": "set_header", "name": "X-Edited", "value": "held"}]})
    rs = rng.at("c11-streamed")
    if rs.random() < 0.15:
        # a response whose body is streamed (so head and body are already at the client) is held at the `response`
        # hook and then killed or resumed: after a kill nothing more of it (chunked end marker) may follow
        k = rs.randrange(0, nreq)
        pol2 = [p for p in pol2 if not (p["hook"] in ("responseheaders", "response") and p["nth"] == k)]
        pol2.append({"hook": "responseheaders", "nth": k, "latency": 0, "action": "stream", "which": "response"})
        pol2.append({"hook": "response", "nth": k, "latency": 0, "action": "intercept", "which": "response", "edits": [],
                     "then": rs.choice(["kill", "kill", "resume"]), "after": rs.choice([0.0, 0.001, 0.1, 1.0])})
    return {"family": "http1-" + mode.split(":")[0], "modes": [mode], "eager": r.random() < 0.5,
            "options": options,
            "clients": [{"steps": steps, "methods": methods,
                         "original_dst": ["a.test", 80] if mode == "transparent" else None}],
            "origins": {"*": origin}, "policy": pol2, "faults": [], "settle": 60.0}


def first_time(conns, needle: bytes):
    best = None
    for c in conns:
        for t, d in c.rx_log:
            if needle in d and (best is None or t < best):
                best = t
    return best


def count_in(conns, needle: bytes):
    return sum(c.received.count(needle) for c in conns)


def oracle(sc, obs):
    v = []
    probes = {}

    def bump(k):
        probes[k] = probes.get(k, 0) + 1

    if any(name == "tcp_start" for _, name, _, _ in obs.hooks):
        return [], {"raw_tcp_fallback": 1}
    flows = obs.flow_objs
    # holds: (flow id, hook) -> [t_hold, t_release, outcome]
    holds = {}
    for a in obs.policy.applied:
        t, hook, n, act, fid = a
        if act == "intercept":
            holds[(fid, hook)] = [t, None, None]
        elif act.startswith("then_") and (fid, hook) in holds:
            holds[(fid, hook)][1] = t
            holds[(fid, hook)][2] = act[5:]
    for (fid, hook), (t0, t1, outcome) in holds.items():
        f = flows.get(fid)
        if f is None or f.request is None:
            continue
        tm = TOKQ.search(f.request.data.path)
        # the path may have been rewritten only by our own edits (never here), so the token is still there
        if not tm:
            continue
        k = int(tm.group(1))
        is_req = hook in ("requestheaders", "request")
        needle = (b"/r%d" % k) if is_req else (b"X-R%d: w%d" % (k, k))
        dest = obs.servers if is_req else obs.clients
        t_first = first_time(dest, needle)
        released_at = t1 if t1 is not None else float("inf")
        if t1 is not None and t1 > t0:
            bump("held_request" if is_req else "held_response")
        if any((c.peer_eof or c.peer_reset) and c.tx_log and t0 <= max(t for t, _ in c.tx_log) <= released_at
               for c in obs.clients) or any(
                c.peer_eof and t0 < obs.sim_s for c in obs.clients if not c.tx_log):
            bump("client_left_while_held")
        # responses that mitmproxy forwards in a streaming fashion do not exist in these scenarios, so a response
        # held at responseheaders/response must not have started to reach the client
        snap_rh = obs.done_snaps.get((fid, "responseheaders"))
        streamed_response = bool(not is_req and hook == "response" and snap_rh and snap_rh["response"]
                                 and snap_rh["response"]["stream"])
        if streamed_response:
            # head and body were relayed when they arrived, before the `response` hook: only what follows the hold
            # (the end of the message) is held
            bump("held_streamed_response")
        elif t_first is not None and t_first < released_at - 1e-9 and t_first >= t0 - 1e-9:
            v.append({"class": "forwarded_while_intercepted", "key": {"hook": hook},
                      "msg": f"flow r{k} intercepted at {hook} from t={t0:.6f}: its {'request' if is_req else 'response'} "
                             f"reached the destination at t={t_first:.6f}, before the release at t={released_at}"})
        if t_first is not None and t_first < t0 - 1e-9 and is_req and hook == "requestheaders":
            v.append({"class": "forwarded_before_hook", "key": {"hook": hook},
                      "msg": f"flow r{k}: request bytes at the origin at t={t_first:.6f}, before its {hook} hook at t={t0:.6f}"})
        n_copies = count_in(dest, needle)
        if outcome == "kill_in_hook":
            bump("killed_in_hook")
            outcome = "kill"
        if outcome in ("resume", "edit_resume"):
            bump("resumed")
            if outcome == "edit_resume":
                bump("edited_resume")
            # exactly once, unless the flow ended otherwise meanwhile (peer gone, later kill, error)
            if n_copies > 1:
                v.append({"class": "forwarded_more_than_once", "key": {"hook": hook},
                          "msg": f"flow r{k}: {n_copies} copies of the {'request' if is_req else 'response'} start line/marker at the destination"})
            if n_copies == 0:
                # not forwarded although resumed: only legitimate when the client had left by then, the flow was
                # killed later, or an addon answered it (never in these scripts)
                # The decidable case: the proxy itself closed the still-connected client's pipe while the flow was
                # being held (e.g. an idle timeout that ignored the pending hook), so the resume had nothing to
                # forward to.  A client that left first, a failed connect or a later kill are legitimate reasons.
                later_kill = any(o == "kill" and fi == fid for (fi, hk), (_, _, o) in holds.items())
                dropped = [c for c in obs.clients
                           if c.close_time is not None and t0 + 1e-6 < c.close_time < t1 - 1e-6
                           and (c.peer_closed_at is None or c.peer_closed_at > c.close_time + 1e-6)]
                if not later_kill and dropped and len(obs.clients) == 1 and (f.response is None or not is_req):
                    v.append({"class": "resumed_but_never_forwarded", "key": {"hook": hook},
                              "msg": f"flow r{k} was held from t={t0} to t={t1}; the proxy closed its still-connected "
                                     f"client at t={dropped[0].close_time} during the hold, so the resumed "
                                     f"{'request' if is_req else 'response'} never reached its destination "
                                     f"(flow error: {f.error})"})
            if outcome == "edit_resume" and n_copies == 1 and is_req:
                # the edited head must be the one on the wire
                for s in obs.servers:
                    p = P.parse_requests(s.received)
                    for m in p.msgs:
                        if needle in m.target and not m.get(b"x-edited"):
                            # edits at `request` are visible; edits at requestheaders too (head not sent yet)
                            v.append({"class": "edit_lost", "key": {"hook": hook},
                                      "msg": f"flow r{k}: resumed after an edit at {hook} but the origin read no X-Edited field"})
        elif outcome == "kill":
            bump("killed_while_held")
            later = [(t, d) for c in dest for t, d in c.rx_log if needle in d and t >= t1 - 1e-9]
            if later:
                v.append({"class": "forwarded_after_kill", "key": {"hook": hook},
                          "msg": f"flow r{k} killed at t={t1:.6f} while held at {hook}, but its "
                                 f"{'request' if is_req else 'response'} reached the destination at t={later[0][0]:.6f}"})
            if not is_req and len(obs.clients) == 1:
                # killing a response ends the client connection: not a single further byte (e.g. the chunked end
                # marker of a response whose body had been streamed before the hold) may follow
                tail = [(t, d) for c in obs.clients for t, d in c.rx_log if t > t1 + 1e-9]
                if tail:
                    bump("bytes_after_kill")
                    v.append({"class": "forwarded_after_kill", "key": {"hook": hook, "what": "bytes_after_kill"},
                              "msg": f"flow r{k} killed at t={t1:.6f} while held at {hook}, but the client still received "
                                     f"{tail[0][1][:40]!r} at t={tail[0][0]:.6f}"})
            if getattr(f.response, "stream", False) and not is_req:
                bump("killed_streamed_response")
            if f.error is None:
                v.append({"class": "killed_without_error", "key": {"hook": hook},
                          "msg": f"flow r{k} killed at t={t1:.6f} has no error at quiescence"})
        elif outcome is None:
            pass
    # pipelining probe: a later request arrived while an earlier flow was held
    if sc["clients"][0]["steps"] and len(sc["clients"][0].get("methods", [])) > 1 and holds:
        bump("pipelined_behind_held")
    # at quiescence no hook may be left pending (every hold in these scripts is released)
    if obs.pending_hooks and all(h[1] is not None for h in holds.values()):
        v.append({"class": "hook_left_pending", "key": {"hooks": sorted(set(obs.pending_hooks))},
                  "msg": f"hooks still pending at quiescence although every interception was released: {obs.pending_hooks}"})
    cv = H.crash_violations(sc, obs)
    if cv:
        v = cv
    return v, probes


def execute(sc):
    obs = H.run(sc)
    v, probes = oracle(sc, obs)
    w = obs.world
    delivered = any(c.rx_total > 0 for c in obs.clients) or any(s.rx_total > 0 for s in obs.servers)
    held = probes.get("held_request") or probes.get("held_response")
    return {"violations": v, "digest": digest(obs.event_log()), "nontrivial": bool(delivered and held),
            "faults": dict(w.net.faults_fired), "probes": probes, "sim_s": obs.sim_s}
