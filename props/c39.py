"""C39 — stream saving writes each completed flow once and keeps open flows at shutdown.

The real ``mitmproxy.addons.save.Save`` (registered in a real Master/AddonManager/Options) is
driven by a generated history: lifecycle hooks of several concurrent flows of every type,
interleaved by a seeded scheduler with option changes (save_stream_file / save_stream_filter),
clock advances (strftime rotation), marks, shutdown, and storage faults.  Files live in an
in-memory file layer (models/c39_fs.py) under a real ``io.BufferedWriter``.

Oracle: a reference model written from the property statement (plus the documented option
semantics "prefix with + to append", "a new file is opened every time the formatted string
changes").  After every operation the records that appeared in the files must equal what the
model emitted for that operation; the file images must agree.
"""
from __future__ import annotations

import collections
import io
import logging
import posixpath

from models import c39_fs as FS
from simkit.world import digest

ID = "C39"
LEVEL = "exploration"
ENGINE = "simkit/storage-world"
QUICK_RUNS = 80000
QUICK_BUDGET_S = 150
THOROUGH_BUDGET_S = 900
CHUNK = 400
RULE = ("seeded histories of 1-6 concurrent flows (HTTP response/error, WebSocket, TCP, UDP, DNS; complete, "
        "truncated and a few off-automaton ones) interleaved by a seeded scheduler with save_stream_file / "
        "save_stream_filter updates (start, stop, restart, other path, invalid filter, unusable path), clock advances "
        "across strftime boundaries, marks and a done hook at any point, in overwrite and append mode with "
        "pre-existing file content; families: free (no fault), faulty (EIO / short write + ENOSPC on the n-th raw "
        "write, transient or sticky, open failures), badpath (update to an unusable path, no I/O fault); "
        "non-trivial = at least one record written and at least one control operation interleaved with flow hooks; "
        "distinct = distinct digests of the per-operation event log")
COMPONENTS_REAL = ["addons.save.Save", "io.FilteredFlowWriter", "io.tnetstring writer", "flowfilter", "Flow.get_state",
                   "Master/AddonManager hook dispatch", "optmanager.Options update/rollback", "io.BufferedWriter"]
COMPONENTS_STUB = ["pathlib.Path in addons.save (MemFS)", "datetime.today in addons.save (simulated clock)",
                   "time.time (simulated clock)", "proxy layers (hooks are fired by the scenario script)"]
ASSUMPTIONS = [
    "a flow 'starts' at request / tcp_start / udp_start / dns_request (the hooks the anchors name for Save.active_flows)",
    "the formatted path is sampled when the options are updated and when a completion is saved; records flushed when "
    "saving stops go to the file that was current at that moment",
    "after sys.exit(1) from a failed write the master runs the done hook (Master.run's finally block) and then the "
    "process exits (all file objects are finalised)",
    "flow objects are trivial subclasses of the real flow classes with a scenario-chosen __hash__, so that the "
    "iteration order of Save.active_flows is repeatable and explored",
    "filter semantics (~http ~tcp ~udp ~dns ~websocket ~q ~s ~e ~marked ~m ~d ~c, ! & |) as documented in the filter help",
]
EXPECTED_PROBES = ["stop_flush_nonempty", "rotation", "truncate_wb", "append_preexisting", "filter_change",
                   "reject_bad_filter", "completion_while_inactive", "restart_rewrites_open_flow",
                   "nonmatching_completion", "ws_end_record", "exit_on_write_error", "fault_in_flush",
                   "reject_bad_path"]

HTTP_HOOKS = ("requestheaders", "request", "responseheaders", "response", "error")
WS_HOOKS = HTTP_HOOKS + ("websocket_start", "websocket_message", "websocket_end")
VALID = {
    "http": HTTP_HOOKS,
    "ws": WS_HOOKS,
    "tcp": ("tcp_start", "tcp_message", "tcp_end", "tcp_error"),
    "udp": ("udp_start", "udp_message", "udp_end", "udp_error"),
    "dns": ("dns_request", "dns_response", "dns_error"),
}
START_HOOKS = {"request", "tcp_start", "udp_start", "dns_request"}
SPECS = ["/sim/out.mitm", "+/sim/out.mitm", "/sim/other.mitm", "+/sim/other.mitm", "/sim/log-%M.mitm",
         "+/sim/log-%M.mitm", "+/sim/%Y-%m-%d/h%H.mitm", "/sim/s%S.mitm", "/sim/d/e/f.mitm", "+/sim/d/e/f-%H%M.mitm"]
BAD_SPECS = ["/sim", "/sim/out.mitm/sub/x.mitm", "+/sim/other.mitm/y-%M.mitm", "/sim/d", "+/"]
HOSTS = ["alpha.test", "beta.test"]
BIG = [0, 0, 0, 0, 9000, 20000]


# ---------------------------------------------------------------------------
# simulated calendar (independent of datetime): base 2026-09-21 23:58:00
# ---------------------------------------------------------------------------
BASE = (2026, 9, 21, 23, 58, 0)
_MONTH_LEN = {9: 30, 10: 31, 11: 30, 12: 31}


def civil(t: float):
    s = int(t) + BASE[3] * 3600 + BASE[4] * 60 + BASE[5]
    days, s = divmod(s, 86400)
    h, s = divmod(s, 3600)
    mi, s = divmod(s, 60)
    y, mo, d = BASE[0], BASE[1], BASE[2] + days
    while d > _MONTH_LEN[mo]:
        d -= _MONTH_LEN[mo]
        mo += 1
        if mo > 12:
            raise ValueError("clock advanced beyond the simulated calendar")
    return y, mo, d, h, mi, s


def fmt_path(spec: str, t: float) -> str:
    p = spec[1:] if spec.startswith("+") else spec
    y, mo, d, h, mi, s = civil(t)
    return (p.replace("%Y", f"{y:04d}").replace("%m", f"{mo:02d}").replace("%d", f"{d:02d}")
            .replace("%H", f"{h:02d}").replace("%M", f"{mi:02d}").replace("%S", f"{s:02d}"))


# ---------------------------------------------------------------------------
# filters: AST in the scenario, rendered for mitmproxy, evaluated by the model
# ---------------------------------------------------------------------------
def render(ast) -> str:
    k = ast[0]
    if k == "bad":
        return "~~"
    # Generated filters are in disjunctive normal form and rendered without parentheses (precedence ! > & > |):
    # flowfilter's grammar needs ~100 ms for two levels of parentheses and rejects "(~e)" (an argument-less
    # action directly followed by ")"); where parentheses are needed they are padded with blanks.
    def par(a, inner):
        s = render(a)
        return "( " + s + " )" if a[0] in inner else s
    if k == "not":
        return "!" + par(ast[1], ("and", "or", "not"))
    if k == "and":
        return par(ast[1], ("or",)) + " & " + par(ast[2], ("or",))
    if k == "or":
        return render(ast[1]) + " | " + render(ast[2])
    if k in ("m", "d"):
        return f"~{k} {ast[1]}"
    if k == "c":
        return f"~c {int(ast[1])}"
    return "~" + k


def is_bad(ast) -> bool:
    if ast is None:
        return False
    if ast[0] == "bad":
        return True
    return any(is_bad(a) for a in ast[1:] if isinstance(a, list))


def gen_filter(r, level=2):
    if level == 2:      # disjunction of conjunctions
        a = gen_filter(r, 1)
        return ["or", a, gen_filter(r, 2 if r.random() < 0.2 else 1)] if r.random() < 0.3 else a
    if level == 1:      # conjunction of literals
        a = gen_filter(r, 0)
        return ["and", a, gen_filter(r, 1 if r.random() < 0.2 else 0)] if r.random() < 0.3 else a
    if level == 0:      # literal
        a = gen_filter(r, -1)
        return ["not", a] if r.random() < 0.25 else a
    k = r.choice(["all", "http", "http", "tcp", "udp", "dns", "websocket", "e", "e", "q", "s", "s", "marked", "m", "d", "c"])
    if k == "m":
        return ["m", r.choice(["GET", "POST"])]
    if k == "d":
        return ["d", r.choice(["alpha", "beta"])]
    if k == "c":
        return ["c", r.choice([200, 404, 101])]
    return [k]


class MFlow:
    __slots__ = ("fid", "type", "method", "host", "code", "ws_on", "resp", "err", "nmsg", "marked", "ver",
                 "completions")

    def __init__(self, fd):
        self.fid = fd["id"]
        self.type = fd["type"]
        self.method = fd.get("method", "GET")
        self.host = fd.get("host", HOSTS[0])
        self.code = 101 if self.type == "ws" else fd.get("code", 200)
        self.ws_on = False
        self.resp = False
        self.err = False
        self.nmsg = 0
        self.marked = False
        self.ver = 0
        self.completions = 0

    @property
    def is_http(self):
        return self.type in ("http", "ws")

    def rec(self):
        return (self.fid, self.ver, self.resp, self.err, self.nmsg)


def matches(ast, f: MFlow) -> bool:
    if ast is None:
        return True
    k = ast[0]
    if k == "all":
        return True
    if k == "not":
        return not matches(ast[1], f)
    if k == "and":
        return matches(ast[1], f) and matches(ast[2], f)
    if k == "or":
        return matches(ast[1], f) or matches(ast[2], f)
    if k == "http":
        return f.is_http
    if k in ("tcp", "udp", "dns"):
        return f.type == k
    if k == "websocket":
        return f.is_http and f.ws_on
    if k == "e":
        return f.err
    if k == "q":
        return (f.is_http or f.type == "dns") and not f.resp
    if k == "s":
        return (f.is_http or f.type == "dns") and f.resp
    if k == "marked":
        return f.marked
    if k == "m":
        return f.is_http and ast[1] in f.method
    if k == "d":
        return f.is_http and ast[1] in f.host
    if k == "c":
        return f.is_http and f.resp and f.code == int(ast[1])
    raise ValueError(f"unknown filter atom {k}")


# ---------------------------------------------------------------------------
# reference model
# ---------------------------------------------------------------------------
class Model:
    def __init__(self, sc):
        self.flows = {fd["id"]: MFlow(fd) for fd in sc.get("flows", [])}
        self.now = float(sc.get("t0", 0))
        self.active = False
        self.spec = None
        self.filt = None
        self.cur = None
        self.open: list[str] = []          # started while saving active, not yet completed
        self.img: dict[str, list] = {}     # path -> [(opindex, sorted records)]
        self.files: set[str] = set()
        self.dirs: set[str] = {"/", "/sim"}
        self.rejected = 0
        self.rejected_path_while_active = 0    # updates to an unusable path that were rejected while saving was on
        self.finished = False
        self.probes: dict[str, int] = {}
        self.flushed_once: set[str] = set()
        for path, k in sorted(sc.get("pre", {}).items()):
            self.files.add(path)
            self.img[path] = [(-1, [("pre", j) for j in range(k)])]
        self.started_earlier: list[str] = []   # started while saving was active in an earlier session, still open

    def probe(self, n):
        self.probes[n] = self.probes.get(n, 0) + 1

    # -- namespace --------------------------------------------------------------
    def _can_open(self, p: str) -> bool:
        if p in self.dirs:
            return False
        a = posixpath.dirname(p)
        while a != "/":
            if a in self.files:
                return False
            a = posixpath.dirname(a)
        return True

    def _open(self, p: str, spec: str, i: int):
        a = posixpath.dirname(p)
        while a not in self.dirs:
            self.dirs.add(a)
            a = posixpath.dirname(a)
        append = spec.startswith("+")
        if p in self.files:
            if not append:
                if self.img.get(p):
                    self.probe("truncate_wb")
                self.img[p] = []
            elif self.img.get(p):
                self.probe("append_preexisting")
        else:
            self.files.add(p)
            self.img[p] = []
        self.cur = p

    def _emit(self, i, recs, out):
        if not recs:
            return
        self.img.setdefault(self.cur, []).append((i, sorted(recs)))
        out["recs"].extend((self.cur, r) for r in recs)

    def adopt(self, i, path, rec):
        """An allowed-but-not-required record was written: it is part of the expected image from now on."""
        groups = self.img.setdefault(path, [])
        if groups and groups[-1][0] == i:
            groups[-1] = (i, sorted(groups[-1][1] + [rec], key=repr))
        else:
            groups.append((i, [rec]))

    def _stop(self, i, out):
        recs = []
        for fid in self.open:
            f = self.flows[fid]
            if matches(self.filt, f):
                recs.append(f.rec())
                self.flushed_once.add(fid)
        if recs:
            self.probe("stop_flush_nonempty")
        self._emit(i, recs, out)
        # The statement can also be read as "every flow that started during *some* saving session and is still
        # open is written at every stop": such records are allowed, not required.
        for fid in self.started_earlier:
            f = self.flows[fid]
            if fid not in self.open and matches(self.filt, f):
                out["opt"].append((self.cur, f.rec()))
        self.started_earlier += [fid for fid in self.open if fid not in self.started_earlier]
        self.open = []
        self.active = False
        self.cur = None
        out["stop"] = True

    # -- operations ---------------------------------------------------------------
    def apply(self, i: int, op: dict, observed_reject=None) -> dict:
        """Returns {"recs": [(path, rec)], "reject": bool|None, "stop": bool, "exit": bool, "kind": str}."""
        out = {"recs": [], "opt": [], "reject": None, "stop": False, "exit": False, "kind": op.get("op"), "flow": None,
               "completion": False, "active_before": self.active}
        k = op.get("op")
        if self.finished:
            out["kind"] = "skip"
            return out
        if k == "adv":
            self.now += float(op.get("dt", 0))
        elif k == "mark":
            f = self.flows.get(op.get("f"))
            if f is None:
                out["kind"] = "skip"
            else:
                f.marked = bool(op.get("v", True))
        elif k == "done":
            out["kind"] = "done"
            if self.active:
                self._stop(i, out)
            self.finished = True
        elif k == "set":
            self._set(i, op, out, observed_reject)
        elif k == "hook":
            self._hook(i, op, out)
        else:
            out["kind"] = "skip"
        return out

    def _set(self, i, op, out, observed_reject):
        has_file = "file" in op
        has_filt = "filter" in op
        if not has_file and not has_filt:
            out["kind"] = "skip"
            return
        out["kind"] = "set"
        new_spec = op["file"] if has_file else self.spec
        new_filt = op["filter"] if has_filt else self.filt
        reject = False
        why = None
        if has_filt and is_bad(new_filt):
            reject, why = True, "bad_filter"
        elif new_spec is not None:
            p = fmt_path(new_spec, self.now)
            if p != self.cur and not self._can_open(p):
                reject, why = True, "bad_path"
        if observed_reject and not reject:
            reject, why = True, "io_fault"
        out["reject"] = reject
        out["why"] = why
        if reject:
            self.rejected += 1
            if why != "bad_filter" and self.active:
                self.rejected_path_while_active += 1
            if why:
                self.probe("reject_" + why)
            # the rollback re-applies the old options, which samples the formatted path once more
            if self.active:
                p = fmt_path(self.spec, self.now)
                if p != self.cur and self._can_open(p):
                    self.probe("rotation")
                    self._open(p, self.spec, i)
            return
        if has_filt and new_filt != self.filt:
            self.probe("filter_change")
        self.filt = new_filt
        self.spec = new_spec
        if new_spec is None:
            if self.active:
                self._stop(i, out)
            return
        p = fmt_path(new_spec, self.now)
        if p != self.cur:
            if self.active:
                self.probe("rotation")
            self._open(p, new_spec, i)
        self.active = True

    def _hook(self, i, op, out):
        f = self.flows.get(op.get("f"))
        h = op.get("h")
        if f is None or h not in VALID[f.type]:
            out["kind"] = "skip"
            return
        out["kind"] = h
        out["flow"] = f
        f.ver += 1
        if h in ("responseheaders", "response", "dns_response"):
            f.resp = True
        if h == "response" and f.type == "ws":
            f.ws_on = True
        if h.startswith("websocket_"):
            f.ws_on = True
        if h in ("error", "tcp_error", "udp_error", "dns_error"):
            f.err = True
        if h.endswith("_message"):
            f.nmsg += 1
        if h in START_HOOKS and self.active and f.fid not in self.open:
            self.open.append(f.fid)
        if h in ("response", "error"):
            completion = not f.ws_on
        else:
            completion = h in ("websocket_end", "tcp_end", "tcp_error", "udp_end", "udp_error", "dns_response",
                               "dns_error")
        out["completion"] = completion
        if not completion:
            return
        f.completions += 1
        if f.completions > 1:
            self.probe("offspec_double_completion")
        if f.fid in self.started_earlier:
            self.started_earlier.remove(f.fid)
        if not self.active:
            self.probe("completion_while_inactive")
            return
        p = fmt_path(self.spec, self.now)
        if p != self.cur:
            if not self._can_open(p):
                out["exit"] = True
                return
            self.probe("rotation")
            self._open(p, self.spec, i)
        if matches(self.filt, f):
            if f.fid in self.flushed_once:
                self.probe("restart_rewrites_open_flow")
            if h == "websocket_end":
                self.probe("ws_end_record")
            self._emit(i, [f.rec()], out)
        else:
            self.probe("nonmatching_completion")
        if f.fid in self.open:
            self.open.remove(f.fid)


# ---------------------------------------------------------------------------
# generator
# ---------------------------------------------------------------------------
def _flow_script(r, fd):
    t = fd["type"]
    fid = fd["id"]
    H = lambda h: {"op": "hook", "f": fid, "h": h}
    ev = []
    if t in ("http", "ws"):
        ev = ["requestheaders", "request", "responseheaders", "response"]
        if t == "ws":
            ev += ["websocket_start"] + ["websocket_message"] * r.choice([0, 1, 2, 3]) + ["websocket_end"]
        x = r.random()
        if x < 0.25:
            # error at some point before the response (or, for ws, before the upgrade completed)
            cut = r.choice([1, 2, 2, 3])
            ev = ev[:cut] + ["error"]
        elif x < 0.40:
            ev = ev[:r.randrange(1, len(ev))]        # never completes: open at shutdown
        elif x < 0.45 and t == "http":
            ev = ev + ["error"]                      # off-automaton: both outcomes
    elif t in ("tcp", "udp"):
        ev = [t + "_start"] + [t + "_message"] * r.choice([0, 1, 2, 4])
        x = r.random()
        if x < 0.6:
            ev.append(t + "_end")
        elif x < 0.85:
            ev.append(t + "_error")
        elif x < 0.9:
            ev += [t + "_error", t + "_end"]         # off-automaton
    else:
        ev = ["dns_request"]
        x = r.random()
        if x < 0.1:
            ev.append("dns_request")                 # retransmitted query re-enters the hook
        y = r.random()
        if y < 0.6:
            ev.append("dns_response")
        elif y < 0.85:
            ev.append("dns_error")
        elif y < 0.92:
            ev += ["dns_response", "dns_response"]
    return [H(h) for h in ev]


def _control_script(r, family, nctl):
    ops = []
    first = r.random() < 0.8
    spec0 = r.choice(SPECS)
    if first:
        op = {"op": "set", "file": spec0}
        if r.random() < 0.4:
            op["filter"] = gen_filter(r)
        ops.append(op)
    for _ in range(nctl):
        x = r.random()
        if x < 0.22:
            ops.append({"op": "set", "filter": r.choice([None, gen_filter(r), gen_filter(r), gen_filter(r)])})
        elif x < 0.27:
            ops.append({"op": "set", "filter": r.choice([["bad"], ["and", ["http"], ["bad"]]])})
        elif x < 0.40:
            ops.append({"op": "set", "file": r.choice(SPECS + [spec0, spec0])})
        elif x < 0.50:
            ops.append({"op": "set", "file": None})
        elif x < 0.56:
            ops.append({"op": "set", "file": r.choice(SPECS + [spec0]), "filter": r.choice([None, gen_filter(r)])})
        elif x < 0.86:
            ops.append({"op": "adv", "dt": r.choice([0.2, 1, 7, 30, 61, 61, 3600, 90000])})
        elif x < 0.92:
            ops.append({"op": "mark", "f": None, "v": r.random() < 0.8})
        else:
            if family == "badpath":
                ops.append({"op": "set", "file": r.choice(BAD_SPECS)})
            else:
                ops.append({"op": "adv", "dt": r.choice([1, 59, 60])})
    if family == "badpath":
        for _ in range(r.choice([1, 1, 2])):
            op = {"op": "set", "file": r.choice(BAD_SPECS)}
            if r.random() < 0.2:
                op["filter"] = gen_filter(r)
            ops.insert(r.randrange(1 if first else 0, len(ops) + 1), op)
    return ops


def generate(rng, tier):
    r = rng.at("c39")
    family = r.choices(["free", "faulty", "badpath"], [50, 35, 15])[0]
    nflows = r.choice([1, 2, 2, 3, 3, 4, 5, 6] + ([8, 10] if tier == "thorough" else []))
    flows = []
    for k in range(nflows):
        t = r.choice(["http", "http", "ws", "tcp", "udp", "dns"])
        fd = {"id": f"{t}{k}", "type": t, "h": r.randrange(1 << 30), "big": r.choice(BIG)}
        if t in ("http", "ws"):
            fd["method"] = r.choice(["GET", "POST"])
            fd["host"] = r.choice(HOSTS)
            fd["code"] = r.choice([200, 200, 404])
        flows.append(fd)
    actors = [_flow_script(r, fd) for fd in flows]
    ctl = _control_script(r, family, r.choice([0, 1, 2, 3, 4, 6, 8] + ([12, 16] if tier == "thorough" else [])))
    for op in ctl:
        if op["op"] == "mark":
            op["f"] = r.choice(flows)["id"]
    actors.append(ctl)
    sched = rng.at("c39-sched")
    ops = []
    live = [a for a in actors if a]
    while live:
        w = [len(a) for a in live]
        a = sched.choices(live, w)[0]
        ops.append(a.pop(0))
        if not a:
            live.remove(a)
    x = r.random()
    if x < 0.6:
        ops.append({"op": "done"})
    elif x < 0.85 and ops:
        ops = ops[:r.randrange(1, len(ops) + 1)] + [{"op": "done"}]
    pre = {}
    for p in ("/sim/out.mitm", "/sim/other.mitm"):
        if r.random() < 0.3:
            pre[p] = r.choice([1, 2])
    sc = {"family": family, "flows": flows, "ops": ops, "faults": [], "pre": pre, "t0": r.choice([0, 0, 30, 55, 115, 119])}
    if family in ("faulty", "badpath"):
        m = Model(sc)
        nrec = 0
        nopen = 0
        for i, op in enumerate(ops):
            before = m.cur
            nrec += len(m.apply(i, op)["recs"])
            if m.cur != before and m.cur is not None:
                nopen += 1
        fr = rng.at("c39-faults")
        if family == "faulty":
            for _ in range(fr.choice([1, 1, 1, 2])):
                nth = fr.randrange(1, max(nrec, 1) + 1)
                x = fr.random()
                if x < 0.4:
                    sc["faults"].append({"kind": "eio", "nth": nth, "count": fr.choice([1, 1, 2, 1000])})
                elif x < 0.9:
                    sc["faults"].append({"kind": "enospc", "nth": nth, "partial": fr.choice([0, 1, 7, 100, 1000, 8192]),
                                         "count": fr.choice([1, 1, 2, 1000])})
                else:
                    sc["faults"].append({"kind": "open", "nth": fr.randrange(1, max(nopen, 1) + 1),
                                         "errno": fr.choice(["EACCES", "ENOSPC", "EMFILE"])})
    return sc


# ---------------------------------------------------------------------------
# executor
# ---------------------------------------------------------------------------
_RT = None


def _runtime():
    """Import mitmproxy lazily and build the flow classes / hook table once per process."""
    global _RT
    if _RT is not None:
        return _RT
    import datetime as _dt
    from mitmproxy import connection, dns, exceptions, flow, hooks, http, master, options, tcp, udp, websocket
    from mitmproxy.addons import save
    from mitmproxy.proxy.layers import dns as ldns, http as lhttp, tcp as ltcp, udp as ludp, websocket as lws
    from mitmproxy.proxy.mode_specs import ProxyMode
    from mitmproxy.test import tutils
    from wsproto.frame_protocol import Opcode

    class _H:
        def __hash__(self):
            return self._c39_hash

    class HF(_H, http.HTTPFlow):
        pass

    class TF(_H, tcp.TCPFlow):
        pass

    class UF(_H, udp.UDPFlow):
        pass

    class DF(_H, dns.DNSFlow):
        pass

    class RT:
        pass

    rt = RT()
    rt.dt = _dt
    rt.classes = {"http": HF, "ws": HF, "tcp": TF, "udp": UF, "dns": DF}
    rt.hook_cls = {
        "requestheaders": lhttp.HttpRequestHeadersHook, "request": lhttp.HttpRequestHook,
        "responseheaders": lhttp.HttpResponseHeadersHook, "response": lhttp.HttpResponseHook,
        "error": lhttp.HttpErrorHook,
        "websocket_start": lws.WebsocketStartHook, "websocket_message": lws.WebsocketMessageHook,
        "websocket_end": lws.WebsocketEndHook,
        "tcp_start": ltcp.TcpStartHook, "tcp_message": ltcp.TcpMessageHook, "tcp_end": ltcp.TcpEndHook,
        "tcp_error": ltcp.TcpErrorHook,
        "udp_start": ludp.UdpStartHook, "udp_message": ludp.UdpMessageHook, "udp_end": ludp.UdpEndHook,
        "udp_error": ludp.UdpErrorHook,
        "dns_request": ldns.DnsRequestHook, "dns_response": ldns.DnsResponseHook, "dns_error": ldns.DnsErrorHook,
    }
    for n in ("connection", "dns", "exceptions", "flow", "hooks", "http", "master", "options", "tcp", "udp",
              "websocket", "save", "ProxyMode", "tutils", "Opcode"):
        setattr(rt, n, locals()[n])
    _RT = rt
    return rt


class _Clock:
    def __init__(self, t0):
        self.now = float(t0)


def _make_flow(rt, fd, clock):
    t = fd["type"]
    fid = fd["id"]
    ts = 1789999080.0 + clock.now
    cc = rt.connection.Client(id="c-" + fid, peername=("10.0.0.1", 40000), sockname=("10.0.0.2", 8080),
                              timestamp_start=ts, state=rt.connection.ConnectionState.OPEN,
                              proxy_mode=rt.ProxyMode.parse("regular"))
    sc = rt.connection.Server(id="s-" + fid, address=(fd.get("host", "alpha.test"), 80), timestamp_start=ts)
    if t == "dns":
        cc.transport_protocol = "udp"
        sc.transport_protocol = "udp"
    f = rt.classes[t](cc, sc)
    f._c39_hash = int(fd.get("h", 0))
    f.id = fid
    f.timestamp_created = ts
    f.live = True
    big = int(fd.get("big", 0))
    if t in ("http", "ws"):
        hdrs = {}
        if t == "ws":
            hdrs = {"Connection": "upgrade", "Upgrade": "websocket", "Sec-WebSocket-Version": "13",
                    "Sec-WebSocket-Key": "MTIzNA=="}
        f.request = rt.http.Request.make(fd.get("method", "GET"), "http://%s/%s" % (fd.get("host", "alpha.test"), fid),
                                         b"q" * (big if fd.get("method") == "POST" else 0), hdrs)
    elif t == "dns":
        f.request = rt.tutils.tdnsreq(timestamp=ts)
    return f


def _mutate(rt, f, fd, h, clock):
    """What the proxy layers do to the flow before firing hook ``h``."""
    ts = 1789999080.0 + clock.now
    t = fd["type"]
    big = int(fd.get("big", 0))
    f.metadata["v"] = f.metadata.get("v", 0) + 1
    if h in ("responseheaders", "response"):
        if f.response is None:
            if t == "ws":
                f.response = rt.http.Response.make(101, b"", {"Connection": "upgrade", "Upgrade": "websocket"})
            else:
                f.response = rt.http.Response.make(int(fd.get("code", 200)), b"")
        if h == "response":
            if t != "ws":
                f.response.content = b"r" * (big if fd.get("method") != "POST" else 3)
            else:
                if f.websocket is None:
                    f.websocket = rt.websocket.WebSocketData()
    if h.startswith("websocket_"):
        if f.websocket is None:
            f.websocket = rt.websocket.WebSocketData()
        if h == "websocket_message":
            n = len(f.websocket.messages)
            f.websocket.messages.append(rt.websocket.WebSocketMessage(rt.Opcode.TEXT, n % 2 == 0,
                                                                      b"w" * (big if n == 0 else 5), ts))
        if h == "websocket_end":
            f.websocket.close_code = 1000
            f.websocket.closed_by_client = True
            f.websocket.timestamp_end = ts
            f.live = False
    if h in ("tcp_message", "udp_message"):
        n = len(f.messages)
        cls = rt.tcp.TCPMessage if t == "tcp" else rt.udp.UDPMessage
        f.messages.append(cls(n % 2 == 0, b"m" * (big if n == 0 else 4), ts))
    if h in ("error", "tcp_error", "udp_error", "dns_error"):
        f.error = rt.flow.Error("connection lost", ts)
        f.live = False
    if h in ("tcp_end", "udp_end", "response") and t != "ws":
        f.live = False
    if h == "dns_response":
        f.response = rt.tutils.tdnsresp(timestamp=ts)
        f.live = False


def _canon(d):
    """Independent view of one stored record."""
    if not isinstance(d, dict):
        return ("garbage", repr(d)[:20])
    if d.get("type") == "pre":
        return ("pre", d.get("k"))
    nmsg = 0
    if isinstance(d.get("messages"), list):
        nmsg = len(d["messages"])
    ws = d.get("websocket")
    if isinstance(ws, dict) and isinstance(ws.get("messages"), list):
        nmsg = len(ws["messages"])
    md = d.get("metadata") if isinstance(d.get("metadata"), dict) else {}
    return (d.get("id"), md.get("v"), d.get("response") is not None, d.get("error") is not None, nmsg)


class _LogTap(logging.Handler):
    def __init__(self):
        super().__init__(level=logging.WARNING)
        self.records = []

    def emit(self, record):
        et = None
        if record.exc_info and record.exc_info[0] is not None:
            et = record.exc_info[0].__name__
        self.records.append((record.levelname, et, record.getMessage()[:200]))


class _Watch:
    """Incremental reader of the MemFS images: which complete records appeared during which operation."""

    def __init__(self, fs):
        self.fs = fs
        self.state = {}     # path -> [gen, offset, groups, status]

    def poll(self, i):
        new = []
        truncated = []
        for path in sorted(self.fs.files):
            st = self.state.get(path)
            g = self.fs.gen[path]
            if st is None or st[0] != g:
                if st is not None:
                    truncated.append(path)
                st = self.state[path] = [g, 0, [], "clean"]
            data = self.fs.files[path]
            if len(data) == st[1]:
                continue
            vals, pos, status = FS.parse_stream(data, st[1])
            st[1] = pos
            st[3] = status
            if vals:
                recs = [_canon(v) for v in vals]
                st[2].append((i, sorted(recs, key=repr)))
                new.extend((path, rc) for rc in recs)
        return new, truncated

    def image(self, path):
        st = self.state.get(path)
        return st[2] if st else []

    def dirty(self):
        return sorted((p, st[3]) for p, st in self.state.items() if st[3] != "clean")


def _norm_img(groups):
    return [(i, sorted(recs, key=repr)) for i, recs in groups]


def execute(sc):
    rt = _runtime()
    from simkit import vloop
    import time as _time

    fs = FS.MemFS(sc.get("faults"))
    fs.add_dir("/sim")
    for path, k in sorted(sc.get("pre", {}).items()):
        fs.add_file(path, b"".join(FS.tn_dump({"type": "pre", "k": j, "id": "pre"}) for j in range(k)))
    clock = _Clock(sc.get("t0", 0))
    model = Model(sc)
    fdefs = {fd["id"]: fd for fd in sc.get("flows", [])}
    ops = sc.get("ops", [])
    watch = _Watch(fs)
    watch.poll(-1)
    tap = _LogTap()

    base = rt.dt.datetime(*BASE)

    class FakeDT:
        @staticmethod
        def today():
            return base + rt.dt.timedelta(seconds=clock.now)

    class FakeSys:
        stderr = io.StringIO()

        @staticmethod
        def exit(code=0):
            raise SystemExit(code)

    S = rt.save
    saved = (S.Path, S.datetime, S.sys, _time.time)
    S.Path = fs.path_factory()
    S.datetime = FakeDT
    S.sys = FakeSys
    _time.time = lambda: 1789999080.0 + clock.now
    S._path.cache_clear()
    S._mode.cache_clear()
    root = logging.getLogger()
    root.addHandler(tap)

    log = []            # abstract event log (digest)
    viol = []
    states = set()
    probes = {}
    ctx = {"diverged": False, "relaxed_from": None, "exp_after": collections.Counter(),
           "act_after": collections.Counter(), "fault_op": None, "first_fault_op": None, "exited": False, "nfired": 0,
           "relaxed_violation": False}

    def probe(n):
        probes[n] = probes.get(n, 0) + 1

    def add_v(cls, key, msg):
        if key.get("__after_rejected_path_update__"):
            cls, key, msg = "diverged_after_rejected_path_update", {}, f"[{cls}] {msg}"
        viol.append({"class": cls, "key": key, "msg": msg})

    def check(i, op, out, rejected, exited, nlog0):
        """Compare what the operation did to the files with what the model emitted."""
        new, truncated = watch.poll(i)
        kind = out["kind"]
        f = out.get("flow")
        ftype = f.type if f is not None else None
        errs = tap.records[nlog0:]
        faulted = fs.first_fault_seq is not None
        nfired = sum(fs.fired.values())
        if nfired != ctx["nfired"]:
            # where the most recent fault hit: this names the failure mode of whatever goes wrong next
            ctx["nfired"] = nfired
            ctx["fault_op"] = "flush" if (out["stop"] or kind == "done") else ("completion" if out["completion"] else kind)
            if ctx["first_fault_op"] is None:
                ctx["first_fault_op"] = ctx["fault_op"]
            if out["stop"] or kind == "done":
                probe("fault_in_flush")
        if faulted and ctx["relaxed_from"] is None:
            ctx["relaxed_from"] = i
        log.append((i, kind, op.get("f"), rejected, exited, sorted(new, key=repr), sorted(truncated),
                    [e[1] for e in errs]))
        if f is not None:
            states.add(f"{ftype}:{kind}:{'A' if out['active_before'] else 'I'}:{len(out['recs'])}")
        elif kind in ("set", "done"):
            states.add(f"{kind}:{'A' if out['active_before'] else 'I'}:{out['reject']}:{min(len(out['recs']), 3)}")
        relaxed = ctx["relaxed_from"] is not None
        if relaxed:
            ctx["exp_after"].update(rc for _, rc in out["recs"])
            ctx["exp_after"].update(rc for _, rc in out["opt"])
            # A torn record followed by later appended bytes can happen to parse as a well-formed value that is not a
            # flow (its length prefix swallows part of what follows).  The real reader refuses such a value exactly like
            # an unreadable tail, so it is the torn write seen again, not a record.
            if any(rc[0] == "garbage" for _, rc in new):
                probe("non_flow_value_in_torn_region")
            ctx["act_after"].update(rc for _, rc in new if rc[0] != "garbage")
            # Records may be missing from the failing write on (an unreadable tail counts as missing) and may
            # reach the disk later than expected (buffering); what is readable must at every moment be a
            # sub-multiset of what the model allows so far: nothing duplicated, nothing wrong.
            exp_a, act_a = ctx["exp_after"], ctx["act_after"]
            if not ctx["relaxed_violation"]:
                for rc in sorted(act_a - exp_a, key=repr):
                    ctx["relaxed_violation"] = True
                    what = "duplicate" if exp_a.get(rc, 0) >= 1 else "unexpected"
                    # failure mode: a failed write in save_flow always ends in sys.exit + done hook; without an
                    # exit the chain starts where the first fault hit (flush inside done(), or an option update)
                    during = "completion" if ctx["exited"] else ctx["first_fault_op"]
                    add_v("extra_record_after_fault", {"during": during, "exited": ctx["exited"]},
                          f"op {i} {op}: {what} record after the injected fault ({dict(fs.fired)}, first during op "
                          f"{ctx['relaxed_from']}, last during a '{ctx['fault_op']}') record {rc} appeared "
                          f"{act_a[rc]}x, the model allows at most {exp_a.get(rc, 0)}x "
                          f"(allowed so far: {sorted(exp_a, key=repr)})")
                    break
            return
        if ctx["diverged"]:
            return
        after_reject = model.rejected_path_while_active > 0

        def rkey(d):
            # Whatever goes wrong with the records once an update to an unusable path was rejected while saving
            # was on is one failure mode (add_v turns the marker into a class of its own).
            return {"__after_rejected_path_update__": True} if after_reject else d
        # --- addon errors / exits / option results -------------------------------------------------
        for lvl, et, msg in errs:
            if lvl in ("ERROR", "CRITICAL"):
                if not ctx.get("addon_error_seen"):
                    add_v("addon_error", {"exc": et, "at": kind, "rejected_update": bool(out["reject"])},
                          f"op {i} {op}: error logged while no storage fault was injected: {msg}")
                ctx["addon_error_seen"] = True
        if exited != out["exit"]:
            add_v("unexpected_exit", {"at": kind, "expected": out["exit"]},
                  f"op {i} {op}: SystemExit raised={exited}, model expects {out['exit']}")
            ctx["diverged"] = True
        if kind == "set" and out["reject"] != rejected:
            add_v("option_update_result", {"expected_reject": out["reject"], "why": out.get("why")},
                  f"op {i} {op}: OptionsError raised={rejected}, model expects rejection={out['reject']} ({out.get('why')})")
            ctx["diverged"] = True
        # --- records emitted by this operation -----------------------------------------------------
        exp = collections.Counter(out["recs"])
        act = collections.Counter(new)
        extra_all = act - exp
        if extra_all and not (extra_all - collections.Counter(out["opt"])):
            for (path, rc), n in sorted(extra_all.items(), key=repr):
                for _ in range(n):
                    model.adopt(i, path, rc)
            probe("optional_record_written")
            exp = exp + extra_all
        if exp != act:
            ctx["diverged"] = True
            e2 = collections.Counter(rc for _, rc in out["recs"])
            a2 = collections.Counter(rc for _, rc in new)
            where = "flush" if (out["stop"] or kind == "done") else kind
            if e2 == a2:
                add_v("wrong_file", rkey({"at": where}),
                      f"op {i} {op}: records went to {sorted(set(p for p, _ in new))}, expected {sorted(set(p for p, _ in out['recs']))}")
            extra = a2 - e2
            missing = e2 - a2
            exp_ids = {rc[0]: rc for rc in e2}
            for rc in sorted(extra, key=repr):
                mf = model.flows.get(rc[0])
                t = mf.type if mf else None
                if rc[0] in exp_ids and exp_ids[rc[0]] in missing:
                    add_v("stale_record", rkey({"at": where, "type": t}),
                          f"op {i} {op}: stored record {rc} does not show the flow as it was at that moment {exp_ids[rc[0]]}")
                    missing = missing - collections.Counter([exp_ids[rc[0]]])
                elif e2.get(rc, 0) >= 1:
                    add_v("duplicate_record", rkey({"at": where, "type": t}),
                          f"op {i} {op}: record {rc} written {a2[rc]} times, expected {e2[rc]}")
                elif not out["active_before"]:
                    add_v("written_while_inactive", rkey({"at": where, "type": t}),
                          f"op {i} {op}: record {rc} written although save_stream_file is unset")
                elif f is not None and not out["completion"]:
                    add_v("written_before_completion", rkey({"at": where, "type": t}),
                          f"op {i} {op}: record {rc} written by a hook that does not complete the flow")
                elif mf is not None and not matches(model.filt, mf):
                    add_v("nonmatching_written", rkey({"at": where, "type": t}),
                          f"op {i} {op}: record {rc} of a flow that does not match save_stream_filter {model.filt}")
                else:
                    add_v("unexpected_record", rkey({"at": where, "type": t}),
                          f"op {i} {op}: record {rc} not expected (expected {sorted(e2, key=repr)})")
            for rc in sorted(missing, key=repr):
                mf = model.flows.get(rc[0])
                t = mf.type if mf else None
                if where == "flush":
                    add_v("open_flow_not_flushed", rkey({"at": kind, "type": t}),
                          f"op {i} {op}: open flow {rc} was not written when saving stopped (got {sorted(a2, key=repr)})")
                else:
                    add_v("completion_not_written", rkey({"at": kind, "type": t}),
                          f"op {i} {op}: completion of matching flow {rc} appended no record (got {sorted(a2, key=repr)})")
            return
        # --- file images -------------------------------------------------------------------------------
        for path in sorted(set(model.img) | set(fs.files)):
            want = _norm_img(model.img.get(path, []))
            got = _norm_img(watch.image(path))
            if want != got:
                ctx["diverged"] = True
                mode = "ab" if (model.spec or "").startswith("+") else "wb"
                nw = sum(len(g[1]) for g in want)
                ng = sum(len(g[1]) for g in got)
                add_v("file_image_mismatch", rkey({"at": kind, "mode": mode, "what": "lost" if ng < nw else "extra"}),
                      f"op {i} {op}: content of {path} is {got}, expected {want} (truncated now: {truncated})")
                break
        d = watch.dirty()
        if d and not ctx["diverged"]:
            ctx["diverged"] = True
            add_v("partial_record", {"at": kind, "status": d[0][1]},
                  f"op {i} {op}: {d[0][0]} does not end at a record boundary ({d[0][1]})")

    async def body(loop):
        opts = rt.options.Options()
        m = rt.master.Master(opts, event_loop=loop)
        try:
            sa = S.Save()
            m.addons.add(sa)
            flows = {}
            i = -1
            for i, op in enumerate(ops):
                fs.seq = i
                k = op.get("op")
                nlog0 = len(tap.records)
                rejected = None
                exited = False
                fired0 = fs.first_fault_seq
                try:
                    if k == "adv":
                        clock.now += float(op.get("dt", 0))
                    elif k == "mark":
                        fo = flows.get(op.get("f"))
                        if fo is None and op.get("f") in fdefs:
                            fo = flows[op["f"]] = _make_flow(rt, fdefs[op["f"]], clock)
                        if fo is not None:
                            fo.marked = ":default:" if op.get("v", True) else ""
                    elif k == "set":
                        kw = {}
                        if "file" in op:
                            kw["save_stream_file"] = op["file"]
                        if "filter" in op:
                            kw["save_stream_filter"] = None if op["filter"] is None else render(op["filter"])
                        if kw:
                            try:
                                opts.update(**kw)
                                rejected = False
                            except rt.exceptions.OptionsError:
                                rejected = True
                    elif k == "hook":
                        fd = fdefs.get(op.get("f"))
                        h = op.get("h")
                        if fd is not None and h in VALID[fd["type"]]:
                            fo = flows.get(fd["id"])
                            if fo is None:
                                fo = flows[fd["id"]] = _make_flow(rt, fd, clock)
                            _mutate(rt, fo, fd, h, clock)
                            await m.addons.handle_lifecycle(rt.hook_cls[h](fo))
                    elif k == "done":
                        await m.addons.trigger_event(rt.hooks.DoneHook())
                except SystemExit:
                    exited = True
                    probe("exit_on_write_error")
                faulted = fs.first_fault_seq is not None
                out = model.apply(i, op, observed_reject=rejected if (faulted and k == "set") else None)
                check(i, op, out, rejected, exited, nlog0)
                if exited:
                    ctx["exited"] = True
                    # Master.run(): sys.exit cancels the main task, whose finally block runs the done hook
                    j = len(ops)
                    fs.seq = j
                    nlog0 = len(tap.records)
                    ex2 = False
                    try:
                        await m.addons.trigger_event(rt.hooks.DoneHook())
                    except SystemExit:
                        ex2 = True
                    out = model.apply(j, {"op": "done"})
                    check(j, {"op": "done"}, out, None, ex2, nlog0)
                    break
                if k == "done":
                    break
            # process exit: remaining file objects are finalised
            j = len(ops) + 1
            fs.seq = j
            nlog0 = len(tap.records)
            left = fs.open_handles()
            for hnd in left:
                try:
                    hnd.close()
                except OSError:
                    pass
            out = {"recs": [], "opt": [], "reject": None, "stop": False, "exit": False, "kind": "exit", "flow": None,
                   "completion": False, "active_before": model.active}
            check(j, {"op": "exit"}, out, None, False, nlog0)
        finally:
            m._legacy_log_events.uninstall()
        return loop.time()

    try:
        sim_s = vloop.run(body)
    finally:
        root.removeHandler(tap)
        S.Path, S.datetime, S.sys, _time.time = saved
        S._path.cache_clear()
        S._mode.cache_clear()

    # ---- relaxed oracle after an injected I/O error ------------------------------------------------
    if ctx["relaxed_from"] is not None:
        if any(status == "corrupt" for _, status in watch.dirty()):
            probe("unreadable_tail_after_fault")

    for k, v in model.probes.items():
        probes[k] = probes.get(k, 0) + v
    nrec = sum(len(e[5]) for e in log)
    nctl = sum(1 for e in log if e[1] in ("set", "done"))
    nhook = sum(1 for e in log if e[2] is not None and e[1] not in ("mark", "skip"))
    log.append(("fired", sorted(fs.fired.items())))
    faults = dict(fs.fired)
    if model.probes.get("reject_bad_path"):
        faults["bad_path"] = model.probes["reject_bad_path"]
    return {"violations": viol, "digest": digest(log), "nontrivial": nrec > 0 and nctl > 0 and nhook > 1,
            "faults": faults, "probes": probes, "sim_s": float(clock.now - float(sc.get("t0", 0))),
            "states": states, "trace": log}
