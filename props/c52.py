"""C52 — server replay serves recorded responses only to matching requests, in recording order.

History = recorded flow sets (colliding / near-colliding keys, response-less and non-HTTP flows)
+ a sequence of requests, option changes (re-index), ``replay.server.add`` / ``replay.server`` /
``replay.server.stop`` commands and ``replay.server.count`` observations.  The real
``ServerPlayback`` addon runs inside a real ``Master`` (options, commands, addon manager) and is
driven through the ``request`` hook with real ``HTTPFlow`` objects.  The oracle is a reference model
keyed by the matching tuple of the property statement (written from the statement, not from
``_hash``).
"""
from __future__ import annotations

import copy

from models import c5x_host as HOST
from simkit.world import digest

ID = "C52"
LEVEL = "exploration"
ENGINE = "simkit/model-world"
QUICK_RUNS = 40000
QUICK_BUDGET_S = 120
THOROUGH_BUDGET_S = 900
CHUNK = 400
RULE = ("seeded family of 3-6 near-colliding request shapes (each differs from a base in 1-2 of method/scheme/host/port/"
        "path/query value/ignored query param/body/form field/ignored form field/header; urlencoded and multipart forms "
        "with a field name occurring 2-3 times, differing in the first / a middle / the last occurrence, in the order of "
        "the same multiset, in the number of occurrences or in the encoding; ~30% of the families are centred on such a "
        "form) -> 2-8 recordings drawn from the "
        "family with repetition (colliding keys), ~20% without response, rare TCP flows; 3-12 ops: requests drawn from the "
        "family, option changes over every matching option + reuse/extra/kill_extra/refresh, add/load/stop commands, count "
        "observations; non-trivial = at least one recording served AND (an option change re-indexed a non-empty set OR a "
        "colliding key was hit OR an unmatched request was handled); distinct = distinct digests of the per-op outcome log")
COMPONENTS_REAL = ["Master", "AddonManager", "CommandManager", "OptManager", "Core", "ServerPlayback", "HTTPFlow/Request/Response"]
COMPONENTS_STUB = ["event loop clock (VLoop)", "time.time (sim clock)", "proxy core (hooks delivered by the harness through "
                   "AddonManager.handle_lifecycle)", "flow file loading (recordings are handed over with the replay.server commands)"]
ASSUMPTIONS = ["the matching key is the tuple of the statement: method, scheme, path, ordered non-ignored query pairs, host and "
               "port unless ignored, body (or, when payload params are ignored and the body is a non-empty form, the ordered "
               "list of ALL (name, value) pairs whose name is not ignored — every occurrence of a repeated name counts) "
               "unless content is ignored, and the values of the configured headers",
               "'served at most once' counts servings made while reuse is off; under reuse the first not-yet-consumed recording "
               "with a response is the one to serve",
               "when no recording with a response remains the addon may regard replay as inactive: forwarding is accepted then",
               "replay.server.count may or may not include response-less/non-HTTP recordings (bounds check only)",
               "kill_extra together with a numeric server_replay_extra: kill or status are both accepted"]
EXPECTED_PROBES = ["served", "served_colliding_key", "served_after_reindex", "unmatched_forward", "unmatched_kill",
                   "unmatched_status", "reuse_served_again", "responseless_skipped", "reindex_nonempty", "count_checked",
                   "repeated_form_field", "repeated_form_later_occurrence_differs", "served_repeated_form"]

HASH_OPTS = ["server_replay_ignore_content", "server_replay_ignore_host", "server_replay_ignore_params",
             "server_replay_ignore_payload_params", "server_replay_ignore_port", "server_replay_use_headers"]
DEFAULTS = {"server_replay_ignore_content": False, "server_replay_ignore_host": False, "server_replay_ignore_params": [],
            "server_replay_ignore_payload_params": [], "server_replay_ignore_port": False, "server_replay_use_headers": [],
            "server_replay_reuse": False, "server_replay_nopop": False, "server_replay_extra": "forward",
            "server_replay_kill_extra": False, "server_replay_refresh": True}

QUERY_ATOMS = [["x", "1"], ["x", "2"], ["y", "1"], ["y", "2"], ["sid", "s1"], ["sid", "s2"], ["z", ""],
               ["sidx", "1"], ["sidx", "2"],   # "sidx" is never ignored although "sid" often is
               ["a=", "b"], ["a", "=b"], ["x", "1&y=1"], ["x&y", "1"]]   # delimiters inside names/values (sent percent-encoded)
TWINS = {("a=", "b"): ["a", "=b"], ("a", "=b"): ["a=", "b"], ("x", "1&y=1"): ["x&y", "1"], ("x&y", "1"): ["x", "1&y=1"]}
FORM_SETS = [[["u", "1"], ["tok", "t1"]], [["u", "1"], ["tok", "t2"]], [["u", "2"], ["tok", "t1"]],
             [["tok", "t3"], ["u", "1"]], [["u", "1"]], [["u", "1"], ["tokx", "t1"]], [["u", "1"], ["tokx", "t2"]]]
REP_VALUES = ["a", "b", "c"]    # values of a repeated form field ("item" is never ignored, "u" and "tok" sometimes are)
PAYLOAD_IGN = [[], ["tok"], ["tok"], ["u"], ["nope"], ["tok", "u"]]


# ---------------------------------------------------------------------------
# generator
# ---------------------------------------------------------------------------
def _base(r):
    return {"method": r.choice(["GET", "GET", "POST"]), "scheme": r.choice(["http", "https"]),
            "host": r.choice(["a.test", "b.test"]), "port": r.choice([80, 443, 8080]),
            "path": r.choice(["/p", "/p/q", "/"]), "query": [list(q) for q in r.sample(QUERY_ATOMS, r.choice([0, 1, 2, 2]))],
            "ctype": None, "body": "", "form": [], "headers": []}


def _rep_form(r):
    """A form in which one field name occurs 2-3 times (values drawn with repetition from REP_VALUES), optionally with an
    often-ignored ``tok`` field and one more single-valued field at random positions."""
    name = r.choice(["item", "item", "u"])
    form = [[name, r.choice(REP_VALUES)] for _ in range(r.choice([2, 2, 3]))]
    if r.random() < 0.7:
        form.insert(r.randrange(len(form) + 1), ["tok", r.choice(["t1", "t2"])])
    if r.random() < 0.3:
        form.insert(r.randrange(len(form) + 1), ["u" if name == "item" else "item", "1"])
    return form


def _set_body(r, s):
    k = r.choice(["raw", "raw", "form", "form", "multipart", "multipart"])
    if k == "raw":
        s["ctype"], s["form"], s["body"] = None, [], r.choice(["body1", "body2", "", "body1"])
    elif r.random() < 0.4:
        s["ctype"], s["form"], s["body"] = k, _rep_form(r), ""
    else:
        s["ctype"], s["form"], s["body"] = k, copy.deepcopy(r.choice(FORM_SETS)), ""


def _mutate_form(r, s):
    """Change a form body in one place: one occurrence (first / middle / last) of a repeated field, the order of the
    occurrences of a repeated field (same multiset), the often-ignored field, the encoding, or the number of
    occurrences of a field."""
    form = s["form"]
    names = [k for k, _ in form]
    rep = sorted(set(k for k in names if names.count(k) > 1))
    how = r.choice(["occ", "occ", "occ", "order", "order", "ign", "enc", "dup", "drop"])
    if how in ("occ", "order", "drop") and not rep:
        how = "dup"
    if how in ("occ", "order", "drop"):
        k = r.choice(rep)
        idx = [i for i, (a, _) in enumerate(form) if a == k]
        pos = r.choice(["first", "middle", "last"])
        i = idx[0] if pos == "first" else idx[-1] if pos == "last" else idx[len(idx) // 2]
        vals = [form[j][1] for j in idx]
        if how == "drop":
            del form[i]
        elif how == "occ" or len(set(vals)) == 1:
            form[i][1] = r.choice([v for v in REP_VALUES if v != form[i][1]])
        else:
            vals = vals[1:] + vals[:1]      # same multiset, different order
            for j, v in zip(idx, vals):
                form[j][1] = v
    elif how == "ign":
        at = [i for i, (a, _) in enumerate(form) if a == "tok"]
        if not at:
            form.insert(r.randrange(len(form) + 1), ["tok", r.choice(["t1", "t2", "t3"])])
        elif r.random() < 0.75:
            form[at[0]][1] = r.choice([v for v in ["t1", "t2", "t3"] if v != form[at[0]][1]])
        else:
            del form[at[0]]
            if not form:
                form.append(["u", "1"])
    elif how == "enc":
        s["ctype"] = "multipart" if s["ctype"] == "form" else "form"
    elif how == "dup":
        cand = sorted(set(k for k in names if k != "tok")) or ["item"]
        k = r.choice(cand)
        idx = [i for i, (a, _) in enumerate(form) if a == k]
        at = r.choice([idx[-1] + 1 if idx else len(form), len(form), idx[0] if idx else 0])
        form.insert(at, [k, r.choice(REP_VALUES + ["1"])])


def _mutate(r, s, focus=False):
    s = copy.deepcopy(s)
    what = r.choice(["method", "scheme", "host", "port", "path", "query", "query", "query_ign", "body", "body", "header",
                     "header", "form", "form"])
    if focus and r.random() < 0.6:
        what = "form"
    if what == "form":
        if s["form"] and s["ctype"] in ("form", "multipart"):
            _mutate_form(r, s)
        else:
            s["method"] = "POST"
            s["ctype"], s["form"], s["body"] = r.choice(["form", "multipart"]), _rep_form(r), ""
    elif what == "method":
        s["method"] = "POST" if s["method"] == "GET" else "GET"
    elif what == "scheme":
        s["scheme"] = "https" if s["scheme"] == "http" else "http"
    elif what == "host":
        s["host"] = r.choice([h for h in ["a.test", "b.test", "a.test.x"] if h != s["host"]])
    elif what == "port":
        s["port"] = r.choice([p for p in [80, 443, 8080] if p != s["port"]])
    elif what == "path":
        s["path"] = r.choice([p for p in ["/p", "/p/q", "/", "/p/"] if p != s["path"]])
    elif what == "query":
        if s["query"] and r.random() < 0.6:
            i = r.randrange(len(s["query"]))
            k = s["query"][i][0]
            alts = [q for q in QUERY_ATOMS if q[0] == k and q != s["query"][i]]
            if tuple(s["query"][i]) in TWINS:
                s["query"][i] = list(TWINS[tuple(s["query"][i])])
            elif alts:
                s["query"][i] = list(r.choice(alts))
            else:
                del s["query"][i]
        else:
            s["query"].append(list(r.choice(QUERY_ATOMS)))
    elif what == "query_ign":
        # differs only in a parameter that some configurations ignore
        rest = [q for q in s["query"] if q[0] != "sid"]
        s["query"] = rest + [["sid", r.choice(["s1", "s2", "s3"])]] if r.random() < 0.8 else rest
    elif what == "body":
        s["method"] = "POST"
        _set_body(r, s)
    elif what == "header":
        cur = dict((k.lower(), v) for k, v in s["headers"])
        v = r.choice([x for x in [None, "1", "2"] if x != cur.get("x-tag")])
        s["headers"] = [h for h in s["headers"] if h[0].lower() != "x-tag"]
        if v is not None:
            s["headers"].append([r.choice(["x-tag", "X-Tag"]), v])
    return s


def _gen_opts(r, full):
    o = {}
    names = ["server_replay_ignore_content", "server_replay_ignore_host", "server_replay_ignore_params",
             "server_replay_ignore_payload_params", "server_replay_ignore_port", "server_replay_use_headers",
             "server_replay_reuse", "server_replay_extra", "server_replay_kill_extra", "server_replay_refresh",
             "server_replay_nopop"]
    weights = [3, 3, 3, 3, 3, 3, 3, 3, 1, 1, 1]
    n = r.choice([0, 1, 2, 3, 4]) if full else r.choice([1, 1, 1, 2])
    for _ in range(n):
        name = r.choices(names, weights)[0]
        if name in ("server_replay_ignore_content", "server_replay_ignore_host", "server_replay_ignore_port",
                    "server_replay_reuse", "server_replay_refresh"):
            o[name] = r.random() < 0.6
        elif name in ("server_replay_kill_extra", "server_replay_nopop"):
            o[name] = r.random() < 0.5
        elif name == "server_replay_ignore_params":
            o[name] = r.choice([[], ["sid"], ["sid"], ["y"], ["sid", "y"], ["x", "y", "sid", "z"]])
        elif name == "server_replay_ignore_payload_params":
            o[name] = list(r.choice(PAYLOAD_IGN))
        elif name == "server_replay_use_headers":
            o[name] = r.choice([[], ["x-tag"], ["X-Tag"], ["x-tag", "accept"]])
        elif name == "server_replay_extra":
            o[name] = r.choice(["forward", "kill", "kill", "204", "400", "404", "500"])
    return o


def _rec(r, fam):
    s = copy.deepcopy(r.choice(fam))
    x = r.random()
    if x < 0.04:
        return {"kind": "tcp"}
    s["kind"] = "http"
    s["resp"] = None if x < 0.24 else {"status": r.choice([200, 200, 201, 302, 404])}
    return s


def generate(rng, tier):
    r = rng.at("c52")
    base = _base(r)
    # focus: ~30% of the families are built around a form body with a repeated field name (urlencoded or multipart) and
    # vary mostly in single occurrences / order of that field; the options are still drawn over every combination
    focus = r.random() < 0.3
    if focus:
        base["method"] = "POST"
        base["ctype"], base["form"], base["body"] = r.choice(["form", "multipart"]), _rep_form(r), ""
    elif base["method"] == "POST":
        _set_body(r, base)
    fam = [base]
    for _ in range(r.choice([2, 3, 3, 4, 5])):
        src = r.choice(fam)
        v = _mutate(r, src, focus)
        if r.random() < 0.3:
            v = _mutate(r, v, focus)
        fam.append(v)
    flows = [_rec(r, fam) for _ in range(r.choice([2, 3, 3, 4, 5, 6, 8]))]
    ops = []
    for _ in range(r.choice([3, 4, 5, 6, 8, 10, 12])):
        x = r.random()
        if x < 0.58:
            ops.append({"op": "req", "r": copy.deepcopy(r.choice(fam))})
        elif x < 0.82:
            ops.append({"op": "opt", "set": _gen_opts(r, False)})
        elif x < 0.90:
            ops.append({"op": "count"})
        elif x < 0.96:
            ops.append({"op": "add", "flows": [_rec(r, fam) for _ in range(r.choice([1, 1, 2, 3]))]})
        elif x < 0.98:
            ops.append({"op": "load", "flows": [_rec(r, fam) for _ in range(r.choice([1, 2, 3]))]})
        else:
            ops.append({"op": "stop"})
    ops.append({"op": "count"})
    # drain: ask once more for every shape, so that lost / duplicated recordings become visible
    if r.random() < 0.6:
        for s in r.sample(fam, len(fam)):
            ops.append({"op": "req", "r": copy.deepcopy(s)})
        ops.append({"op": "count"})
    options = _gen_opts(r, True)
    if focus and r.random() < 0.6:
        # field-by-field comparison of form bodies is only in effect with a non-empty ignore list
        options["server_replay_ignore_payload_params"] = list(r.choice(PAYLOAD_IGN[1:]))
    return {"family": "serverplayback", "options": options, "flows": flows, "ops": ops}


# ---------------------------------------------------------------------------
# reference model (from the property statement)
# ---------------------------------------------------------------------------
def _is_form(s):
    return s.get("ctype") in ("form", "multipart") and bool(s.get("form"))


def _hdr(s, name):
    for k, v in s.get("headers", []):
        if k.lower() == name.lower():
            return v
    return None


def key_parts(s, o, strict=True):
    """The matching tuple of the statement as a dict component -> value.  ``strict`` additionally distinguishes
    the encoding of a form (urlencoded vs multipart): whether two forms with equal non-ignored fields but different
    encodings have equal keys is not settled by the statement, so a recording that matches loosely MAY be served and
    one that matches strictly MUST be."""
    k = {"method": s["method"], "scheme": s["scheme"], "path": s["path"],
         "query": tuple((a, b) for a, b in s.get("query", []) if a not in o["server_replay_ignore_params"])}
    if not o["server_replay_ignore_host"]:
        k["host"] = s["host"]
    if not o["server_replay_ignore_port"]:
        k["port"] = s["port"]
    if not o["server_replay_ignore_content"]:
        if o["server_replay_ignore_payload_params"] and _is_form(s):
            k["form"] = tuple((a, b) for a, b in s["form"] if a not in o["server_replay_ignore_payload_params"])
            if strict:
                k["form_enc"] = s["ctype"]
        else:
            k["body"] = _body_bytes(s)
    k["headers"] = tuple((h.lower(), _hdr(s, h)) for h in o["server_replay_use_headers"])
    return k


def _form_mode(s, o):
    """The body of ``s`` is compared field by field under ``o``."""
    return bool(not o["server_replay_ignore_content"] and o["server_replay_ignore_payload_params"] and _is_form(s))


def _rep_names(s, o):
    """Non-ignored form field names occurring more than once (coverage counters only)."""
    names = [a for a, _ in s.get("form", []) if a not in o["server_replay_ignore_payload_params"]]
    return sorted(set(a for a in names if names.count(a) > 1))


def _later_occurrence_only(a, b, o):
    """Coverage counter: the keys of ``a`` and ``b`` differ, but only in a second or later occurrence of a repeated
    non-ignored form field (the first value of every field name, and everything else, are equal)."""
    if not (_form_mode(a, o) and _form_mode(b, o)):
        return False
    ka, kb = key_parts(a, o), key_parts(b, o)
    if _differs(ka, kb) != ["form"]:
        return False

    def firsts(k):
        out = {}
        for n, v in k["form"]:
            out.setdefault(n, v)
        return list(out.items())
    return firsts(ka) == firsts(kb)


class Model:
    def __init__(self, opts):
        self.o = dict(DEFAULTS)
        self.o.update(opts)
        self.recs = []          # every recording ever handed over, in recording order
        self.reindexed = False  # a matching option changed while recordings were loaded

    def add(self, specs, ids):
        for s, i in zip(specs, ids):
            self.recs.append({"id": i, "spec": s, "http": s.get("kind") == "http",
                              "has_resp": s.get("kind") == "http" and s.get("resp") is not None,
                              "consumed": False, "removed": False, "served": 0})

    def clear(self):
        for r in self.recs:
            r["removed"] = True
        self.reindexed = False

    def set_options(self, new):
        changed = [k for k, v in new.items() if self.o.get(k) != v]
        live = [r for r in self.recs if not r["removed"] and not r["consumed"]]
        hit = bool(live) and any(k in HASH_OPTS for k in changed)
        if hit:
            self.reindexed = True
        self.o.update(new)
        return hit

    def reuse(self):
        return bool(self.o["server_replay_reuse"] or self.o["server_replay_nopop"])

    def remaining(self):
        return [r for r in self.recs if not r["removed"] and not r["consumed"]]

    def candidates(self, req, strict=True):
        kq = key_parts(req, self.o, strict)
        return [r for r in self.remaining() if r["has_resp"] and key_parts(r["spec"], self.o, strict) == kq]

    def by_id(self, i):
        for r in self.recs:
            if r["id"] == i:
                return r
        return None


# ---------------------------------------------------------------------------
# rendering of specs into real flows
# ---------------------------------------------------------------------------
def _body_bytes(s) -> bytes:
    if s.get("ctype") == "form":
        return "&".join(f"{k}={v}" for k, v in s["form"]).encode()
    if s.get("ctype") == "multipart":
        out = b""
        for k, v in s["form"]:
            out += b'--BnD\r\nContent-Disposition: form-data; name="' + k.encode() + b'"\r\n\r\n' + v.encode() + b"\r\n"
        return out + b"--BnD--\r\n"
    return s.get("body", "").encode("latin-1")


def _url(s):
    from urllib.parse import quote
    q = "&".join(f"{quote(k, safe='')}={quote(v, safe='')}" for k, v in s.get("query", []))
    return f"{s['scheme']}://{s['host']}:{s['port']}{s['path']}" + ("?" + q if q else "")


def make_request(s):
    from mitmproxy import http
    hdrs = [(b"host", s["host"].encode())]
    if s.get("ctype") == "form":
        hdrs.append((b"content-type", b"application/x-www-form-urlencoded"))
    elif s.get("ctype") == "multipart":
        hdrs.append((b"content-type", b"multipart/form-data; boundary=BnD"))
    for k, v in s.get("headers", []):
        hdrs.append((k.encode(), v.encode()))
    return http.Request.make(s["method"], _url(s), _body_bytes(s), http.Headers(hdrs))


def make_flow(s, live):
    from mitmproxy.test import tflow
    return tflow.tflow(req=make_request(s), live=live)


def make_recording(s, rid):
    from mitmproxy import http
    from mitmproxy.test import tflow
    if s.get("kind") != "http":
        return tflow.ttcpflow()
    f = make_flow(s, live=False)
    if s.get("resp") is not None:
        f.response = http.Response.make(s["resp"]["status"], f"rec-{rid}".encode(),
                                        {"x-rec": str(rid), "date": "Sun, 15 Jun 2025 10:00:00 GMT"})
    return f


# ---------------------------------------------------------------------------
# executor + oracle
# ---------------------------------------------------------------------------
def _outcome(f):
    """What the request hook did to a live flow: ('replayed', id|None) / ('status', n) / ('killed',) / ('forward',)."""
    from mitmproxy import flow as mflow
    if f.error is not None:
        if f.error.msg == mflow.Error.KILLED_MESSAGE:
            return ("killed",)
        return ("error", f.error.msg[:40])
    if f.response is not None:
        tag = f.response.headers.get("x-rec")
        if tag is not None:
            try:
                return ("replayed", int(tag))
            except ValueError:
                return ("replayed", None)
        return ("status", f.response.status_code)
    return ("forward",)


def _differs(a, b):
    return sorted(k for k in set(a) | set(b) if a.get(k) != b.get(k))


def execute(sc):
    viol, probes, log = [], {}, []

    def probe(n, k=1):
        probes[n] = probes.get(n, 0) + k

    def bad(cls, key, msg):
        viol.append({"class": cls, "key": key, "msg": msg})

    state = {"next_id": 0, "reindexed_nonempty": False, "collide": False, "unmatched": False, "served": 0}

    async def body(host):
        from mitmproxy.proxy.layers import http as lhttp
        init = dict(sc.get("options", {}))
        model = Model(init)
        if init:
            host.options.update(**init)

        def hand_over(cmd, specs):
            ids = list(range(state["next_id"], state["next_id"] + len(specs)))
            state["next_id"] += len(specs)
            flows = [make_recording(s, i) for s, i in zip(specs, ids)]
            host.command(cmd, flows)
            model.add(specs, ids)
            return ids

        hand_over("replay.server", sc.get("flows", []))
        log.append(("load", len(sc.get("flows", []))))

        for n, op in enumerate(sc.get("ops", [])):
            await host.advance(1.0)
            kind = op["op"]
            if kind == "opt":
                if not op.get("set"):
                    continue
                before = host.command("replay.server.count")
                hit = model.set_options(op["set"])
                host.options.update(**op["set"])
                after = host.command("replay.server.count")
                if hit:
                    probe("reindex_nonempty")
                    state["reindexed_nonempty"] = True
                log.append(("opt", sorted(op["set"].items()), before, after))
                if before != after:
                    # "re-indexes the not-yet-served recordings without losing or duplicating any"
                    bad("reindex_changed_count", {"dir": "lost" if after < before else "duplicated"},
                        f"op {n}: option change {op['set']} changed replay.server.count from {before} to {after}")
            elif kind == "add":
                hand_over("replay.server.add", op.get("flows", []))
                log.append(("add", len(op.get("flows", []))))
            elif kind == "load":
                model.clear()
                hand_over("replay.server", op.get("flows", []))
                log.append(("reload", len(op.get("flows", []))))
            elif kind == "stop":
                model.clear()
                host.command("replay.server.stop")
                log.append(("stop",))
            elif kind == "count":
                c = host.command("replay.server.count")
                rem = model.remaining()
                lo = sum(1 for r in rem if r["has_resp"])
                hi = lo + sum(1 for r in model.recs if not r["removed"] and not r["has_resp"])
                probe("count_checked")
                log.append(("count", c))
                if not (lo <= c <= hi):
                    bad("count_mismatch", {"dir": "lost" if c < lo else "duplicated", "reindexed": model.reindexed},
                        f"op {n}: replay.server.count = {c}, but {lo} recordings with a response are still unserved "
                        f"(at most {hi} including response-less ones)")
            elif kind == "req":
                req = op["r"]
                f = make_flow(req, live=True)
                cands = model.candidates(req)
                loose = model.candidates(req, strict=False)
                reuse = model.reuse()
                rep_req = _form_mode(req, model.o) and bool(_rep_names(req, model.o))
                if rep_req:
                    probe("repeated_form_field")
                    if any(_later_occurrence_only(req, c["spec"], model.o) for c in model.remaining() if c["has_resp"]):
                        probe("repeated_form_later_occurrence_differs")
                await host.hook(lhttp.HttpRequestHook(f))
                out = _outcome(f)
                log.append(("req", out))
                ctx = {"reuse": reuse, "reindexed": model.reindexed}
                if out[0] == "replayed":
                    rec = model.by_id(out[1]) if out[1] is not None else None
                    if rec is None or not rec["has_resp"]:
                        bad("unknown_response", {}, f"op {n}: replayed response carries unknown recording tag {out[1]!r}")
                        continue
                    probe("served")
                    state["served"] += 1
                    kq, kr = key_parts(req, model.o, False), key_parts(rec["spec"], model.o, False)
                    same_enc = [c for c in loose if c["spec"].get("ctype") == rec["spec"].get("ctype")]
                    firsts = [lst[0] for lst in (cands, loose, same_enc) if lst]
                    if rec["removed"]:
                        bad("served_removed_recording", dict(ctx), f"op {n}: recording #{rec['id']} was served after the "
                            "recording set had been replaced/stopped")
                    elif kq != kr:
                        bad("served_nonmatching", {"differs_in": _differs(kq, kr)},
                            f"op {n}: request {_url(req)} {req['method']} was answered with recording #{rec['id']} "
                            f"({rec['spec']['method']} {_url(rec['spec'])}) although the matching keys differ in "
                            f"{_differs(kq, kr)} under options {_hash_opts(model.o)}")
                    elif rec["consumed"]:
                        bad("served_twice", dict(ctx), f"op {n}: recording #{rec['id']} was served a second time without reuse")
                    elif firsts and not any(rec is x for x in firsts):
                        bad("out_of_order", dict(ctx),
                            f"op {n}: request {req['method']} {_url(req)} was answered with recording #{rec['id']} but "
                            f"recording #{firsts[0]['id']} has the same key and was recorded earlier "
                            f"(unserved candidates in recording order: {[c['id'] for c in loose]}; reuse={reuse}; "
                            f"options re-indexed earlier={model.reindexed})")
                    else:
                        if len(cands) > 1:
                            probe("served_colliding_key")
                            state["collide"] = True
                        if rep_req:
                            probe("served_repeated_form")
                        if model.reindexed:
                            probe("served_after_reindex")
                        if rec["served"] and reuse:
                            probe("reuse_served_again")
                        skipped = [r for r in model.remaining() if r["http"] and not r["has_resp"] and r["id"] < rec["id"]
                                   and key_parts(r["spec"], model.o, False) == kq]
                        if skipped:
                            probe("responseless_skipped")
                    # content of the served response
                    want = rec["spec"]["resp"]["status"]
                    if f.response.status_code != want or f.response.raw_content != f"rec-{rec['id']}".encode():
                        bad("served_response_altered", {"field": "status" if f.response.status_code != want else "body"},
                            f"op {n}: served response differs from recording #{rec['id']}")
                    rec["served"] += 1
                    if not reuse:
                        rec["consumed"] = True
                else:
                    if cands:
                        bad("matching_recording_not_served", {"reindexed": model.reindexed},
                            f"op {n}: request {req['method']} {_url(req)} matches unserved recording(s) "
                            f"{[c['id'] for c in cands]} under options {_hash_opts(model.o)} but was {out}")
                        continue
                    # unmatched request
                    o = model.o
                    accept = set()
                    if o["server_replay_kill_extra"] or o["server_replay_extra"] == "kill":
                        accept.add(("killed",))
                    if o["server_replay_extra"] not in ("forward", "kill"):
                        if not o["server_replay_kill_extra"]:
                            accept = {("status", int(o["server_replay_extra"]))}
                        else:
                            accept.add(("status", int(o["server_replay_extra"])))
                    if not accept:
                        accept.add(("forward",))
                    any_resp_left = any(r["has_resp"] for r in model.remaining())
                    if not any_resp_left:
                        accept.add(("forward",))
                    else:
                        state["unmatched"] = True
                        probe({"killed": "unmatched_kill", "status": "unmatched_status", "forward": "unmatched_forward"}
                              .get(out[0], "unmatched_other"))
                    if out not in accept:
                        bad("extra_request_wrong_action",
                            {"configured": "kill" if ("killed",) in accept else o["server_replay_extra"], "got": out[0],
                             "active": any_resp_left},
                            f"op {n}: unmatched request {req['method']} {_url(req)} was {out}; configured: "
                            f"extra={o['server_replay_extra']} kill_extra={o['server_replay_kill_extra']}")
        return None

    _, host, sim_s = HOST.run(_make_addons, body)
    for c in host.crashes:
        bad("addon_crash", {"exc": c[0], "where": c[1]}, f"addon raised: {c[2]}")
    nontrivial = state["served"] > 0 and (state["reindexed_nonempty"] or state["collide"] or state["unmatched"])
    # perturbations that landed in in-flight state: a re-index while unserved recordings were loaded, a replaced /
    # stopped recording set in mid-history
    faults = {}
    if probes.get("reindex_nonempty"):
        faults["reindex_with_unserved_recordings"] = probes["reindex_nonempty"]
    mid = sum(1 for e in log[1:] if e[0] in ("reload", "stop", "add"))
    if mid:
        faults["recording_set_changed_midway"] = mid
    return {"violations": viol, "digest": digest(log), "nontrivial": bool(nontrivial), "faults": faults, "probes": probes,
            "sim_s": sim_s, "states": set()}


def _hash_opts(o):
    return {k.replace("server_replay_", ""): o[k] for k in HASH_OPTS if o[k]}


def _make_addons():
    from mitmproxy.addons import serverplayback
    return [serverplayback.ServerPlayback()]
