"""C23 — mitmproxy never opens an upstream connection back to one of its own listening sockets."""
from __future__ import annotations

import asyncio
import struct

from models import iana_ref as I
from simkit import world as W
from simkit.net import ConnectPlan, oserror, _FakeSock

ID = "C23"
LEVEL = "exploration"
ENGINE = "simkit/proxy-world"
QUICK_RUNS = 12000
QUICK_BUDGET_S = 120
THOROUGH_BUDGET_S = 900
CHUNK = 50
RULE = ("per run: listen_host (loopback v4/v6, all interfaces, IPv4/IPv6 wildcard, explicit address) x 1-3 real listeners "
        "(regular, socks5, transparent, reverse http/tcp/udp/dns, upstream, dns; TCP, UDP and dual-transport) started by the "
        "real Proxyserver on SimNet, optionally re-configured mid-run, incl. 2-3 listeners (TCP or UDP) bound to different "
        "addresses but ONE port number through per-mode '@addr:port' specs in any order, and a listener added at runtime "
        "whose bind takes 0-1.5 s of virtual time while clients of the running instance issue requests inside that window "
        "(then probed with loop destinations, optionally removed again), and option-update histories (family toggle, ~15% "
        "of the runs) in which a listener is added and the mode list / the `server` option changes again (mode dropped, "
        "mode=[], server=False, another kind of listener on the same port, then possibly re-added) 0 s .. more than the "
        "bind time later, i.e. also while the listener start is still pending, after which EVERY listening socket of the "
        "simulated network (SimNet listener table, not Proxyserver.servers) is asked to proxy to its own address; "
        "a history of 3-8 requests whose destination is a "
        "spelling of an own listener (localhost any case / trailing dot, 127.0.0.0/8, ::1 and re-spellings, IPv4-mapped "
        "loopback, 0.0.0.0, ::, the explicit listen address and re-spellings) or a control (other port, other transport, "
        "foreign host), reached via absolute-form, CONNECT, SOCKS5 (name/IPv4/IPv6), transparent original destination, "
        "Host-header routing addon, request.host/port rewrite in requestheaders/request, reverse/upstream target in the mode "
        "spec, UDP reverse targets; non-trivial = at least one destination with a loop verdict reached the server_connect "
        "stage; distinct = distinct (listen class, via, destination class, outcome) logs")
COMPONENTS_REAL = ["Master", "AddonManager", "default addons", "Proxyserver (servers, listen_addrs, server_connect guard)",
                   "ServerInstances", "ProxyConnectionHandler.open_connection", "mode layers", "HttpLayer", "Socks5Proxy",
                   "UDPLayer/DNSLayer"]
COMPONENTS_STUB = ["kernel TCP/UDP incl. listener sockets (SimNet)", "event loop clock/selector (VLoop)",
                   "clients/origins (scripted peers)", "routing addon (policy addon setting request.host/port)"]
ASSUMPTIONS = ["a listener on all interfaces (listen_host '') owns an IPv4 and an IPv6 wildcard socket (dual-stack host), as "
               "asyncio.start_server creates them",
               "verdicts follow the property statement; cross-family combinations (IPv6 loopback destination vs. an "
               "IPv4-only listener and vice versa) and 0.0.0.0/:: against an explicit non-loopback listener carry no verdict",
               "key field 'strict' tells whether a Linux kernel would deliver exactly this destination to that listener "
               "(False e.g. for 127.0.0.2 against a socket bound to 127.0.0.1)"]
EXPECTED_PROBES = ["loop_refused", "control_served", "via_absolute", "via_connect", "via_socks5", "via_original_dst",
                   "via_host_header", "via_rewrite", "via_mode_target", "via_udp", "cross_transport_control",
                   "reconfigured", "no_verdict", "shared_port_loop_refused", "shared_port_udp_loop_refused",
                   "request_during_listener_start", "late_listener_loop_refused", "toggle_update_during_start",
                   "toggle_server_off_during_start", "toggle_readded_during_start", "toggle_listener_probed",
                   "toggle_loop_refused"]


def B(s):
    return s.encode("latin1")


# ---------------------------------------------------------------------------
# independent model: which destinations denote an own listener
# ---------------------------------------------------------------------------
def _ip(h):
    """-> ('4', int) | ('6', int) | None"""
    h = h.split("%", 1)[0]
    try:
        return "4", I.v4_to_int(h)
    except ValueError:
        pass
    if ":" in h:
        try:
            return "6", I.v6_to_int(h)
        except ValueError:
            return None
    return None


_MAPPED = I.v6_to_int("::ffff:0:0")


def dest_class(h):
    low = h.lower()
    if low in ("localhost", "localhost."):
        if h == "localhost":
            return "localhost"
        return "localhost_dot" if low.endswith(".") else "localhost_case"
    ip = _ip(h)
    if ip is None:
        return "name"
    fam, n = ip
    if fam == "4":
        if n >> 24 == 127:
            return "127.0.0.1" if h == "127.0.0.1" else ("loopback4_other" if n != 0x7F000001 else "loopback4_respelled")
        return "wildcard4" if n == 0 else "ip4"
    if n == 1:
        return "::1" if h == "::1" else "loopback6_respelled"
    if n == 0:
        return "wildcard6"
    if _MAPPED <= n <= _MAPPED + 0xFFFFFFFF:
        e = n - _MAPPED
        if e >> 24 == 127:
            return "mapped_loopback"
        return "mapped_wildcard" if e == 0 else "mapped_ip4"
    return "ip6"


def listen_class(h):
    if h == "":
        return "all"
    if h == "0.0.0.0":
        return "all4"
    if h == "::":
        return "all6"
    ip = _ip(h)
    if ip and ip[0] == "4" and ip[1] >> 24 == 127:
        return "loopback4"
    if ip and ip == ("6", 1):
        return "loopback6"
    return "explicit"


def same_address(a, b):
    ia, ib = _ip(a), _ip(b)
    if ia is None or ib is None:
        return a == b
    if ia == ib:
        return True
    # an IPv4-mapped spelling of an IPv4 address is the same endpoint
    for x, y in ((ia, ib), (ib, ia)):
        if x[0] == "6" and y[0] == "4" and x[1] == _MAPPED + y[1]:
            return True
    return False


def denotes(lhost, dhost):
    """Does destination host `dhost` denote a listener bound to `lhost`?  -> (True|False|None, strict)"""
    L, D = listen_class(lhost), dest_class(dhost)
    if lhost != "" and same_address(lhost, dhost):
        return True, True
    names = D in ("localhost", "localhost_case", "localhost_dot")
    v4 = D in ("127.0.0.1", "loopback4_other", "loopback4_respelled", "mapped_loopback")
    v6 = D in ("::1", "loopback6_respelled")
    if L == "all":
        if names or v4 or v6 or D in ("wildcard4", "wildcard6"):
            return True, True
        return False, False
    if L in ("all4", "loopback4"):
        if names:
            return True, True
        if v4:
            return True, L == "all4"  # (exact address match was handled above)
        if D == "wildcard4":
            return True, True
        if v6 or D in ("wildcard6", "mapped_wildcard"):
            return None, False
        return False, False
    if L in ("all6", "loopback6"):
        if names:
            return True, True
        if v6:
            return True, True
        if D == "wildcard6":
            return True, True
        if v4 or D in ("wildcard4", "mapped_wildcard"):
            return None, False
        return False, False
    # explicit non-loopback address
    if D in ("wildcard4", "wildcard6", "mapped_wildcard"):
        return None, False
    return False, False


LISTEN_KEY = {"all": "wildcard", "all4": "wildcard", "all6": "wildcard", "loopback4": "loopback",
              "loopback6": "loopback", "explicit": "explicit"}


def dest_key(lhost, dhost):
    """Spelling class of a destination for violation keys."""
    D = dest_class(dhost)
    if lhost and dhost == lhost:
        return "listen_address"
    if lhost == "" and dhost in ("0.0.0.0", "::"):
        # a listener on all interfaces owns both wildcard sockets: this is the socket's own address, spelled canonically
        return "listen_address"
    if lhost and D in ("ip4", "ip6", "mapped_ip4", "loopback4_other") and same_address(lhost, dhost):
        return "listen_address_respelled"
    if D == "wildcard6" and dhost != "::":
        return "wildcard6_respelled"
    return D


def mode_listener(spec, listen_host, listen_port):
    """Own reading of the mode spec grammar: -> (host, port, transports)"""
    head, at, listen_at = spec.rpartition("@")
    if not at:
        head, listen_at = spec, ""
    name, _, data = head.partition(":")
    host, port = listen_host, listen_port
    if listen_at:
        if ":" in listen_at:
            host, _, p = listen_at.rpartition(":")
            port = int(p)
        else:
            port = int(listen_at)
    transports = ("tcp",)
    if name == "dns":
        transports = ("tcp", "udp")
    elif name == "reverse":
        scheme = data.split("://", 1)[0] if "://" in data else "https"
        if scheme in ("http3", "dtls", "udp", "quic"):
            transports = ("udp",)
        elif scheme in ("dns", "https"):
            transports = ("tcp", "udp")
    return host, port, transports


class Model:
    def __init__(self, listen_host, listen_port, modes):
        self.listen_host, self.listen_port = listen_host, listen_port
        self.unsure = set()  # ports whose listeners are being stopped/started right now: no verdict either way
        self.set_modes(modes)

    def set_modes(self, modes):
        self.listeners = [mode_listener(m, self.listen_host, self.listen_port) + (m,) for m in modes]

    def verdict(self, host, port, proto):
        """-> (True|False|None, info)"""
        best = (False, None)
        if port in self.unsure:
            best = (None, {"dest": dest_class(host), "listen": "changing", "strict": False, "listener_transport": proto})
        for lhost, lport, transports, spec in self.listeners:
            if lport != port or proto not in transports:
                continue
            d, strict = denotes(lhost, host)
            info = {"dest": dest_key(lhost, host), "listen": LISTEN_KEY[listen_class(lhost)], "strict": strict,
                    "listener_transport": "both" if len(transports) == 2 else transports[0]}
            if d is True:
                return True, info
            if d is None and best[0] is False:
                best = (None, info)
        return best

    def foreign(self, port, proto):
        """Why (port, proto) can not denote any own listening socket: 'other_port' | 'other_transport' | None."""
        if port in self.unsure:
            return None
        same_port = [l for l in self.listeners if l[1] == port]
        if not same_port:
            return "other_port"
        if not any(proto in l[2] for l in same_port):
            return "other_transport"
        return None


# ---------------------------------------------------------------------------
# generator
# ---------------------------------------------------------------------------
LISTEN_HOSTS = ["127.0.0.1", "127.0.0.1", "", "", "0.0.0.0", "::", "::1", "10.0.0.1", "127.0.0.5", "fd00::5"]
NAMES = ["localhost", "LOCALHOST", "LocalHost", "localhost.", "LOCALHOST."]
V4LOOP = ["127.0.0.1", "127.0.0.1", "127.0.0.2", "127.255.255.254", "127.1.2.3", "127.0.0.0"]
V6LOOP = ["::1", "::1", "0:0:0:0:0:0:0:1", "::0001", "0::1"]
MAPPEDLOOP = ["::ffff:127.0.0.1", "::ffff:7f00:1", "::ffff:127.0.0.2", "0:0:0:0:0:ffff:127.0.0.1"]
WILD = ["0.0.0.0", "::", "0:0:0:0:0:0:0:0"]
CONTROLS = ["o.test", "10.0.0.2", "192.168.1.1", "2001:db8::9", "localhost.test", "notlocalhost"]
# addresses for several listeners that share one port number (canonical spellings, as getsockname() prints them)
SHARED_V4 = ["127.0.0.1", "127.0.0.2", "127.0.0.3", "10.0.0.1", "192.168.7.7"]
SHARED_V6 = ["::1", "fd00::5", "fd00::6"]


def respell(h, r):
    ip = _ip(h)
    if ip is None or ip[0] == "4":
        return h
    n = ip[1]
    return r.choice([I.int_to_v6(n).upper(), ":".join(f"{(n >> (112 - 16 * i)) & 0xFFFF:x}" for i in range(8)),
                     ":".join(f"{(n >> (112 - 16 * i)) & 0xFFFF:04x}" for i in range(8))])


def gen_dest(r, listen_host, ports, numeric=False, kernel=False):
    """-> (host, port).  numeric: IP literals only; kernel: only what getsockname()/inet_ntop would print."""
    x = r.random()
    if x < 0.22 and not numeric:
        host = r.choice(NAMES)
    elif x < 0.42:
        host = r.choice(V4LOOP)
    elif x < 0.55:
        host = r.choice(V6LOOP if not kernel else ["::1"])
    elif x < 0.67:
        host = r.choice(MAPPEDLOOP if not kernel else ["::ffff:127.0.0.1", "::ffff:127.0.0.2"])
    elif x < 0.77 and not kernel:
        host = r.choice(WILD)
    elif x < 0.87 and listen_host not in ("",):
        host = listen_host if r.random() < 0.6 or kernel else respell(listen_host, r)
    else:
        host = r.choice(CONTROLS if not numeric else ["10.0.0.2", "192.168.1.1", "2001:db8::9"])
    port = r.choice(ports) if r.random() < 0.85 else r.choice([80, 8079, 9, 65535])
    return host, port


def auth(host, port):
    return (f"[{host}]" if ":" in host else host) + f":{port}"


TOGGLE_KINDS = ["regular", "regular", "socks5", "transparent", "reverse:http://o.test:80", "reverse_self_tcp",
                "reverse_self_udp"]


def gen_toggle(t):
    """Option-update histories in which the mode list / the `server` option changes AGAIN while the listener that the
    previous update asked for is still being started (back-to-back updates, or a simulated slow bind); afterwards every
    listening socket that exists in the simulated network is asked to proxy to its own address."""
    listen_host = t.choice(["127.0.0.1", "127.0.0.1", "", "", "0.0.0.0", "::1", "::", "10.0.0.1"])
    listen_port = t.choice([8080, 8080, 3128, 9000])
    p2, p3 = listen_port + 1, listen_port + 2
    base = ["regular"] if t.random() < 0.6 else ["regular", f"socks5@{p2}"]
    lhost_new = t.choice(SHARED_V4 + ["::1"]) if t.random() < 0.3 else None
    at = f"@{lhost_new}:{p3}" if lhost_new is not None else f"@{p3}"
    lh = lhost_new if lhost_new is not None else listen_host
    # a plain spelling of the new listener's own socket address
    own = lh if lh not in ("",) else t.choice(["127.0.0.1", "localhost", "::1"])
    targets = {}

    def spec_of(kind):
        if kind == "reverse_self_tcp":
            s = f"reverse:tcp://{auth(own, p3)}{at}"
        elif kind == "reverse_self_udp":
            s = f"reverse:udp://{auth(own, p3)}{at}"
        else:
            return kind + at
        targets[s] = [own, p3]
        return s
    kind = t.choice(TOGGLE_KINDS)
    added = spec_of(kind)
    with_added = list(base)
    with_added.insert(t.randrange(len(with_added) + 1), added)
    delay = t.choice([0, 0, 0.01, 0.2, 0.2, 1.5])

    def wait():
        x = t.random()
        if x < 0.45:
            return 0
        if x < 0.65:
            return delay * 0.25
        if x < 0.8:
            return delay * 0.6
        return delay + 0.3  # the previous update is through: no overlap (control)
    steps = [{"set": {"mode": with_added}, "wait": wait()}]
    x = t.random()
    if x < 0.4:
        steps.append({"set": {"mode": list(base)}, "wait": wait()})
        back = {"mode": list(with_added)}
    elif x < 0.7:
        steps.append({"set": {"server": False}, "wait": wait()})
        back = {"server": True}
    elif x < 0.82:
        steps.append({"set": {"mode": []}, "wait": wait()})
        back = {"mode": list(with_added)}
    else:
        # another kind of listener takes the place of the one that is still being started
        other = spec_of(t.choice([k for k in TOGGLE_KINDS if k != kind and (kind, k) != ("reverse_self_tcp", "reverse_self_udp")
                                  and (k, kind) != ("reverse_self_tcp", "reverse_self_udp")]))
        swapped = [other if m == added else m for m in with_added]
        steps.append({"set": {"mode": swapped}, "wait": wait()})
        back = {"mode": list(with_added)}
    if t.random() < 0.4:
        steps.append({"set": back, "wait": wait()})
        if t.random() < 0.3:
            steps.append({"set": dict(steps[1]["set"]), "wait": wait()})
    ops = []
    for _ in range(t.randrange(0, 2)):
        host, port = gen_dest(t, listen_host, [listen_port, p3])
        ops.append({"op": "request", "mode": "regular", "via": t.choice(["absolute", "connect", "rewrite"]),
                    "host": host, "port": port, "gap": 0})
    plan = [{"dest": t.choice(["own", "own", "localhost", "127.0.0.1", "::1"]), "pick": t.randrange(6)}
            for _ in range(t.choice([1, 2, 2]))]
    ops.append({"op": "toggle", "steps": steps, "bind_delay": delay, "plan": plan, "targets": targets})
    return {"family": "selfconnect-toggle", "eager": t.random() < 0.5, "listen_host": listen_host,
            "listen_port": listen_port, "modes": base, "ops": ops,
            "connection_strategy": t.choice(["eager", "eager", "lazy"])}


def generate(rng, tier):
    sc = _generate_base(rng, tier)
    t = rng.at("c23-toggle")
    if t.random() < 0.15:
        return gen_toggle(t)
    return sc


def _generate_base(rng, tier):
    r = rng.at("c23")
    listen_host = r.choice(LISTEN_HOSTS)
    listen_port = r.choice([8080, 8080, 3128, 9000])
    p2, p3 = listen_port + 1, listen_port + 2
    ports = [listen_port, listen_port, p2]
    shape = r.choice(["regular", "regular", "regular+socks5", "transparent", "reverse", "reverse_self", "upstream",
                      "upstream_self", "udp_self", "dns_self", "dns+udp", "cross_transport", "regular+dnsboth",
                      "shared_port", "shared_port", "shared_port_udp", "late_listener", "late_listener"])
    ops = []
    nops = r.randrange(3, 9)

    def rq(mode, via, host, port, **kw):
        ops.append(dict({"op": "request", "mode": mode, "via": via, "host": host, "port": port,
                         "gap": r.choice([0, 0, 0.01])}, **kw))

    def http_regular(mode):
        host, port = gen_dest(r, listen_host, ports)
        via = r.choice(["absolute", "absolute", "connect", "connect", "rewrite", "rewrite_headers"])
        rq(mode, via, host, port)

    if shape in ("regular", "regular+socks5", "regular+dnsboth"):
        modes = ["regular"]
        if shape == "regular+socks5":
            modes.append(f"socks5@{p2}")
        if shape == "regular+dnsboth":
            # a dual-transport listener on the second port
            modes.append(f"reverse:dns://9.9.9.9:53@{p2}")
        for _ in range(nops):
            if shape == "regular+socks5" and r.random() < 0.6:
                kind = r.choice(["socks5_name", "socks5_ip"])
                host, port = gen_dest(r, listen_host, ports, numeric=(kind == "socks5_ip"))
                rq(modes[1], kind, host, port)
            else:
                http_regular("regular")
    elif shape == "transparent":
        modes = ["transparent"]
        for _ in range(nops):
            via = r.choice(["original_dst", "original_dst", "host_header", "transparent_absolute", "rewrite"])
            host, port = gen_dest(r, listen_host, ports, numeric=(via == "original_dst"), kernel=(via == "original_dst"))
            rq("transparent", via, host, port)
    elif shape == "reverse":
        modes = ["reverse:http://o.test:80"]
        for _ in range(nops):
            host, port = gen_dest(r, listen_host, ports)
            rq(modes[0], r.choice(["host_header", "rewrite", "rewrite_headers", "transparent_absolute"]), host, port)
    elif shape in ("reverse_self", "upstream_self", "udp_self", "dns_self"):
        host, port = gen_dest(r, listen_host, [listen_port])
        if r.random() < 0.8:
            port = listen_port
        scheme = {"reverse_self": r.choice(["http", "tcp"]), "upstream_self": "http", "udp_self": "udp",
                  "dns_self": "dns"}[shape]
        kind = "upstream" if shape == "upstream_self" else "reverse"
        modes = [f"{kind}:{scheme}://{auth(host, port)}@{listen_port}"]
        udp = shape in ("udp_self", "dns_self") and (shape == "udp_self" or r.random() < 0.7)
        for _ in range(min(nops, 3)):
            rq(modes[0], "mode_target_udp" if udp else "mode_target", host, port)
    elif shape == "upstream":
        modes = ["upstream:http://p.test:3128"]
        for _ in range(nops):
            http_regular(modes[0])
    elif shape == "dns+udp":
        # a dual-transport DNS listener on listen_port and a UDP reverse proxy pointing at it
        host, port = gen_dest(r, listen_host, [listen_port])
        port = listen_port
        modes = [f"dns@{listen_port}", f"reverse:udp://{auth(host, port)}@{p2}"]
        for _ in range(min(nops, 3)):
            rq(modes[1], "mode_target_udp", host, port)
    elif shape == "shared_port":
        # 2-3 TCP listeners bound to DIFFERENT addresses but the SAME port number (per-mode `@addr:port`), in any order;
        # destinations are spelled as each listener's own explicit address (also the ones that are not last)
        pool = SHARED_V4 + SHARED_V6 if r.random() < 0.5 else list(SHARED_V4)
        r.shuffle(pool)
        n = r.choice([2, 2, 3])
        addrs = pool[:n]
        kinds = [r.choice(["regular", "regular", "socks5", "transparent", "reverse:http://o.test:80",
                           "upstream:http://p.test:3128"]) for _ in range(n)]
        modes = [f"{kd}@{a}:{listen_port}" for a, kd in zip(addrs, kinds)]
        if listen_host not in ("", "0.0.0.0", "::") and listen_host not in addrs and r.random() < 0.4:
            # one more listener on the same port whose address comes from the listen_host option
            kd = r.choice(["regular", "socks5"])
            modes.insert(r.randrange(len(modes) + 1), kd if r.random() < 0.5 else f"{kd}@{listen_port}")
        laddrs = [mode_listener(m, listen_host, listen_port)[0] for m in modes]
        for _ in range(nops):
            mode = r.choice(modes)
            kd = mode.split("@")[0].split(":")[0]
            x = r.random()
            if x < 0.6:
                host, port = r.choice(laddrs), listen_port
            elif x < 0.72:
                host, port = respell(r.choice(laddrs), r), listen_port
            else:
                host, port = gen_dest(r, listen_host, [listen_port, listen_port, p2])
            if host == "":
                host = r.choice(["0.0.0.0", "::"])
            numeric_ok = _ip(host) is not None
            if kd in ("regular", "upstream"):
                via = r.choice(["absolute", "absolute", "connect", "connect", "rewrite", "rewrite_headers"])
            elif kd == "socks5":
                via = r.choice(["socks5_name", "socks5_ip"]) if numeric_ok else "socks5_name"
            elif kd == "transparent":
                via = r.choice(["original_dst", "original_dst", "host_header", "transparent_absolute", "rewrite"])
                if via == "original_dst" and (not numeric_ok or host not in laddrs):
                    via = "host_header"
            else:
                via = r.choice(["host_header", "rewrite", "rewrite_headers", "transparent_absolute"])
            rq(mode, via, host, port)
    elif shape == "late_listener":
        # a listener is ADDED at runtime while another instance keeps serving: its bind takes virtual time, clients of the
        # running instance issue requests inside that window (any order / delay), then the new listener is probed
        modes = ["regular"] if r.random() < 0.6 else ["regular", f"socks5@{p2}"]
        for _ in range(r.randrange(0, 3)):
            http_regular("regular")
        lhost_new = None
        kd = r.choice(["regular", "socks5", "reverse:http://o.test:80", "transparent", "upstream:http://p.test:3128"])
        if r.random() < 0.3:
            lhost_new = r.choice(SHARED_V4 + ["::1"])
            added = f"{kd}@{lhost_new}:{p3}"
        else:
            added = f"{kd}@{p3}"
        new = list(modes)
        new.insert(r.randrange(len(new) + 1), added)
        during = []
        for _ in range(r.choice([0, 1, 1, 2, 3])):
            x = r.random()
            if x < 0.5:
                host, port = r.choice(CONTROLS), r.choice([80, 80, 8000])
            else:
                host, port = gen_dest(r, listen_host, [listen_port, p3])
            during.append({"op": "request", "mode": "regular",
                           "via": r.choice(["absolute", "absolute", "connect", "rewrite", "rewrite_headers"]),
                           "host": host, "port": port, "gap": r.choice([0, 0, 0.001, 0.02, 0.3, 1.0])})
        ops.append({"op": "set_modes", "modes": new, "bind_delay": r.choice([0, 0.01, 0.2, 0.2, 1.5]), "requests": during})
        own = lhost_new if lhost_new is not None else (listen_host or r.choice(["0.0.0.0", "::"]))
        for _ in range(r.randrange(2, 5)):
            x = r.random()
            if x < 0.3:
                host = own
            elif x < 0.65:
                host = r.choice(["localhost", "127.0.0.1", "::1"])
            else:
                host = gen_dest(r, listen_host, [p3])[0]
            port = p3 if r.random() < 0.9 else listen_port
            rq("regular", r.choice(["absolute", "absolute", "connect", "connect", "rewrite", "rewrite_headers"]), host, port)
        if r.random() < 0.25:
            # ... and taken away again (later requests to its port are ordinary destinations)
            ops.append({"op": "set_modes", "modes": list(modes), "bind_delay": 0, "requests": []})
            for _ in range(2):
                host, port = gen_dest(r, listen_host, [p3, listen_port])
                rq("regular", r.choice(["absolute", "connect"]), host, port)
        modes = list(modes)
    elif shape == "shared_port_udp":
        # the same for UDP: two UDP reverse proxies on one port number, one of them pointing at the other (or at itself)
        pool = list(SHARED_V4) + (list(SHARED_V6) if r.random() < 0.4 else [])
        r.shuffle(pool)
        a1, a2 = pool[0], pool[1]
        target = r.choice([a1, a1, a2])
        modes = [f"reverse:udp://9.9.9.9:53@{a1}:{listen_port}", f"reverse:udp://{auth(target, listen_port)}@{a2}:{listen_port}"]
        if r.random() < 0.5:
            modes.reverse()
        me = [m for m in modes if m.endswith(f"@{a2}:{listen_port}")][0]
        for _ in range(min(nops, 3)):
            rq(me, "mode_target_udp", target, listen_port)
    else:  # cross_transport: UDP target equal to a TCP-only listener and vice versa -> not a loop
        host, port = gen_dest(r, listen_host, [listen_port])
        port = listen_port
        if r.random() < 0.5:
            modes = ["regular", f"reverse:udp://{auth(host, port)}@{p2}"]
            for _ in range(min(nops, 3)):
                rq(modes[1], "mode_target_udp", host, port)
        else:
            modes = [f"reverse:udp://9.9.9.9:53@{listen_port}", f"reverse:tcp://{auth(host, port)}@{p2}"]
            for _ in range(min(nops, 3)):
                rq(modes[1], "mode_target", host, port)
    if shape in ("regular", "regular+socks5") and r.random() < 0.2:
        # re-configure the listeners mid-run: the regular proxy moves to another port
        at = r.randrange(1, len(ops) + 1)
        new = [f"regular@{p3}"] + modes[1:]
        ops.insert(at, {"op": "set_modes", "modes": new})
        for o in ops[at + 1:]:
            if o["mode"] == "regular":
                o["mode"] = new[0]
        ports.append(p3)
        for _ in range(2):
            host, port = gen_dest(r, listen_host, [p3, listen_port])
            rq(new[0], r.choice(["absolute", "connect"]), host, port)
    return {"family": "selfconnect-" + shape, "eager": r.random() < 0.5, "listen_host": listen_host,
            "listen_port": listen_port, "modes": modes, "ops": ops,
            "connection_strategy": r.choice(["eager", "eager", "lazy"])}


# ---------------------------------------------------------------------------
# peers
# ---------------------------------------------------------------------------
async def http_origin(conn):
    buf = b""
    while True:
        buf += conn.take()
        while b"\r\n\r\n" in buf:
            head, _, buf = buf.partition(b"\r\n\r\n")
            if head.startswith(b"CONNECT "):
                conn.feed(b"HTTP/1.1 200 Connection established\r\n\r\n")
                continue
            body = b"origin-ok"
            conn.feed(b"HTTP/1.1 200 OK\r\nContent-Length: 9\r\n\r\n" + body)
        if conn.rx_eof:
            conn.send_eof()
            return
        await conn.wait_change()


async def udp_origin(conn):
    seen = 0
    while not conn.proxy_closed:
        while seen < len(conn.rx_log):
            d = conn.rx_log[seen][1]
            seen += 1
            if len(d) >= 12:
                conn.feed(d[:2] + b"\x81\x80" + d[4:6] + b"\x00\x00\x00\x00\x00\x00" + d[12:])
        await conn.wait_change()


def dns_query(k):
    return struct.pack("!HHHHHH", 0x2000 + k, 0x0100, 1, 0, 0, 0) + b"\x04host\x04test\x00" + struct.pack("!HH", 1, 1)


def parse_hostport(value, default_port):
    """Host header -> (host, port), the way a Host-routing addon would do it."""
    v = value.strip()
    if v.startswith("["):
        h, _, rest = v[1:].partition("]")
        return h, int(rest[1:]) if rest.startswith(":") and rest[1:].isdigit() else default_port
    if v.count(":") == 1:
        h, _, p = v.partition(":")
        return h, int(p) if p.isdigit() else default_port
    return v, default_port


UNKNOWN = "Request destination unknown"


# ---------------------------------------------------------------------------
# executor
# ---------------------------------------------------------------------------
def execute(sc):
    model = Model(sc["listen_host"], sc["listen_port"], sc["modes"])
    v, log, probes = [], [], {}
    state = {"op": None, "k": -1}
    seen_sigs = set()

    def probe(n, c=1):
        probes[n] = probes.get(n, 0) + c

    def violate(cls, key, msg):
        sig = cls + repr(sorted(key.items()))
        if sig in seen_sigs:
            return
        seen_sigs.add(sig)
        v.append({"class": cls, "key": key, "msg": msg})

    async def body(w):
        def add_dual_stack():
            # a TCP listener on all interfaces owns an IPv4 and an IPv6 wildcard socket
            for (proto, host, port), srv in list(w.net.listeners.items()):
                if proto == "tcp" and not host and len(srv.sockets) == 1:
                    srv.sockets.append(_FakeSock(("::", port, 0, 0)))
        add_dual_stack()

        def policy(name, data):
            op = state["op"]
            if op is None:
                return None
            via = op["via"]
            if (via == "rewrite" and name == "request") or (via == "rewrite_headers" and name == "requestheaders"):
                data.request.host = op["host"]
                data.request.port = op["port"]
            elif via == "host_header" and name == "requestheaders":
                hh = data.request.host_header
                if hh:
                    h, p = parse_hostport(hh, 80)
                    data.request.host = h
                    data.request.port = p
            return None
        w.policy = policy

        def planner(host, port, n, proto):
            verdict, info = model.verdict(host, port, proto)
            op = state["op"] or {}
            state["connects"].append((host, port, proto, verdict))
            if verdict is True:
                if (proto, port) in state.get("orphan_ports", ()):
                    # the listening socket is alive in the network but belongs to no server instance mitmproxy knows of
                    info = dict(info, listener="orphan")
                violate("self_connect", info,
                        f"upstream {proto} connect to {host!r}:{port} while listening on "
                        f"{[l[:3] for l in model.listeners]} (real listen_addrs={w.ps.listen_addrs()}); "
                        f"reached via {op.get('via')} in mode {op.get('mode')}")
                return ConnectPlan(error=oserror("refused"))
            if verdict is None:
                return ConnectPlan(error=oserror("refused"))

            def accept(conn):
                w.loop.create_task(udp_origin(conn) if proto == "udp" else http_origin(conn), name=f"sim-origin-{n}")
            return ConnectPlan(delay=0.001, accept=accept)
        w.net.connect_planner = planner

        def on_done(name, data):
            if name != "server_connect":
                return
            addr = data.server.address
            proto = data.server.transport_protocol
            verdict, info = model.verdict(addr[0], addr[1], proto)
            err = data.server.error
            state["sc"].append((addr[0], addr[1], proto, verdict, bool(err and err.startswith(UNKNOWN))))
            if verdict is None:
                probe("no_verdict")
            if verdict is True:
                state["loop_stage"] = True
                if err and err.startswith(UNKNOWN):
                    probe("loop_refused")
                    if sc.get("family", "").endswith("shared_port"):
                        probe("shared_port_loop_refused")
                    elif sc.get("family", "").endswith("shared_port_udp"):
                        probe("shared_port_udp_loop_refused")
                    elif sc.get("family", "").endswith("late_listener") and addr[1] == sc["listen_port"] + 2:
                        probe("late_listener_loop_refused")
                elif err:
                    pass  # refused for another reason: no connect follows
                # (no error at all -> the planner reports the connect)
            elif err and err.startswith(UNKNOWN):
                why = model.foreign(addr[1], proto)
                if why:
                    violate("foreign_destination_refused", {"reason": why},
                            f"{proto} destination {addr[0]!r}:{addr[1]} matches no own listening socket ({why}; listeners "
                            f"{[l[:3] for l in model.listeners]}) but was refused as 'destination unknown'")
                else:
                    probe("refused_beyond_statement")
        w.hook_done_listeners.append(on_done)

        # binding a listening socket takes time on a real host (getaddrinfo in the thread pool, bind/listen): the
        # scenario can stretch it.  Wrapped here (not in SimNet); the world restores the real functions at teardown.
        import mitmproxy_rs
        net_start_tcp, net_start_udp = asyncio.start_server, mitmproxy_rs.udp.start_udp_server

        async def slow_start_server(cb, host=None, port=None, **kw):
            if state.get("bind_delay"):
                w.net.fired("slow_bind")
                await asyncio.sleep(state["bind_delay"])
            srv = await net_start_tcp(cb, host, port, **kw)
            if not host and len(srv.sockets) == 1:
                srv.sockets.append(_FakeSock(("::", port, 0, 0)))
            return srv

        async def slow_start_udp_server(host, port, cb):
            if state.get("bind_delay"):
                w.net.fired("slow_bind")
                await asyncio.sleep(state["bind_delay"])
            return await net_start_udp(host, port, cb)
        asyncio.start_server = slow_start_server
        mitmproxy_rs.udp.start_udp_server = slow_start_udp_server

        counter = [0]

        async def do_request(op, srv=None):
            k = counter[0]
            counter[0] += 1
            state.update(op=op, k=k, connects=[], sc=[])
            out = await run_op(w, op, k, srv)
            state["op"] = None
            return out

        async def do_toggle(op):
            delay = op["bind_delay"]
            specs = set(sc["modes"])
            for st in op["steps"]:
                specs.update(st["set"].get("mode", ()))
            # while listeners are being stopped/started, destinations on their ports carry no verdict
            model.unsure = {mode_listener(m, sc["listen_host"], sc["listen_port"])[1] for m in specs}
            state["bind_delay"] = delay
            prev = None
            hist = []
            for st in op["steps"]:
                if prev is not None and (prev["wait"] == 0 or prev["wait"] < delay):
                    probe("toggle_update_during_start")
                    if st["set"].get("server") is False:
                        probe("toggle_server_off_during_start")
                    if st["set"].get("server") is True or (len(hist) >= 2 and st["set"] == hist[-2]):
                        probe("toggle_readded_during_start")
                w.master.options.update(**st["set"])
                hist.append(st["set"])
                prev = st
                if st["wait"]:
                    await asyncio.sleep(st["wait"])
            # let everything settle (virtual time is free)
            await asyncio.sleep(delay * (len(op["steps"]) + 1) + 1.0)
            for _ in range(20):
                if not w.ps.servers.is_updating:
                    break
                await asyncio.sleep(delay + 0.5)
            state["bind_delay"] = 0
            # ground truth: the listening sockets that exist in the simulated network NOW are mitmproxy's own
            table = sorted(w.net.listeners.items(), key=lambda kv: (kv[0][0], kv[0][1] or "", kv[0][2]))
            model.listeners = [(host or "", port, (proto,), "net") for (proto, host, port), _ in table]
            model.unsure = set()
            running = [id(i) for i in w.ps.servers]
            orphans = set()
            for (proto, host, port), srv in table:
                if id(getattr(srv.cb, "__self__", None)) not in running:
                    orphans.add((proto, port))
                    probe("orphan_listener")
            state["orphan_ports"] = orphans
            outs = []
            for (proto, host, port), srv in table:
                inst = getattr(srv.cb, "__self__", None)
                spec = inst.mode.full_spec
                name = spec.split("@")[0].split(":")[0]
                lhost = host or ""
                for pl in op["plan"]:
                    if spec in op["targets"]:
                        dhost, dport = op["targets"][spec]
                        via = "mode_target_udp" if proto == "udp" else "mode_target"
                    else:
                        if proto != "tcp":
                            continue
                        own = lhost if lhost else "127.0.0.1"
                        dhost = own if pl["dest"] == "own" else pl["dest"]
                        if denotes(lhost, dhost)[0] is not True:
                            dhost = own
                        dport = port
                        numeric = _ip(dhost) is not None
                        if name == "regular":
                            vias = ["absolute", "absolute", "connect", "connect", "rewrite", "rewrite_headers"]
                        elif name == "socks5":
                            vias = ["socks5_name", "socks5_ip"] if numeric else ["socks5_name"]
                        elif name == "transparent":
                            vias = ["original_dst", "host_header"] if numeric else ["host_header", "transparent_absolute"]
                        else:
                            vias = ["host_header", "rewrite", "rewrite_headers", "transparent_absolute"]
                        via = vias[pl["pick"] % len(vias)]
                    rqo = {"op": "request", "mode": spec, "via": via, "host": dhost, "port": dport}
                    out = await do_request(rqo, srv)
                    probe("toggle_listener_probed")
                    if any(x[3] is True and x[4] for x in state["sc"]):
                        probe("toggle_loop_refused")
                    outs.append((proto, listen_class(lhost), name, via, dest_class(dhost), out,
                                 tuple(state["connects"]), tuple(state["sc"])))
            state["orphan_ports"] = set()
            log.append(("toggle", tuple(sorted(st["set"])[0] for st in op["steps"]), delay, len(orphans), tuple(outs)))

        for k, op in enumerate(sc["ops"]):
            if op["op"] == "toggle":
                await do_toggle(op)
                continue
            if op["op"] == "set_modes":
                delay = op.get("bind_delay", 0)
                old_modes = [l[3] for l in model.listeners]
                changed = [m for m in old_modes if m not in op["modes"]] + [m for m in op["modes"] if m not in old_modes]
                # while listeners are being stopped/started, destinations on their ports carry no verdict
                model.set_modes([m for m in op["modes"] if m in old_modes])
                model.unsure = {mode_listener(m, sc["listen_host"], sc["listen_port"])[1] for m in changed}
                state["bind_delay"] = delay
                t0 = w.loop.time()
                w.master.options.update(mode=list(op["modes"]))
                outs = []
                for rqo in op.get("requests", []):
                    await asyncio.sleep(rqo.get("gap", 0))
                    if w.ps.servers.is_updating:
                        probe("request_during_listener_start")
                    outs.append((rqo["via"], dest_class(rqo["host"]), await do_request(rqo)))
                await asyncio.sleep(max(0.0, delay - (w.loop.time() - t0)) + 0.5)
                state["bind_delay"] = 0
                model.set_modes(op["modes"])
                model.unsure = set()
                add_dual_stack()
                probe("reconfigured")
                log.append(("set_modes", tuple(op["modes"]), delay, tuple(outs)))
                continue
            out = await do_request(op)
            intended = model.verdict(op["host"], op["port"], "udp" if op["via"].endswith("_udp") else "tcp")
            log.append((op["mode"].split("@")[0].split("://")[0], op["via"], dest_class(op["host"]),
                        listen_class(sc["listen_host"]), intended[0], out, tuple(state["connects"]), tuple(state["sc"])))
            probe("via_" + {"socks5_name": "socks5", "socks5_ip": "socks5", "rewrite_headers": "rewrite",
                            "transparent_absolute": "absolute", "mode_target_udp": "udp"}.get(op["via"], op["via"]))
            if out == "served" and intended[0] is False:
                probe("control_served")
                if op["via"].startswith("mode_target") and dest_class(op["host"]) not in ("name", "ip4", "ip6") \
                        and op["port"] == sc["listen_port"]:
                    probe("cross_transport_control")
            await asyncio.sleep(op.get("gap", 0))
        await asyncio.sleep(5.0)
        return None

    async def run_op(w, op, k, srv=None):
        via = op["via"]
        host, port = op["host"], op["port"]
        a = auth(host, port)
        path = f"/p{k}"
        peer = ("192.168.1.7", 50000 + k)
        udp = via == "mode_target_udp"
        if srv is not None:
            # through a listening socket of the simulated network: whatever callback that socket was created with
            handle, addrs = srv.cb, [srv.sockets[0].getsockname()]
        else:
            try:
                inst = w.instance(op["mode"])
            except KeyError:
                return "no_such_listener"
            if not inst.listen_addrs:
                return "listener_down"
            handle, addrs = inst.handle_stream, list(inst.listen_addrs)
        if udp:
            sockname = addrs[-1][:2]
            c = w.net.client_dgram(peer, sockname)
            c.feed(dns_query(k))
            c.task = w.loop.create_task(handle(c, c), name=f"sim-client-{c.id}")
            w.client_tasks.append(c.task)
            for _ in range(3):
                if c.rx_log or c.proxy_closed:
                    break
                await c.wait_change(2.0)
            out = "served" if c.rx_log else ("closed" if c.proxy_closed else "silent")
            c.peer_close()
            await asyncio.sleep(0.01)
            return out
        odst = (host, port) if via == "original_dst" else (("93.184.216.34", 80) if op["mode"].startswith("transparent") else None)
        if srv is not None:
            c = w.net.client_conn(peer, addrs[0][:2], original_dst=odst)
            c.task = w.loop.create_task(handle(c.reader, c.writer), name=f"sim-client-{c.id}")
            w.client_tasks.append(c.task)
        else:
            c = w.connect_client(mode=op["mode"], peername=peer, original_dst=odst)

        async def until(pred, timeout=5.0):
            t_end = w.loop.time() + timeout
            while not pred() and not c.proxy_closed and w.loop.time() < t_end:
                await c.wait_change(t_end - w.loop.time())
            return pred()

        def status():
            d = c.received
            if not d.startswith(b"HTTP/1.1 ") or b"\r\n\r\n" not in d:
                return None
            return int(d[9:12])

        get_abs = B(f"GET http://{a}{path} HTTP/1.1\r\nHost: {a}\r\n\r\n")
        get_org = B(f"GET {path} HTTP/1.1\r\nHost: {a}\r\n\r\n")
        out = None
        if via in ("absolute", "transparent_absolute"):
            c.feed(get_abs)
        elif via in ("rewrite", "rewrite_headers"):
            if op["mode"].startswith(("regular", "upstream")):
                c.feed(B(f"GET http://o.test{path} HTTP/1.1\r\nHost: o.test\r\n\r\n"))
            else:
                c.feed(B(f"GET {path} HTTP/1.1\r\nHost: o.test\r\n\r\n"))
        elif via in ("host_header", "original_dst"):
            c.feed(get_org)
        elif via == "mode_target":
            if op["mode"].startswith("upstream"):
                c.feed(B(f"GET http://o.test{path} HTTP/1.1\r\nHost: o.test\r\n\r\n"))
            else:
                c.feed(B(f"GET {path} HTTP/1.1\r\nHost: o.test\r\n\r\n"))
        elif via == "connect":
            c.feed(B(f"CONNECT {a} HTTP/1.1\r\nHost: {a}\r\n\r\n"))
            await until(lambda: status() is not None)
            st = status()
            if st is None or st >= 300:
                out = f"connect_{st}"
            else:
                c.take()
                n0 = len(c.received)
                c.feed(get_org)
                await until(lambda: b"\r\n\r\n" in c.received[n0:])
                d = c.received[n0:]
                out = "served" if b"origin-ok" in d else ("error_" + d[9:12].decode("latin1") if d else "closed")
        elif via in ("socks5_name", "socks5_ip"):
            c.feed(b"\x05\x01\x00")
            await until(lambda: len(c.received) >= 2)
            if via == "socks5_name":
                hb = host.encode("latin1")
                req = b"\x05\x01\x00\x03" + bytes([len(hb)]) + hb
            else:
                fam, n = _ip(host)
                req = b"\x05\x01\x00" + (b"\x01" + n.to_bytes(4, "big") if fam == "4" else b"\x04" + n.to_bytes(16, "big"))
            c.feed(req + struct.pack("!H", port))
            await until(lambda: len(c.received) >= 2 + 10)
            rep = c.received[2:]
            if len(rep) < 2 or rep[1] != 0:
                out = f"socks_rep_{rep[1] if len(rep) > 1 else 'none'}"
            else:
                n0 = len(c.received)
                c.feed(get_org)
                await until(lambda: b"\r\n\r\n" in c.received[n0:])
                d = c.received[n0:]
                out = "served" if b"origin-ok" in d else ("error_" + d[9:12].decode("latin1") if d else "closed")
        if out is None:
            await until(lambda: status() is not None)
            st = status()
            if st is None:
                out = "closed" if c.proxy_closed else "silent"
            elif b"origin-ok" in c.received:
                out = "served"
            else:
                out = f"error_{st}" + ("_unknown" if b"destination unknown" in c.received else "")
        c.send_eof()
        await until(lambda: c.proxy_closed, 2.0)
        return out

    _, w = W.run_world(body, eager=sc["eager"], seed=sc.get("seed", 0),
                       options={"listen_host": sc["listen_host"], "listen_port": sc["listen_port"],
                                "connection_strategy": sc.get("connection_strategy", "eager")},
                       modes=sc["modes"])
    if w.crashes:
        t, msg, tb = w.crashes[0]
        parts = tb.split(" @ ")
        v.append({"class": "crash", "key": {"exc": parts[0].split(":")[0], "where": parts[1] if len(parts) > 1 else ""},
                  "msg": f"{msg} :: {tb}"})
    nontrivial = bool(probes.get("loop_refused")) or any(x["class"] == "self_connect" for x in v)
    faults = {k: n for k, n in w.net.faults_fired.items() if k not in ("client_fin",)}
    return {"violations": v, "digest": W.digest(log), "nontrivial": nontrivial, "faults": faults,
            "probes": probes, "sim_s": w.loop.time(), "states": {repr(l[:6]) for l in log}}
