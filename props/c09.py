"""C09 — connection lifecycle events pair up, per-destination concurrency is bounded, nothing leaks."""
from __future__ import annotations

from simkit import h1world as H
from simkit.world import digest
from props import c03

ID = "C09"
LEVEL = "exploration"
QUICK_RUNS = 8000
QUICK_BUDGET_S = 150
THOROUGH_BUDGET_S = 900
CHUNK = 50
RULE = ("the HTTP/1 fault scenarios of C03 (client FIN/RST at any byte, origin FIN/RST at byte k, connect refused / "
        "timeout / slow, drain()/write_eof()/close() raising, idle timeout) plus scripted latency and set-error actions "
        "inside each of the five connection hooks and a second concurrent client; oracle = connection automaton of "
        "DESIGN appendix A.2 over the hook recorder, SimNet's count of simultaneously open upstream pipes per address "
        "(<= 5), and a resource census at quiescence (handler.transports empty, every SimNet pipe of a finished handler "
        "closed by the proxy, no surviving task, _KEEP_ALIVE empty). non-trivial = an upstream connection was attempted "
        "AND a fault or connection-hook action fired; distinct = distinct event-log digests. 15% of the runs are the "
        "HTTP/2-client-to-one-HTTP/1-origin family (6-14 concurrent streams over one real-TLS client connection, scripted "
        "connect refusals / timeouts / early origin FIN/RST, latency in server_connect/server_connected): oracle = at most 5 "
        "upstream pipes to the address open at once (exact open/close times from SimNet), no pipe left unclosed, no "
        "stream answered with another stream's reply.")
COMPONENTS_REAL = ["ConnectionHandler.handle_client/open_connection/handle_connection/drain_writers/close_connection",
                   "server_hooks", "ProxyConnectionHandler", "Proxyserver.register_connection", "Master", "AddonManager",
                   "HTTP/1 layers"]
COMPONENTS_STUB = ["kernel TCP (SimNet pipes with injected write/close errors)", "event loop clock/selector (VLoop)"]
ASSUMPTIONS = ["a connect attempt always ends (success or OSError) within 20 simulated seconds, as a kernel connect does",
               "obligations are judged at quiescence after every peer has closed and every scripted hold was released"]
EXPECTED_PROBES = ["server_connect", "server_connect_error", "server_disconnected", "client_left_before_connect_done",
                   "conn_hook_latency", "two_clients", "write_error", "h2h1_runs", "reached_limit", "waited_for_slot",
                   "attempt_failed_while_others_open"]


def generate(rng, tier):
    if rng.at("c09-family").random() < 0.15:
        # HTTP/2 client -> one HTTP/1 origin address: one upstream connection per stream, the only path on which one
        # client opens more than one connection to an address (ConnectionHandler.max_conns)
        from peers import h2_conc
        h = h2_conc.gen_h2h1_concurrency(rng.at("c09-h2h1"))
        r2 = rng.at("c09-h2h1-leave")
        if r2.random() < 0.35:
            # the client leaves while streams are still waiting for an upstream slot / connects are in flight
            h["leave_after"] = r2.choice([0.05, 0.3, 0.8, 1.5, 3.0])
            h["client_close"] = r2.choice(["fin", "rst", "goaway"])
        return {"family": "lifecycle-h2h1-concurrency", "h2h1": h}
    sc = c03.generate(rng, tier)
    r = rng.at("c09")
    # latency / errors inside connection hooks
    for _ in range(r.choice([0, 1, 1, 2])):
        hook = r.choice(["client_connected", "server_connect", "server_connected", "server_disconnected",
                         "client_disconnected", "server_connect_error"])
        rule = {"hook": hook, "nth": r.choice([0, 0, 1]), "latency": r.choice([0.0, 0.001, 0.3, 2.0, 8.0]), "action": "pass"}
        if hook in ("client_connected", "server_connect") and r.random() < 0.3:
            rule["action"] = "set_error"
        sc["policy"].append(rule)
    if r.random() < 0.25:
        # a second client, concurrently, with its own simple exchange
        c2 = {"steps": [{"op": "sleep", "t": r.choice([0.0, 0.0005, 0.2])},
                        {"op": "send", "data": "GET http://b.test/r7/second HTTP/1.1\r\nHost: b.test\r\n\r\n"
                         if sc["modes"][0] == "regular" else "GET /r7/second HTTP/1.1\r\nHost: a.test\r\n\r\n",
                         "cuts": [], "gaps": []},
                        {"op": "await", "n": 1, "timeout": 15.0}, {"op": r.choice(["fin", "rst"])}],
              "methods": ["GET"], "original_dst": sc["clients"][0].get("original_dst")}
        sc["clients"].append(c2)
    sc["family"] = "lifecycle-" + sc["family"]
    return sc


def monitor(w, obs):
    obs.transports_left = []
    c03.monitor(w, obs)


def oracle(sc, obs):
    w = obs.world
    v = []
    probes = {}

    def bump(k):
        probes[k] = probes.get(k, 0) + 1

    # ---- automaton ---------------------------------------------------------------------------------
    clients = {}   # client id -> [connected, disconnected]
    servers = {}   # server id -> list of hook names
    # a hook "fires" when the addon manager triggers it, i.e. when the first addon sees it; the recorder (last addon) does
    # not see a hook during which an async addon was cancelled
    fired = []
    for t, name, data in w.hooks_fired:
        if name in ("client_connected", "client_disconnected"):
            fired.append((t, name, data.id, None))
        elif name in ("server_connect", "server_connected", "server_connect_error", "server_disconnected"):
            fired.append((t, name, data.server.id, None))
    for t, name, key, snap in fired:
        if name == "client_connected":
            clients.setdefault(key, [0, 0])[0] += 1
        elif name == "client_disconnected":
            st = clients.setdefault(key, [0, 0])
            st[1] += 1
            if st[0] == 0:
                v.append({"class": "lifecycle_order", "key": {"what": "client_disconnected before client_connected"},
                          "msg": f"client {key[:8]}: disconnected hook without connected hook"})
        elif name in ("server_connect", "server_connected", "server_connect_error", "server_disconnected"):
            servers.setdefault(key, []).append(name)
    for cid, (a, b) in clients.items():
        if a != 1 or b > 1:
            v.append({"class": "lifecycle_count", "key": {"what": "client hooks", "connected": a, "disconnected": b},
                      "msg": f"client {cid[:8]}: client_connected x{a}, client_disconnected x{b}"})
    all_done = all(getattr(c, "handler_done", False) for c in obs.clients)
    held_forever = any(p.get("then") == "never" for p in sc.get("policy", []))
    # context for findings: does an addon suspend inside one of the server-connection hooks?
    slow_conn_hook = any(p["hook"] in ("server_connect", "server_connected", "server_connect_error", "server_disconnected")
                         and p.get("latency", 0) > 0 for p in sc.get("policy", []))
    for sid, seq in servers.items():
        bump("server_connect")
        ok = True
        if seq[0] != "server_connect" or seq.count("server_connect") != 1:
            ok = False
        outcomes = [x for x in seq if x in ("server_connected", "server_connect_error")]
        if len(outcomes) > 1:
            ok = False
        if "server_connect_error" in seq:
            bump("server_connect_error")
            if "server_disconnected" in seq or "server_connected" in seq:
                ok = False
        if seq.count("server_disconnected") > 1:
            ok = False
        if "server_disconnected" in seq:
            bump("server_disconnected")
            if "server_connected" not in seq or seq.index("server_disconnected") < seq.index("server_connected"):
                ok = False
        if not ok:
            v.append({"class": "lifecycle_order", "key": {"what": "server hooks", "seq": seq},
                      "msg": f"server connection {sid[:8]}: hook sequence {seq}"})
        elif all_done and not held_forever:
            # obligations still open at quiescence
            if not outcomes:
                v.append({"class": "unpaired", "key": {"open": "server_connect", "async_connect_hook": slow_conn_hook, "eager": bool(sc.get("eager"))},
                          "msg": f"server connection {sid[:8]}: server_connect never followed by server_connected/"
                                 f"server_connect_error although the client handler has finished; sequence {seq}"})
            elif outcomes == ["server_connected"] and "server_disconnected" not in seq:
                v.append({"class": "unpaired", "key": {"open": "server_connected", "async_connect_hook": slow_conn_hook, "eager": bool(sc.get("eager"))},
                          "msg": f"server connection {sid[:8]}: server_connected never followed by server_disconnected "
                                 f"although the client handler has finished; sequence {seq}"})
    for c in obs.clients:
        if getattr(c, "handler_done", False):
            # the client hooks of a finished handler must be complete
            pass
    if all_done:
        n_conn = sum(1 for cid, (a, b) in clients.items())
        for cid, (a, b) in clients.items():
            if b != 1:
                v.append({"class": "unpaired", "key": {"open": "client_connected", "async_connect_hook": slow_conn_hook, "eager": bool(sc.get("eager"))},
                          "msg": f"client {cid[:8]}: handler finished but client_disconnected fired {b} times"})
    # ---- concurrency bound -----------------------------------------------------------------------------
    for addr, n in w.net.max_open_server.items():
        if n > 5 and len(obs.clients) == 1:
            v.append({"class": "too_many_upstream_connections", "key": {"n": n},
                      "msg": f"{n} upstream connections to {addr} were open at the same time within one client connection"})
    # ---- resource census at quiescence ---------------------------------------------------------------------
    if all_done and not held_forever:
        for peername, entries in obs.transport_census:
            # a stale dict entry of a failed connect (done task, no writer) is not a resource; a live task or an
            # unclosed writer is
            live = [k for k, task_alive, writer_open in entries if task_alive or writer_open]
            if live:
                v.append({"class": "resource_leak", "key": {"what": "transports","async_connect_hook": slow_conn_hook, "eager": bool(sc.get("eager"))},
                          "msg": f"handler of {peername}: live transports after client_disconnected: {live}"})
        for s in obs.servers:
            if not s.proxy_closed:
                v.append({"class": "resource_leak", "key": {"what": "upstream socket", "async_connect_hook": slow_conn_hook, "eager": bool(sc.get("eager"))},
                          "msg": f"upstream pipe {s.id} to {s.address} never closed by the proxy although every client "
                                 f"handler has finished"})
        for c in obs.clients:
            if not c.proxy_closed:
                v.append({"class": "resource_leak", "key": {"what": "client socket", "async_connect_hook": slow_conn_hook, "eager": bool(sc.get("eager"))},
                          "msg": f"client pipe {c.id} never closed by the proxy although its handler has finished"})
        tasks, keep = obs.leaked
        tasks = [t for t in tasks if not t.startswith("Task-")]
        if tasks or keep:
            v.append({"class": "resource_leak", "key": {"what": "tasks", "names": sorted(set(tasks))[:4],
                                                         "async_connect_hook": slow_conn_hook, "eager": bool(sc.get("eager"))},
                      "msg": f"tasks alive at quiescence: {tasks}; _KEEP_ALIVE size {keep}"})
        if w.ps.connections:
            v.append({"class": "resource_leak", "key": {"what": "Proxyserver.connections"},
                      "msg": f"{len(w.ps.connections)} handlers still registered"})
    # ---- nothing of a connection outlives its handler -----------------------------------------------------------
    # handle_client() returns only after client_disconnected has fired and every transport was torn down; from then
    # on none of its upstream pipes may be open (or be opened), and no server hook of it may fire.  Judged at the
    # instant the handler task finished, not at quiescence (where an orphaned connection has long been closed by
    # its peer).  Attribution of pipes to handlers needs a single client.
    if len(obs.clients) == 1 and obs.clients[0].handler_done_at is not None:
        t_done = obs.clients[0].handler_done_at
        for s in obs.servers:
            opened = getattr(s, "opened_at", None)
            if (s.close_time is None or s.close_time > t_done + 1e-3) and not (s.close_time is None and not all_done):
                v.append({"class": "upstream_outlives_handler", "key": {"opened_after": bool(opened is not None and opened > t_done)},
                          "msg": f"client handler finished at t={t_done:.6f} but upstream pipe {s.id} to {s.address} "
                                 f"(opened t={opened}) was closed by the proxy at t={s.close_time}"})
                break
        late = [(round(t, 6), name) for t, name, data in w.hooks_fired
                if name.startswith("server_") and t > t_done + 1e-3]
        if late:
            v.append({"class": "server_hook_after_handler_done", "key": {"hook": late[0][1]},
                      "msg": f"client handler finished at t={t_done:.6f}; server hooks fired afterwards: {late[:4]}"})
        else:
            bump("handler_done_checked")
    # (a handler that has not finished by quiescence carries no obligation here: the statement is about what holds
    #  once client_disconnected has fired, not about when that happens)
    # probes
    if any(a[1] in H.CONN_HOOKS and a[3] == "pass" for a in obs.policy.applied) and w.net.faults_fired.get("hook_latency"):
        bump("conn_hook_latency")
    if len(obs.clients) > 1:
        bump("two_clients")
    if w.net.faults_fired.get("drain_error") or w.net.faults_fired.get("write_eof_error") or w.net.faults_fired.get("close_error"):
        bump("write_error")
    if w.net.faults_fired.get("connect_cancelled"):
        bump("client_left_before_connect_done")
    if w.crashes:
        # A layer generator that died ("mitmproxy has crashed!") leaves obligations open as a consequence; the crash
        # itself is what C03/C01 report.  C09 makes no claim about such runs.
        return [], dict(probes, crashed_run_skipped=1)
    return v, probes


def execute_h2h1(sc):
    from peers import h2_conc
    res = h2_conc.run_h2h1_concurrency(sc["h2h1"])
    v = []
    probes = dict(res["probes"])
    probes["h2h1_runs"] = 1
    if res["crashes"]:
        probes["crashed_run_skipped"] = 1
    else:
        if res["max_open_excl_leaked"] > h2_conc.LIMIT:
            v.append({"class": "too_many_upstream_connections", "key": {},
                      "msg": f"{res['max_open_excl_leaked']} upstream connections to {h2_conc.ADDR} were open at the same "
                             f"time for one client connection (limit {h2_conc.LIMIT}); attempts={res['attempts']} "
                             f"refused={res['refused']} early_closed={res['early_closed']}"})
        if res["leaked_pipes"]:
            v.append({"class": "resource_leak", "key": {"h2h1_upstream_pipe_never_closed": True},
                      "msg": f"{res['leaked_pipes']} upstream pipe(s) to {h2_conc.ADDR} were never closed by the proxy although "
                             f"the client connection handler finished (handler_done={res['handler_done']})"})
        if res["handler_done"]:
            # same automaton as for the HTTP/1 family: connect -> connected -> disconnected | connect -> connect_error
            for seq in res.get("server_hook_seqs", []):
                ok = seq in (["server_connect", "server_connected", "server_disconnected"],
                             ["server_connect", "server_connect_error"])
                if not ok:
                    bump = "unpaired" if seq in (["server_connect"], ["server_connect", "server_connected"]) else "lifecycle_order"
                    v.append({"class": bump, "key": {"h2h1": True, "seq": seq},
                              "msg": f"h2->h1 family: server connection hook sequence {seq} although the client handler finished"})
                    break
        if res["foreign"]:
            v.append({"class": "answer_for_other_stream", "key": {},
                      "msg": f"{res['foreign']} stream(s) received the origin's answer for another stream's marker"})
    nontrivial = res["attempts"] > 1 and (res["refused"] or res["early_closed"] or res["reached_limit"])
    return {"violations": v, "digest": res["digest"], "nontrivial": bool(nontrivial), "faults": res["faults"],
            "probes": probes, "sim_s": res["sim_s"]}


def execute(sc):
    if "h2h1" in sc:
        return execute_h2h1(sc)
    obs = H.run(sc, monitors=(monitor,))
    v, probes = oracle(sc, obs)
    w = obs.world
    attempted = bool(w.net.connect_attempts)
    perturbed = bool(w.net.faults_fired) or bool(obs.policy.applied)
    return {"violations": v, "digest": digest(obs.event_log()), "nontrivial": bool(attempted and perturbed),
            "faults": dict(w.net.faults_fired), "probes": probes, "sim_s": obs.sim_s}
