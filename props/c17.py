"""C17 — the certificate store is bounded and never serves a certificate for other names.

Real component: ``mitmproxy.certs.CertStore`` (``get_cert`` / ``add_cert`` / ``expire``) plus
``dummy_cert``.  The scenario is a history of certificate requests over a small name universe,
interleaved with registrations of custom certificates, against a store whose capacity is drawn
per run.  The oracle is a tiny reference model (dict of registered names + FIFO of generated
keys) written from the property statement and the documented wildcard rule.
"""
from __future__ import annotations

import datetime
import ipaddress
import os

from simkit.world import digest

ID = "C17"
LEVEL = "exploration"
ENGINE = "simkit/model-world"
QUICK_RUNS = 40000
QUICK_BUDGET_S = 120
THOROUGH_BUDGET_S = 900
CHUNK = 100
RULE = ("seeded histories of 8-60 CertStore.get_cert calls (CN x ordered SAN list x organisation, drawn with repeats "
        "from a per-run pool of request shapes over 8 names incl. wildcard parents, two IPs and one >=64-char name) "
        "interleaved with add_cert of 6 custom certificates under their own CN/SANs plus explicit names "
        "('*', '*.a.test', ...), against STORE_CAP in {1,2,3,5,100} and more distinct requests than the capacity; "
        "non-trivial = at least one eviction AND one cache hit AND one custom-certificate answer or re-generation "
        "after eviction; in 3 of 4 runs some requests are FAILING requests (a CRL URL that is not plain ASCII, an empty "
        "common name, or an injected one-shot error inside certificate generation) placed after ordinary requests, "
        "often while the store is full, and often retried without the fault; "
        "distinct = distinct abstract event-log digests")
COMPONENTS_REAL = ["mitmproxy.certs.CertStore (get_cert, add_cert, expire, asterisk_forms)", "mitmproxy.certs.dummy_cert",
                   "mitmproxy.certs.Cert", "CA key/cert loaded by CertStore.from_store from data/confdir"]
COMPONENTS_STUB = ["custom certificates are built by the harness with cryptography.x509 (fixed serials/dates)",
                   "no TLS handshake: the store is driven directly (the P/tls rider is a separate check)",
                   "fault 'inject': mitmproxy.certs.dummy_cert is replaced for ONE get_cert call by a wrapper that raises "
                   "instead of generating (restored right after the call); the other two faults are plain arguments"]
ASSUMPTIONS = ["a registration under a name replaces an earlier registration under the same name",
               "the organisation is not part of a request's identity (the statement speaks of names only)",
               "a common name of 64 or more characters may be left out of the generated subject (X.509 ub-common-name); "
               "the name must then still be present among the SANs if it was requested as a SAN",
               "requests with the same names in a different SAN order are distinct requests",
               "eviction order is FIFO by generation (anchor: CertStore.expire)",
               "a request that fails (get_cert raises) generated nothing: it is not a generation in the model, the "
               "certificates cached before it stay cached and the capacity bound holds after it as after any call"]
EXPECTED_PROBES = ["evictions", "gen_hit", "regenerated_after_eviction", "custom_exact", "custom_wildcard",
                   "custom_star", "custom_shadows_cached", "ip_request", "long_cn", "org_differs_on_hit",
                   "over_capacity_history", "cap_100_overflow", "cap_100_eviction",
                   "gen_failed", "gen_failed_store_full", "gen_failed_crl", "gen_failed_empty_cn", "gen_failed_inject",
                   "gen_new_after_failure_store_full", "retry_after_failure", "hit_after_failure",
                   "fault_request_answered_from_store"]
FAULT_KINDS = ["crl", "empty_cn", "inject"]
BAD_CRL = "http://crl.ex\u00e4mple.test/ca.crl"      # not plain ASCII: x509.UniformResourceIdentifier refuses it
OK_CRL = "http://crl.example.test/ca.crl"

CAPS = [1, 2, 3, 5, 100]
LONG = "averyveryverylonghostnamelabel-0123456789.subdomain-0123456789.b.test"  # 69 chars, labels < 64
assert len(LONG) >= 64
NAMES = ["a.test", "www.a.test", "x.www.a.test", "b.test", "api.b.test", "10.1.2.3", "2001:db8::1", LONG]
ORGS = [None, "Org A", "Org B"]
# custom certificates: (cn, [(kind, value), ...])
CUSTOM = [
    ("www.a.test", [("dns", "www.a.test")]),
    ("*.a.test", [("dns", "*.a.test"), ("dns", "a.test")]),
    (None, [("ip", "10.1.2.3")]),
    ("catchall.invalid", []),
    ("b.test", [("dns", "b.test"), ("dns", "*.b.test")]),
    ("*.test", [("dns", "*.test")]),
]
EXTRA_NAMES = ["*.a.test", "*.www.a.test", "*.b.test", "api.b.test", "2001:db8::1", "*.test", "x.www.a.test",
               "*.subdomain-0123456789.b.test"]


def _is_ip(n):
    try:
        ipaddress.ip_address(n)
        return True
    except ValueError:
        return False


def _san(n):
    return ["ip" if _is_ip(n) else "dns", n]


# ---------------------------------------------------------------------------
# generator
# ---------------------------------------------------------------------------
def _gen_request(r):
    n = r.choice(NAMES)
    x = r.random()
    if x < 0.75:
        cn = n
    elif x < 0.88:
        cn = None
    else:
        cn = r.choice(NAMES)
    y = r.random()
    if y < 0.55:
        sans = [n]
    elif y < 0.85:
        sans = [n] + r.sample([m for m in NAMES if m != n], r.choice([1, 1, 2]))
        if r.random() < 0.25:
            r.shuffle(sans)
    elif cn is not None:
        sans = []
    else:
        sans = [n]
    return {"op": "get", "cn": cn, "sans": [_san(s) for s in sans], "org": r.choice(ORGS)}


def generate(rng, tier):
    r = rng.at("c17")
    cap = r.choice([1, 1, 2, 2, 3, 3, 5, 5, 100])
    big = cap == 100 and r.random() < 0.5
    if big:
        npool = r.randrange(104, 140)
        nops = 2 * npool + r.randrange(0, 40)
    else:
        npool = r.randrange(min(cap, 5) + 1, min(cap, 5) + 8)
        nops = r.randrange(8, 60)
    pool, seen = [], set()
    guard = 0
    while len(pool) < npool and guard < npool * 30:
        guard += 1
        q = _gen_request(r)
        k = (q["cn"], tuple(map(tuple, q["sans"])))
        if k in seen:
            continue
        seen.add(k)
        pool.append(q)
    p_add = r.choice([0.0, 0.05, 0.1, 0.2])
    star_ok = r.random() < 0.12
    ops = []
    # locality: a sliding window over the pool makes both hits and evictions frequent
    win = max(2, min(len(pool), cap + r.choice([0, 1, 2, 3]))) if not big else len(pool)
    pos = 0
    if big:
        for _ in range(r.choice([0, 0, 1, 2])):
            ops.append({"op": "add", "cert": r.randrange(len(CUSTOM)), "names": [r.choice(EXTRA_NAMES)]})
    for step in range(nops):
        if big and step < 2 * len(pool):
            # sweep: every pool entry once, interleaved with repeats of (recent or long gone) earlier ones
            if step % 2 == 0:
                ops.append(dict(pool[step // 2]))
            elif r.random() < 0.5:
                ops.append(dict(pool[r.randrange(0, step // 2 + 1)]))
            continue
        if r.random() < p_add:
            k = r.randrange(len(CUSTOM))
            names = []
            for _ in range(r.choice([0, 0, 1, 1, 2])):
                names.append(r.choice(EXTRA_NAMES))
            if star_ok and r.random() < 0.3:
                names.append("*")
            ops.append({"op": "add", "cert": k, "names": names})
            continue
        if r.random() < 0.25:
            pos = (pos + r.choice([1, 1, 2])) % len(pool)
        if r.random() < 0.15:
            q = r.choice(pool)
        else:
            q = pool[(pos + r.randrange(win)) % len(pool)]
        q = dict(q)
        if r.random() < 0.3:
            q["org"] = r.choice(ORGS)
        ops.append(q)
    ops = _add_failing_requests(rng.at("c17-fault"), ops, pool)
    return {"family": "cap-%d" % cap, "cap": cap, "ops": ops}


def _add_failing_requests(rf, ops, pool):
    """Failing requests, drawn from their own rng site so that the fault-free part of a history keeps its shape.

    A failing request is an ordinary request plus a reason for certificate generation to raise.  It only raises when
    the store has to generate (a cached or custom answer needs no generation), so most of them use fresh shapes."""
    p_fault = rf.choice([0.0, 0.03, 0.06, 0.12])
    p_retry = rf.choice([0.0, 0.4, 0.8])
    if not p_fault:
        return ops
    out = []
    for op in ops:
        out.append(op)
        if op["op"] != "get" or rf.random() >= p_fault:
            continue
        for _ in range(rf.choice([1, 1, 1, 2])):
            x = rf.random()
            if x < 0.55:
                q = _gen_request(rf)                 # mostly a shape the store has not got
            elif x < 0.85:
                q = dict(rf.choice(pool))            # evicted long ago, or still cached (then nothing fails)
            else:
                q = dict(op)                         # the request just answered: cached unless a custom one answered
            kind = rf.choice(FAULT_KINDS)
            q["fault"] = kind
            if kind == "empty_cn":
                q["cn"] = ""
                if not q["sans"]:
                    q["sans"] = [_san(rf.choice(NAMES))]
            out.append(q)
            if rf.random() < p_retry:
                q2 = dict(q)
                del q2["fault"]
                if kind == "empty_cn":
                    q2["cn"] = None
                if rf.random() < 0.3:
                    q2["crl"] = OK_CRL
                out.append(q2)
    return out


# ---------------------------------------------------------------------------
# real store (CA material is loaded once per worker process; it is immutable)
# ---------------------------------------------------------------------------
_BASE = {}


def _confdir():
    return os.path.join(os.path.dirname(os.path.dirname(os.path.abspath(__file__))), "data", "confdir")


def _base():
    if not _BASE:
        from mitmproxy import certs
        store = certs.CertStore.from_store(_confdir(), "mitmproxy", 2048)
        _BASE["store"] = store
        _BASE["custom"] = [_build_custom(store, i, cn, sans) for i, (cn, sans) in enumerate(CUSTOM)]
    return _BASE


def _general_name(kind, value):
    from cryptography import x509
    if kind == "ip":
        return x509.IPAddress(ipaddress.ip_address(value))
    return x509.DNSName(value)


def _build_custom(store, idx, cn, sans):
    """A 'user supplied' leaf certificate, built without mitmproxy's generator."""
    from cryptography import x509
    from cryptography.hazmat.primitives import hashes
    from cryptography.x509 import NameOID
    from mitmproxy import certs
    key = store.default_privatekey
    b = x509.CertificateBuilder()
    subject = [x509.NameAttribute(NameOID.ORGANIZATION_NAME, "custom-%d" % idx)]
    if cn is not None:
        subject.insert(0, x509.NameAttribute(NameOID.COMMON_NAME, cn))
    b = b.subject_name(x509.Name(subject)).issuer_name(store.default_ca._cert.subject)
    b = b.public_key(key.public_key()).serial_number(1000 + idx)
    b = b.not_valid_before(datetime.datetime(2026, 1, 1)).not_valid_after(datetime.datetime(2036, 1, 1))
    if sans:
        b = b.add_extension(x509.SubjectAlternativeName([_general_name(k, v) for k, v in sans]), critical=False)
    cert = certs.Cert(b.sign(private_key=key, algorithm=hashes.SHA256()))
    return certs.CertStoreEntry(cert, key, None, [cert])


# ---------------------------------------------------------------------------
# reference model
# ---------------------------------------------------------------------------
def wildcard_keys(name):
    """Documented rule: the name itself, then '*.' + every proper suffix of at least one label."""
    labels = name.split(".")
    return [name] + ["*." + ".".join(labels[i:]) for i in range(1, len(labels))]


def candidate_keys(cn, sans):
    """name -> how it matched ('exact' | 'wildcard' | 'star')."""
    out = {}
    if cn:
        for i, k in enumerate(wildcard_keys(cn)):
            out.setdefault(k, "exact" if i == 0 else "wildcard")
    for kind, v in sans:
        if kind == "dns":
            for i, k in enumerate(wildcard_keys(v)):
                out.setdefault(k, "exact" if i == 0 else "wildcard")
        else:
            out.setdefault(str(ipaddress.ip_address(v)), "exact")
    out.setdefault("*", "star")
    return out


class Model:
    def __init__(self, cap):
        self.cap = cap
        self.custom = {}        # registered name -> custom index
        self.fifo = []          # generated request keys, oldest first
        self.obj = {}           # request key -> entry object the store handed out
        self.org = {}           # request key -> organisation it was generated with
        self.ever = set()       # request keys that were generated at some point
        self.evictions = 0

    def register(self, idx, names):
        cn, sans = CUSTOM[idx]
        if cn:
            self.custom[cn] = idx
        for kind, v in sans:
            self.custom[str(ipaddress.ip_address(v)) if kind == "ip" else v] = idx
        for n in names:
            self.custom[n] = idx

    def generated(self, key, entry, org):
        self.fifo.append(key)
        self.obj[key] = entry
        self.org[key] = org
        self.ever.add(key)
        if len(self.fifo) > self.cap:
            old = self.fifo.pop(0)
            self.obj.pop(old, None)
            self.org.pop(old, None)
            self.evictions += 1


def _cert_names(cert):
    from cryptography import x509
    out = []
    for g in cert.altnames:
        if isinstance(g, x509.IPAddress):
            out.append(("ip", str(g.value)))
        elif isinstance(g, x509.DNSName):
            out.append(("dns", g.value))
        else:
            out.append(("other", repr(g)))
    return cert.cn, out


# ---------------------------------------------------------------------------
# executor
# ---------------------------------------------------------------------------
def execute(sc):
    base = _base()
    from mitmproxy import certs
    cap = int(sc["cap"])
    bs = base["store"]

    class Store(certs.CertStore):
        STORE_CAP = cap

    store = Store(bs.default_privatekey, bs.default_ca, None, bs.default_crl, bs.dhparams)
    customs = base["custom"]
    custom_ids = {id(e): i for i, e in enumerate(customs)}
    model = Model(cap)
    log = []
    viol = []
    seen_v = set()
    probes = {}
    distinct_req = set()
    faults = {}
    failed_keys = set()
    st = {"failed": False, "failed_full": False}

    def probe(n, k=1):
        probes[n] = probes.get(n, 0) + k

    def bad(cls, key, msg):
        sig = (cls, tuple(sorted(key.items())))
        if sig in seen_v:
            return
        seen_v.add(sig)
        viol.append({"class": cls, "key": key, "msg": msg})

    def check_answer(i, key, cn, sans, org, entry, req_txt):
        cand = candidate_keys(cn, sans)
        if id(entry) in custom_ids:
            k = custom_ids[id(entry)]
            hows = [how for name, how in cand.items() if model.custom.get(name) == k]
            if not hows:
                bad("custom_cert_for_other_names", {"custom": k},
                    f"step {i}: {req_txt} was answered with custom certificate #{k} "
                    f"(cn={CUSTOM[k][0]!r}), which is not registered under any name matching the request; "
                    f"registered names of #{k}: {sorted(n for n, c in model.custom.items() if c == k)}")
                log.append((i, "get", "custom-bad", k))
            else:
                how = "exact" if "exact" in hows else ("wildcard" if "wildcard" in hows else "star")
                probe("custom_" + how)
                if key in model.fifo:
                    probe("custom_shadows_cached")
                log.append((i, "get", "custom", k, how))
        else:
            ccn, csans = _cert_names(entry.cert)
            want_cn = cn if cn else None
            if want_cn is not None and len(want_cn) >= 64:
                probe("long_cn")
                cn_ok = ccn in (want_cn, None)
            else:
                cn_ok = ccn == want_cn
            if not cn_ok:
                bad("generated_cert_wrong_names", {"what": "cn"},
                    f"step {i}: {req_txt} returned a generated certificate with CN {ccn!r}")
            if sorted(csans) != sorted(sans):
                bad("generated_cert_wrong_names", {"what": "san"},
                    f"step {i}: {req_txt} returned a generated certificate with SANs {csans}")
            if key in model.fifo:
                if model.obj[key] is not entry:
                    bad("not_same_while_cached", {"kind": "cached_entry_replaced"},
                        f"step {i}: {req_txt} repeated while the model still holds it cached "
                        f"(capacity {cap}, {len(model.fifo)} generated keys live) but a different entry came back")
                    model.obj[key] = entry
                    log.append((i, "get", "gen-changed"))
                else:
                    probe("gen_hit")
                    if st["failed"]:
                        probe("hit_after_failure")
                    if model.org.get(key) != org:
                        probe("org_differs_on_hit")
                    log.append((i, "get", "gen-hit", model.fifo.index(key)))
            else:
                if key in model.ever:
                    probe("regenerated_after_eviction")
                if st["failed_full"]:
                    probe("gen_new_after_failure_store_full")
                ev0 = model.evictions
                model.generated(key, entry, org)
                if model.evictions > ev0:
                    probe("evictions")
                    if cap == 100:
                        probe("cap_100_eviction")
                log.append((i, "get", "gen-new", len(model.fifo)))

    for i, op in enumerate(sc.get("ops", [])):
        if op["op"] == "add":
            k = int(op["cert"]) % len(customs)
            names = [str(n) for n in op.get("names", [])]
            store.add_cert(customs[k], *names)
            model.register(k, names)
            log.append((i, "add", k, tuple(names)))
        else:
            cn = op.get("cn")
            sans = [(k, v) for k, v in op.get("sans", [])]
            if not cn and not sans:
                continue
            org = op.get("org")
            key = (cn, tuple(sans))
            if any(k == "ip" for k, _ in sans) or (cn and _is_ip(cn)):
                probe("ip_request")
            fault = op.get("fault")
            crl = BAD_CRL if fault == "crl" else op.get("crl")
            req_txt = f"get_cert(cn={cn!r}, sans={[v for _, v in sans]})"
            full_before = len(model.fifo) >= cap
            real_gen = certs.dummy_cert
            fired = []
            if fault == "inject":
                def failing_gen(*a, **kw):
                    fired.append(1)
                    raise OSError("injected: certificate generation failed")
                certs.dummy_cert = failing_gen
            try:
                try:
                    entry = store.get_cert(cn, [_general_name(k, v) for k, v in sans], org, crl)
                finally:
                    certs.dummy_cert = real_gen
            except Exception as exc:
                if not fault or (fault == "inject" and not fired):
                    raise
                # a failed request: nothing was generated, so the model does not move; the bound is checked below
                faults["gen_" + fault] = faults.get("gen_" + fault, 0) + 1
                probe("gen_failed")
                probe("gen_failed_" + fault)
                if full_before:
                    probe("gen_failed_store_full")
                    st["failed_full"] = True
                st["failed"] = True
                failed_keys.add(key if fault != "empty_cn" else (None, key[1]))
                log.append((i, "get", "raised", fault, type(exc).__name__))
                entry = None
            if entry is not None:
                distinct_req.add(key)
                if fault:
                    probe("fault_request_answered_from_store")
                elif key in failed_keys:
                    probe("retry_after_failure")
                check_answer(i, key, cn, sans, org, entry, req_txt)
        # ---- the bound, observed on the store's own state after every step -------------------------
        reach = {}
        for e in store.certs.values():
            if id(e) not in custom_ids:
                reach[id(e)] = e
        n_certs = len(reach)
        for e in store.expire_queue:
            if id(e) not in custom_ids:
                reach[id(e)] = e
        if len(reach) > cap:
            where = "certs" if n_certs > cap else "expire_queue"
            bad("capacity_exceeded", {"where": where},
                f"step {i}: {len(reach)} generated entries reachable from the store "
                f"({n_certs} via certs, {len(store.expire_queue)} queued) with capacity {cap}"
                + (f"; {sum(faults.values())} earlier request(s) failed inside certificate generation"
                   if faults else ""))
        log.append((i, "n", len(reach)))

    if len(distinct_req) > cap:
        probe("over_capacity_history")
        if cap == 100:
            probe("cap_100_overflow")
    nontrivial = bool(probes.get("evictions") and probes.get("gen_hit") and
                      (probes.get("regenerated_after_eviction") or probes.get("custom_exact")
                       or probes.get("custom_wildcard") or probes.get("custom_star")))
    return {"violations": viol, "digest": digest(log), "nontrivial": nontrivial, "faults": faults,
            "probes": probes, "sim_s": 0.0,
            "states": {f"{min(len(model.fifo), 6)}/{cap}", f"custom={len(set(model.custom.values()))}"}}
