#!/bin/bash
# usage: tools_soak.sh "C01 C03" "1 2 3"   -- runs quick tier for each property and seed, prints only alarms
for p in $1; do for s in $2; do
  out=$(VERIF_SEED=$s timeout 1500 ./vcheck $p --jobs ${JOBS:-14} 2>&1)
  echo "$out" | grep -a "class=\|HARNESS\|^VIOLATION" | cut -c1-260 | sed "s/^/[$p seed=$s] /"
  echo "$out" | grep -a "^\[$p\] runs" | cut -c1-160 | sed "s/^/[seed=$s] /"
done; done
