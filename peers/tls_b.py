"""TLS peers for the proxy world (C13, C14, C19): Python ``ssl`` (system OpenSSL) over ``ssl.MemoryBIO``,
pumped through a SimConn.  Independent of mitmproxy's pyOpenSSL build.

The simulated origin PKI is deterministic (Ed25519 keys derived from fixed labels, fixed serials and a fixed
validity window laid out far around the real clock), so every worker sees byte-identical certificates.  The PEM
files OpenSSL insists on reading from disk live in /verif/data/simca_b (created on first use, content-addressed).
"""
from __future__ import annotations

import asyncio
import datetime
import hashlib
import ipaddress
import os
import ssl

from cryptography import x509
from cryptography.hazmat.primitives import serialization
from cryptography.hazmat.primitives.asymmetric.ed25519 import Ed25519PrivateKey
from cryptography.x509.oid import ExtendedKeyUsageOID
from cryptography.x509.oid import NameOID

ROOT = os.path.dirname(os.path.dirname(os.path.abspath(__file__)))
SIMCA_DIR = os.path.join(ROOT, "data", "simca_b")
MITM_CA_PEM = os.path.join(ROOT, "data", "confdir", "mitmproxy-ca-cert.pem")

NOT_BEFORE = datetime.datetime(2025, 1, 1, tzinfo=datetime.timezone.utc)
NOT_AFTER = datetime.datetime(2045, 1, 1, tzinfo=datetime.timezone.utc)


def _key(label: str) -> Ed25519PrivateKey:
    return Ed25519PrivateKey.from_private_bytes(hashlib.blake2b(label.encode(), digest_size=32).digest())


def _serial(label: str) -> int:
    return int.from_bytes(hashlib.blake2b(label.encode(), digest_size=8).digest(), "big") | 1


def _write_once(path: str, data: bytes):
    if os.path.exists(path):
        return
    os.makedirs(os.path.dirname(path), exist_ok=True)
    tmp = f"{path}.{os.getpid()}.tmp"
    with open(tmp, "wb") as f:
        f.write(data)
    os.replace(tmp, path)


class Leaf:
    def __init__(self, names, pem_path, der):
        self.names, self.pem_path, self.der = names, pem_path, der


class SimCA:
    def __init__(self):
        self.key = _key("verif-simca-b-root")
        name = x509.Name([x509.NameAttribute(NameOID.COMMON_NAME, "verif sim origin CA (b)"),
                          x509.NameAttribute(NameOID.ORGANIZATION_NAME, "verif-sim")])
        self.name = name
        self.cert = (x509.CertificateBuilder().subject_name(name).issuer_name(name)
                     .public_key(self.key.public_key()).serial_number(_serial("root"))
                     .not_valid_before(NOT_BEFORE).not_valid_after(NOT_AFTER)
                     .add_extension(x509.BasicConstraints(ca=True, path_length=None), critical=True)
                     .add_extension(x509.KeyUsage(digital_signature=True, key_cert_sign=True, crl_sign=True,
                                                  content_commitment=False, key_encipherment=False,
                                                  data_encipherment=False, key_agreement=False,
                                                  encipher_only=False, decipher_only=False), critical=True)
                     .add_extension(x509.SubjectKeyIdentifier.from_public_key(self.key.public_key()), critical=False)
                     .sign(self.key, None))
        self.pem = self.cert.public_bytes(serialization.Encoding.PEM)
        self.pem_path = os.path.join(SIMCA_DIR, "ca-" + hashlib.blake2b(self.pem, digest_size=6).hexdigest() + ".pem")
        _write_once(self.pem_path, self.pem)
        self._leaves: dict[tuple, Leaf] = {}

    def leaf(self, names) -> Leaf:
        names = tuple(names)
        lf = self._leaves.get(names)
        if lf is not None:
            return lf
        label = "leaf:" + ",".join(names)
        key = _key(label)
        sans = []
        for n in names:
            try:
                sans.append(x509.IPAddress(ipaddress.ip_address(n)))
            except ValueError:
                sans.append(x509.DNSName(n))
        cert = (x509.CertificateBuilder()
                .subject_name(x509.Name([x509.NameAttribute(NameOID.COMMON_NAME, names[0]),
                                         x509.NameAttribute(NameOID.ORGANIZATION_NAME, "sim origin")]))
                .issuer_name(self.name).public_key(key.public_key()).serial_number(_serial(label))
                .not_valid_before(NOT_BEFORE).not_valid_after(NOT_AFTER)
                .add_extension(x509.BasicConstraints(ca=False, path_length=None), critical=True)
                .add_extension(x509.SubjectAlternativeName(sans), critical=False)
                .add_extension(x509.ExtendedKeyUsage([ExtendedKeyUsageOID.SERVER_AUTH]), critical=False)
                .add_extension(x509.AuthorityKeyIdentifier.from_issuer_public_key(self.key.public_key()), critical=False)
                .sign(self.key, None))
        pem = (key.private_bytes(serialization.Encoding.PEM, serialization.PrivateFormat.PKCS8,
                                 serialization.NoEncryption())
               + cert.public_bytes(serialization.Encoding.PEM))
        path = os.path.join(SIMCA_DIR, "leaf-" + hashlib.blake2b(pem, digest_size=8).hexdigest() + ".pem")
        _write_once(path, pem)
        lf = Leaf(names, path, cert.public_bytes(serialization.Encoding.DER))
        self._leaves[names] = lf
        return lf


_CA: SimCA | None = None
_SRV_CTX: dict = {}
_CLI_CTX: dict = {}
_MITM_CA_NAME = None


def sim_ca() -> SimCA:
    global _CA
    if _CA is None:
        _CA = SimCA()
    return _CA


_VERS = {"1.2": ssl.TLSVersion.TLSv1_2, "1.3": ssl.TLSVersion.TLSv1_3}


def server_context(names, alpn=(), max_version="1.3", min_version="1.2") -> tuple[ssl.SSLContext, Leaf]:
    """Origin context (cached per worker; session cache and tickets off so that runs do not leak into each other)."""
    k = (tuple(names), tuple(alpn), max_version, min_version)
    hit = _SRV_CTX.get(k)
    if hit is None:
        lf = sim_ca().leaf(names)
        ctx = ssl.SSLContext(ssl.PROTOCOL_TLS_SERVER)
        ctx.load_cert_chain(lf.pem_path)
        ctx.minimum_version = _VERS[min_version]
        ctx.maximum_version = _VERS[max_version]
        ctx.options |= ssl.OP_NO_TICKET
        ctx.num_tickets = 0
        if alpn:
            ctx.set_alpn_protocols(list(alpn))
        hit = _SRV_CTX[k] = (ctx, lf)
    return hit


def client_context(trust="mitm", alpn=(), max_version="1.3", min_version="1.2", ciphers=None, verify=True) -> ssl.SSLContext:
    """trust: "mitm" (only mitmproxy's CA), "sim" (only the sim origin CA), "both"."""
    k = (trust, tuple(alpn), max_version, min_version, ciphers, verify)
    ctx = _CLI_CTX.get(k)
    if ctx is None:
        ctx = ssl.SSLContext(ssl.PROTOCOL_TLS_CLIENT)
        if trust in ("mitm", "both"):
            ctx.load_verify_locations(cafile=MITM_CA_PEM)
        if trust in ("sim", "both"):
            ctx.load_verify_locations(cafile=sim_ca().pem_path)
        if not verify:
            ctx.check_hostname = False
            ctx.verify_mode = ssl.CERT_NONE
        ctx.minimum_version = _VERS[min_version]
        ctx.maximum_version = _VERS[max_version]
        if alpn:
            ctx.set_alpn_protocols(list(alpn))
        if ciphers:
            ctx.set_ciphers(ciphers)
        _CLI_CTX[k] = ctx
    return ctx


def issuer_kind(der: bytes | None) -> str:
    """Who issued the certificate a client was shown: "mitmproxy", "sim" or "other"."""
    global _MITM_CA_NAME
    if not der:
        return "none"
    if _MITM_CA_NAME is None:
        with open(MITM_CA_PEM, "rb") as f:
            _MITM_CA_NAME = x509.load_pem_x509_certificate(f.read()).subject
    iss = x509.load_der_x509_certificate(der).issuer
    if iss == _MITM_CA_NAME:
        return "mitmproxy"
    if iss == sim_ca().name:
        return "sim"
    return "other"


def abs_cuts(cuts, n):
    """Cut list -> absolute offsets in a flight of n bytes: floats < 1 are fractions, numbers >= 1 absolute."""
    out = set()
    for f in cuts:
        k = int(f * n) if f < 1 else int(f)
        if 0 < k < n:
            out.add(k)
    return sorted(out)


class seeded_serials:
    """Context manager: certificate serial numbers generated by mitmproxy.certs come from the scenario seed
    (the DER length of a random 159-bit serial varies, and with it every later TLS record length)."""

    def __init__(self, seed: int):
        import random
        self.r = random.Random(seed ^ 0xC0FFEE)

    def __enter__(self):
        from mitmproxy import certs as mcerts
        self.mod = mcerts.x509
        self.old = self.mod.random_serial_number
        self.mod.random_serial_number = lambda: (self.r.getrandbits(158) | (1 << 157))
        return self

    def __exit__(self, *a):
        self.mod.random_serial_number = self.old


def crash_violation(w, extra_key=None):
    """First entry of the crash monitor as a violation (later crashes are usually consequences)."""
    if not w.crashes:
        return None
    t, msg, tb = w.crashes[0]
    exc = tb.split(":")[0] if tb else ""
    where = tb.rsplit(" @ ", 1)[-1] if " @ " in tb else ""
    key = {"exc": exc, "where": where}
    if extra_key:
        key.update(extra_key)
    return {"class": "crash", "key": key, "msg": f"t={t:.6f} {msg} [{tb[:300]}]"}


async def http_connect(c, authority: str, host_header: str | None = None, timeout=30.0):
    """Regular-mode preamble: CONNECT and wait for the end of the response head.  Returns the status line."""
    hh = authority if host_header is None else host_header
    c.feed(f"CONNECT {authority} HTTP/1.1\r\nHost: {hh}\r\n\r\n".encode())
    while b"\r\n\r\n" not in c.rx:
        if c.rx_eof or not await c.wait_change(timeout):
            return None
    i = c.rx.index(b"\r\n\r\n") + 4
    head = bytes(c.rx[:i])
    del c.rx[:i]
    return head.split(b"\r\n", 1)[0].decode("latin-1")


def socks5_request(host: str, port: int) -> bytes:
    try:
        ip = ipaddress.ip_address(host)
    except ValueError:
        hb = host.encode("ascii")
        addr = b"\x03" + bytes([len(hb)]) + hb
    else:
        addr = (b"\x01" if ip.version == 4 else b"\x04") + ip.packed
    return b"\x05\x01\x00" + addr + port.to_bytes(2, "big")


async def socks5_connect(c, host: str, port: int, timeout=30.0, trailing: bytes = b""):
    """SOCKS5 preamble without authentication.  `trailing` bytes ride in the same segment as the request."""
    c.feed(b"\x05\x01\x00")
    while len(c.rx) < 2:
        if c.rx_eof or not await c.wait_change(timeout):
            return None
    del c.rx[:2]
    c.feed(socks5_request(host, port) + trailing)
    while len(c.rx) < 10:
        if c.rx_eof or not await c.wait_change(timeout):
            return None
    rep = bytes(c.rx[:10])
    del c.rx[:10]
    return rep[1]


class TlsEnd:
    """One TLS endpoint (client or origin side) driven over a SimConn."""

    def __init__(self, conn, sslobj, inc, out):
        self.conn, self.obj, self.inc, self.out = conn, sslobj, inc, out
        self.plain = bytearray()
        self.events: list = []       # ("data", total_so_far) / ("close_notify", total) / ("eof", total) / ("error", text)
        self.done_hs = False
        self.hs_error: str | None = None
        self.got_close_notify = False
        self.got_eof = False
        self.read_error: str | None = None
        self._eof_fed = False
        self.raw_in = 0              # ciphertext bytes consumed from the proxy
        self.raw_out = 0             # ciphertext bytes handed to the proxy
        self.first_flight: bytes | None = None

    @classmethod
    def client(cls, conn, ctx, server_hostname):
        inc, out = ssl.MemoryBIO(), ssl.MemoryBIO()
        return cls(conn, ctx.wrap_bio(inc, out, server_side=False, server_hostname=server_hostname), inc, out)

    @classmethod
    def server(cls, conn, ctx):
        inc, out = ssl.MemoryBIO(), ssl.MemoryBIO()
        return cls(conn, ctx.wrap_bio(inc, out, server_side=True), inc, out)

    # -- plumbing -----------------------------------------------------------------------
    def absorb(self) -> bool:
        got = False
        d = self.conn.take()
        if d:
            self.raw_in += len(d)
            self.inc.write(d)
            got = True
        if self.conn.rx_eof and not self._eof_fed:
            # The transport FIN is remembered here but NOT written into OpenSSL's BIO: a peer whose read side saw
            # a FIN without close_notify may still write (TCP half-close); feeding the EOF would poison the session.
            self._eof_fed = True
            got = True
        return got

    def pending_input(self) -> bool:
        return bool(self.conn.rx) or (self.conn.rx_eof and not self._eof_fed)

    def pop_out(self) -> bytes:
        return self.out.read() if self.out.pending else b""

    async def flush(self, cuts=(), gaps=(), min_cut=0):
        d = self.pop_out()
        if not d:
            return 0
        self.raw_out += len(d)
        await self.conn.send(d, cuts=[c for c in abs_cuts(cuts, len(d)) if c >= min_cut], gaps=gaps)
        return len(d)

    async def wait_input(self, timeout) -> bool:
        if self.pending_input():
            return True
        return await self.conn.wait_change(timeout)

    # -- handshake ---------------------------------------------------------------------------
    def hs_step(self) -> str:
        """One do_handshake attempt: "done" | "want" | "error"."""
        try:
            self.obj.do_handshake()
        except ssl.SSLWantReadError:
            return "want"
        except (ssl.SSLError, OSError) as e:
            self.hs_error = f"{type(e).__name__}:{getattr(e, 'reason', None) or e}"
            return "error"
        self.done_hs = True
        return "done"

    async def handshake(self, timeout=30.0, cuts=(), gaps=(), hold_last=False, first_transform=None,
                        min_first_cut=0) -> bool:
        """Drive the handshake.  With hold_last the final flight stays in the outgoing BIO so that the caller
        can append application data to the very same flight.  `cuts`/`gaps` segment the first flight (cuts below
        min_first_cut are dropped: the proxy documents that it needs three bytes to recognise TLS).
        `first_transform(bytes) -> {"data", "cuts", "gaps"}` may re-frame the first flight (C13)."""
        first = True
        while True:
            self.absorb()
            st = self.hs_step()
            if st == "done":
                if not hold_last:
                    await self.flush(cuts, gaps)
                return True
            if st == "error":
                await self.flush()
                return False
            if first and first_transform is not None:
                self.first_flight = self.out.read() if self.out.pending else b""
                d = first_transform(self.first_flight)
                self.raw_out += len(d["data"])
                await self.conn.send(d["data"], cuts=d.get("cuts", ()), gaps=d.get("gaps", ()))
            else:
                await self.flush(cuts if first else (), gaps if first else (), min_cut=min_first_cut if first else 0)
            first = False
            if self._eof_fed:
                self.hs_error = self.hs_error or "eof during handshake"
                return False
            if not await self.wait_input(timeout):
                self.hs_error = "timeout"
                return False

    # -- application data ------------------------------------------------------------------------
    def write_records(self, data: bytes, sizes) -> int:
        """Encrypt `data` as one TLS record per entry of sizes (the rest in 16 KiB records)."""
        pos = 0
        for s in sizes:
            if pos >= len(data):
                break
            s = max(1, min(16384, s))
            self.obj.write(data[pos:pos + s])
            pos += s
        while pos < len(data):
            self.obj.write(data[pos:pos + 16384])
            pos += 16384
        return pos

    def read_plain(self):
        """Decrypt everything that is available; note close_notify / EOF in order."""
        self.absorb()
        while True:
            try:
                d = self.obj.read(65536)
            except ssl.SSLWantReadError:
                if self._eof_fed and not self.conn.rx and not self.got_eof:
                    # transport FIN and OpenSSL has consumed everything that came before it
                    self.got_eof = True
                    self.events.append(("eof", len(self.plain)))
                return
            except ssl.SSLZeroReturnError:
                if not self.got_close_notify:
                    self.got_close_notify = True
                    self.events.append(("close_notify", len(self.plain)))
                return
            except ssl.SSLEOFError:
                if not self.got_eof:
                    self.got_eof = True
                    self.events.append(("eof", len(self.plain)))
                return
            except (ssl.SSLError, OSError) as e:
                if self.read_error is None:
                    self.read_error = f"{type(e).__name__}:{getattr(e, 'reason', None) or e}"
                    self.events.append(("error", len(self.plain)))
                return
            if not d:
                # SSLObject.read returns b"" after a close_notify was received
                if not self.got_close_notify:
                    self.got_close_notify = True
                    self.events.append(("close_notify", len(self.plain)))
                return
            self.plain += d
            self.events.append(("data", len(self.plain)))

    def send_close_notify(self):
        try:
            self.obj.unwrap()
        except (ssl.SSLWantReadError, ssl.SSLError, OSError):
            pass

    @property
    def closed_in(self) -> bool:
        return self.got_close_notify or self.got_eof or self.read_error is not None

    def peer_cert_der(self):
        try:
            return self.obj.getpeercert(binary_form=True)
        except (ValueError, ssl.SSLError):
            return None

    async def reader(self, until=None, idle=60.0):
        """Background task: keep decrypting until the inbound side is closed."""
        while not self.closed_in:
            self.read_plain()
            if self.closed_in or (until is not None and until()):
                return
            if not await self.wait_input(idle):
                return
