"""HTTP/2 client and origin peers built on hyper-h2 (`h2.connection.H2Connection`), running on a
`peers.tls_h2.TlsStream` (or any object with write()/pull()/wait()/close()/eof).

The peers are *scripted*: everything they send is given by the scenario (header lists, body chunks,
trailers, resets, SETTINGS changes, GOAWAY, when to acknowledge flow-controlled data).  They never
validate or normalise headers (so adversarial header blocks can be sent and whatever mitmproxy emits
is seen raw); framing, stream states, flow control and stream concurrency are still enforced by h2 on
what they RECEIVE - an h2 ProtocolError raised by `receive_data` is therefore caused by the bytes the
proxy sent and is recorded in `proto_error`; errors raised on the SEND path are harness bugs, except
the legitimate race "the proxy has meanwhile reset/closed the stream", which is skipped and counted.

Independent bookkeeping used by the oracles (not taken from h2's state):
* origin: number of open streams at every new request and the MAX_CONCURRENT_STREAMS value in force,
  i.e. the value of the last SETTINGS frame the proxy has ACKNOWLEDGED (RFC 9113 6.5.3 / 5.1.2).
"""
from __future__ import annotations

import asyncio

import h2.config
import h2.connection
import h2.errors
import h2.events
import h2.exceptions
import h2.settings

SC = h2.settings.SettingCodes


class PeerHarnessError(RuntimeError):
    pass


def B(s) -> bytes:
    return s.encode("latin-1") if isinstance(s, str) else bytes(s)


def hdrs(pairs):
    return [(B(n), B(v)) for n, v in pairs]


def make_conn(client_side: bool) -> h2.connection.H2Connection:
    cfg = h2.config.H2Configuration(
        client_side=client_side, header_encoding=False,
        validate_outbound_headers=False, normalize_outbound_headers=False,
        validate_inbound_headers=False, normalize_inbound_headers=False)
    return h2.connection.H2Connection(cfg)


def settings_dict(s: dict | None) -> dict:
    out = {}
    s = s or {}
    if s.get("mcs") is not None:
        out[SC.MAX_CONCURRENT_STREAMS] = s["mcs"]
    if s.get("iws") is not None:
        out[SC.INITIAL_WINDOW_SIZE] = s["iws"]
    if s.get("max_frame") is not None:
        out[SC.MAX_FRAME_SIZE] = s["max_frame"]
    if s.get("header_table") is not None:
        out[SC.HEADER_TABLE_SIZE] = s["header_table"]
    return out


class _Endpoint:
    def __init__(self, world, tls, name: str, client_side: bool):
        self.world = world
        self.tls = tls
        self.name = name
        self.conn = make_conn(client_side)
        self.log: list = []            # abstract event log (digest material)
        self.proto_error: str | None = None   # h2 refused bytes the proxy sent
        self.goaway_rx = None          # (error_code, last_stream_id)
        self.goaway_tx = None
        self.remote_settings_seen = 0
        self.acks_seen = 0
        self.closed = False
        self.skipped_sends = 0
        self.ack_mode = "now"
        self._unacked: list = []       # [(flow_controlled_length, stream_id)]
        self._rxbuf = bytearray()
        self._preface_done = False
        self.empty_data_frames = 0

    def now(self):
        return self.world.loop.time()

    def note(self, *ev):
        self.log.append((round(self.now(), 6), self.name) + ev)

    def flush(self):
        d = self.conn.data_to_send()
        if d and not self.closed:
            self.tls.write(d)

    def feed(self, data: bytes):
        """h2.receive_data with error classification; returns the events."""
        if self.proto_error is not None or not data:
            return []
        if self.goaway_tx is not None:
            # h2 refuses all input once it has sent GOAWAY; frames still in flight are not the proxy's fault
            self.note("rx_after_goaway", len(data))
            return []
        data = self._drop_empty_data_frames(data)
        if not data:
            return []
        try:
            evs = self.conn.receive_data(data)
        except h2.exceptions.ProtocolError as e:
            self.proto_error = f"{type(e).__name__}: {e}"
            self.note("proto_error", type(e).__name__)
            self.flush()  # h2 has queued a GOAWAY
            return []
        return evs

    def _drop_empty_data_frames(self, data: bytes) -> bytes:
        """RFC 9113 6.9: flow control counts DATA payload only, so a zero-length DATA frame is legal whatever the window.
        hyper-h2 nevertheless raises 'Flow control window shrunk below 0' when one arrives while the window is negative
        (after a SETTINGS_INITIAL_WINDOW_SIZE reduction).  Zero-length DATA frames without END_STREAM carry nothing, so
        the peer drops them before h2 sees them (counted in `empty_data_frames`); everything else passes unchanged."""
        self._rxbuf += data
        out = bytearray()
        buf = self._rxbuf
        if not self._preface_done:
            if self.conn.config.client_side:
                self._preface_done = True
            else:
                if len(buf) < 24:
                    return b""
                out += buf[:24]
                del buf[:24]
                self._preface_done = True
        while len(buf) >= 9:
            ln = int.from_bytes(buf[0:3], "big")
            if len(buf) < 9 + ln:
                break
            ftype, flags = buf[3], buf[4]
            if ftype == 0 and ln == 0 and not (flags & 0x1):
                self.empty_data_frames += 1
                self.note("empty_data_dropped", int.from_bytes(buf[5:9], "big") & 0x7FFFFFFF)
            else:
                out += buf[:9 + ln]
            del buf[:9 + ln]
        return bytes(out)

    def ack_data(self, n: int, sid: int):
        if n <= 0:
            return
        if self.ack_mode == "now":
            self._ack(n, sid)
        elif self.ack_mode == "conn":
            # flow-control policy "stream windows are opened by SETTINGS_INITIAL_WINDOW_SIZE changes only" (RFC 9113
            # 6.9.2): hand back connection-level credit at once, never send a stream-level WINDOW_UPDATE
            try:
                self.conn.increment_flow_control_window(n)
            except (h2.exceptions.ProtocolError, ValueError):
                pass
        else:
            self._unacked.append((n, sid))

    def _ack(self, n, sid):
        # Hand back exactly what was consumed, on the connection and on the stream.  (h2's own
        # acknowledge_received_data() withholds credit below a threshold; combined with a SETTINGS frame
        # that shrinks INITIAL_WINDOW_SIZE this can leave the sender blocked for ever - a peer artefact.)
        try:
            self.conn.increment_flow_control_window(n)
        except (h2.exceptions.ProtocolError, ValueError):
            pass  # connection already closed: nothing to hand back
        if sid in self.conn.streams:
            try:
                self.conn.increment_flow_control_window(n, sid)
            except (h2.exceptions.ProtocolError, ValueError):
                pass  # stream already closed

    def release_acks(self):
        pend, self._unacked = self._unacked, []
        for n, sid in pend:
            self._ack(n, sid)
        self.flush()

    def common_event(self, ev) -> bool:
        if isinstance(ev, h2.events.RemoteSettingsChanged):
            self.remote_settings_seen += 1
            self.note("settings_rx", len(ev.changed_settings))
            return True
        if isinstance(ev, h2.events.SettingsAcknowledged):
            self.acks_seen += 1
            self.note("settings_ack_rx")
            self.on_settings_ack()
            return True
        if isinstance(ev, h2.events.ConnectionTerminated):
            self.goaway_rx = (int(ev.error_code), ev.last_stream_id)
            self.note("goaway_rx", int(ev.error_code), ev.last_stream_id)
            return True
        if isinstance(ev, (h2.events.WindowUpdated, h2.events.PingReceived, h2.events.PingAckReceived,
                           h2.events.PriorityUpdated, h2.events.UnknownFrameReceived,
                           h2.events.AlternativeServiceAvailable)):
            return True
        return False

    def on_settings_ack(self):
        pass

    def send_guard(self, fn, *a, **kw) -> bool:
        """Run a send-side h2 call; False if the stream/connection is gone (legitimate race)."""
        try:
            fn(*a, **kw)
            return True
        except (h2.exceptions.StreamClosedError, h2.exceptions.NoSuchStreamError, h2.exceptions.StreamIDTooLowError,
                KeyError):
            # StreamIDTooLow: h2 has already forgotten a stream the proxy reset in the same batch of frames
            # (the peers only ever send on stream ids they have seen or allocated themselves); KeyError: hyper-h2's
            # send_data looks an evicted closed stream up in its dict without its usual guard
            self.skipped_sends += 1
            return False
        except h2.exceptions.ProtocolError as e:
            if self.goaway_rx is not None or self.proto_error is not None or self.closed or \
                    self.conn.state_machine.state == h2.connection.ConnectionState.CLOSED:
                self.skipped_sends += 1
                return False
            raise PeerHarnessError(f"{self.name}: send-side h2 error {type(e).__name__}: {e}")

    def close(self, goaway: bool = False, code: int = 0):
        if self.closed:
            return
        if goaway and self.proto_error is None:
            try:
                self.conn.close_connection(code)
                self.goaway_tx = code
            except h2.exceptions.ProtocolError:
                pass
            self.flush()
        self.closed = True
        self.tls.close()


# =====================================================================================================
# origin
# =====================================================================================================
class H2Origin(_Endpoint):
    """spec:
      settings {mcs, iws, max_frame}, settings_delay (s before the first SETTINGS), ack_mode now|lazy,
      ack_every (s) for lazy mode,
      mcs_changes [{after: j-th request headers, mcs: v, delay: s}],
      goaway {after: j, delay: s, last: "seen"|"zero", close_after: s} | None,
      tcp_close {after: j, delay: s} | None,
      responses {marker: {delay, early, status|headers, chunks [str], gaps [s], trailers [[n,v]]|None,
                          rst {code, after_chunks} | None, info [[n,v]]|None, end_with_empty_data bool}},
      default_response
    marker_of(headers) -> str maps a request to its script entry.
    """

    def __init__(self, world, tls, spec: dict, marker_of, name="origin"):
        super().__init__(world, tls, name, client_side=False)
        self.spec = spec
        self.marker_of = marker_of
        self.ack_mode = spec.get("ack_mode", "now")
        self.requests: list = []       # in arrival order of the request HEADERS
        self.by_sid: dict = {}
        self.open: set = set()
        self.limit_in_force = None     # None = no limit in force yet (RFC 9113 6.5.2: initially unlimited)
        self._pending_limits: list = []
        self.last_mcs_sent = None
        self.limit_violations: list = []
        self.max_open = 0
        self.tasks: list = []
        self._goaway_done = False
        self._seen_headers = 0
        self.first_settings_sent_at = None

    # -- SETTINGS bookkeeping ----------------------------------------------------------
    def send_settings(self, sdict: dict):
        """Every SETTINGS frame we send is queued; the value takes force when the proxy ACKs it."""
        self._pending_limits.append(sdict.get(SC.MAX_CONCURRENT_STREAMS, "unchanged"))
        if SC.MAX_CONCURRENT_STREAMS in sdict:
            self.last_mcs_sent = sdict[SC.MAX_CONCURRENT_STREAMS]

    def send_raw_mcs(self, value: int):
        import hyperframe.frame as HF
        self.flush()
        f = HF.SettingsFrame(0)
        f.settings[int(SC.MAX_CONCURRENT_STREAMS)] = int(value)
        if not self.closed:
            self.tls.write(f.serialize())
        self.send_settings({SC.MAX_CONCURRENT_STREAMS: int(value)})

    def has_capacity(self) -> bool:
        """Could the proxy open one more stream here (as far as the origin's own announcements go)?"""
        if self.closed or self.proto_error is not None or self.goaway_tx is not None:
            return False
        lim = self.last_mcs_sent
        return lim is None or len(self.open) < lim

    def on_settings_ack(self):
        if self._pending_limits:
            v = self._pending_limits.pop(0)
            if v != "unchanged":
                self.limit_in_force = v

    async def run(self):
        spec = self.spec
        if spec.get("settings_delay"):
            await asyncio.sleep(spec["settings_delay"])
        # MAX_CONCURRENT_STREAMS is managed by this peer itself (raw SETTINGS frames + own bookkeeping): h2 keeps one
        # queue of pending values per setting and applies the next one on ANY ACK, i.e. possibly one ACK early,
        # which would blame the proxy for streams it opened before it could have seen the new limit.
        self.conn.local_settings = h2.settings.Settings(
            client=False, initial_values={SC.MAX_CONCURRENT_STREAMS: 2 ** 31 - 1,
                                          SC.MAX_HEADER_LIST_SIZE: self.conn.DEFAULT_MAX_HEADER_LIST_SIZE})
        self.conn.initiate_connection()
        self.send_settings({SC.MAX_CONCURRENT_STREAMS: None})   # 2^31-1: no limit
        init = settings_dict(spec.get("settings"))
        mcs0 = init.pop(SC.MAX_CONCURRENT_STREAMS, None)
        if init:
            self.conn.update_settings(init)
            self.send_settings({})
        self.flush()
        if mcs0 is not None:
            self.send_raw_mcs(mcs0)
        self.first_settings_sent_at = self.now()
        self.note("settings_tx", sorted(int(k) for k in init), mcs0)
        lazy_every = spec.get("ack_every", 0.05)
        idle = spec.get("idle_close", 40.0)
        while not self.closed:
            data = self.tls.pull()
            if data:
                for ev in self.feed(data):
                    self.handle(ev)
                self.flush()
            if self.proto_error is not None:
                self.close()
                break
            if self.tls.eof:
                self.note("peer_eof")
                self.closed = True
                self.tls.close(notify=False)
                break
            if self.ack_mode == "lazy" and self._unacked:
                got = await self.tls.wait(lazy_every)
                if not got:
                    self.release_acks()
                continue
            if not await self.tls.wait(idle):
                if self.tls.conn.rx_eof:
                    continue
                self.note("idle_close")
                self.close(goaway=True)
                break
        for t in self.tasks:
            if not t.done():
                t.cancel()

    # -- events ------------------------------------------------------------------------------
    def _closed_stream(self, sid):
        self.open.discard(sid)

    def handle(self, ev):
        if self.common_event(ev):
            return
        if isinstance(ev, h2.events.RequestReceived):
            sid = ev.stream_id
            headers = [(bytes(n), bytes(v)) for n, v in ev.headers]
            n_open = len(self.open)
            rec = {"sid": sid, "t": self.now(), "headers": headers, "body": bytearray(), "data_frames": [],
                   "trailers": None, "ended": False, "reset": None, "order": len(self.requests),
                   "open_before": n_open, "limit": self.limit_in_force, "marker": None,
                   "responded": False, "resp_reset_by_peer": False, "local_done": False}
            try:
                rec["marker"] = self.marker_of(headers)
            except Exception:  # pragma: no cover
                rec["marker"] = None
            if self.limit_in_force is not None and n_open >= self.limit_in_force:
                self.limit_violations.append({"sid": sid, "open": n_open, "limit": self.limit_in_force,
                                              "marker": rec["marker"]})
            self.open.add(sid)
            self.max_open = max(self.max_open, len(self.open))
            self.requests.append(rec)
            self.by_sid[sid] = rec
            self.note("req_headers", rec["order"], len(headers), bool(ev.stream_ended))
            self._seen_headers += 1
            self._triggers()
            r = self._script(rec)
            if r is not None and r.get("early"):
                self._start_response(rec, r)
        elif isinstance(ev, h2.events.DataReceived):
            rec = self.by_sid.get(ev.stream_id)
            if rec is not None:
                rec["body"] += ev.data
                rec["data_frames"].append(len(ev.data))
                self.note("req_data", rec["order"], len(ev.data))
            self.ack_data(ev.flow_controlled_length, ev.stream_id)
        elif isinstance(ev, h2.events.TrailersReceived):
            rec = self.by_sid.get(ev.stream_id)
            if rec is not None:
                rec["trailers"] = [(bytes(n), bytes(v)) for n, v in ev.headers]
                self.note("req_trailers", rec["order"], len(rec["trailers"]))
        elif isinstance(ev, h2.events.StreamEnded):
            rec = self.by_sid.get(ev.stream_id)
            if rec is not None:
                rec["ended"] = True
                self.note("req_end", rec["order"])
                if rec["local_done"]:
                    self._closed_stream(ev.stream_id)
                r = self._script(rec)
                if r is not None and not r.get("early"):
                    self._start_response(rec, r)
        elif isinstance(ev, h2.events.StreamReset):
            rec = self.by_sid.get(ev.stream_id)
            if rec is not None:
                rec["reset"] = int(ev.error_code)
                self.note("req_reset", rec["order"], int(ev.error_code))
            self._closed_stream(ev.stream_id)
        elif isinstance(ev, (h2.events.InformationalResponseReceived, h2.events.ResponseReceived,
                             h2.events.PushedStreamReceived)):  # pragma: no cover
            self.note("unexpected", type(ev).__name__)

    def _script(self, rec):
        rs = self.spec.get("responses", {})
        r = rs.get(rec["marker"]) if rec["marker"] is not None else None
        if r is None:
            r = self.spec.get("default_response")
        return r

    def _triggers(self):
        j = self._seen_headers
        for ch in self.spec.get("mcs_changes", []) or []:
            if ch.get("after") == j and not ch.get("_done"):
                ch["_done"] = True
                self.tasks.append(self.world.loop.create_task(self._change_mcs(ch), name="sim-origin-mcs"))
        for ch in self.spec.get("iws_changes", []) or []:
            if ch.get("after") == j and not ch.get("_done"):
                ch["_done"] = True
                self.tasks.append(self.world.loop.create_task(self._change_iws(ch), name="sim-origin-iws"))
        g = self.spec.get("goaway")
        if g and g.get("after") == j and not self._goaway_done:
            self._goaway_done = True
            self.tasks.append(self.world.loop.create_task(self._goaway(g), name="sim-origin-goaway"))
        tc = self.spec.get("tcp_close")
        if tc and tc.get("after") == j and not tc.get("_done"):
            tc["_done"] = True
            self.tasks.append(self.world.loop.create_task(self._tcp_close(tc), name="sim-origin-close"))

    async def _change_iws(self, ch):
        """Re-open (or shrink) every stream's window with a SETTINGS_INITIAL_WINDOW_SIZE change, in a segment of its own."""
        if ch.get("delay"):
            await asyncio.sleep(ch["delay"])
        if self.closed or self.proto_error or self.goaway_tx is not None or self.tls.eof:
            return
        self.flush()
        if not self.send_guard(self.conn.update_settings, {SC.INITIAL_WINDOW_SIZE: int(ch["iws"])}):
            return
        self.send_settings({})
        self.world.net.fired("origin_iws_change")
        self.note("iws_tx", int(ch["iws"]))
        self.flush()

    async def _change_mcs(self, ch):
        if ch.get("delay"):
            await asyncio.sleep(ch["delay"])
        if self.closed or self.proto_error:
            return
        if self.goaway_tx is not None or self.tls.eof:
            return
        self.send_raw_mcs(ch["mcs"])
        self.world.net.fired("origin_settings_change")
        self.note("mcs_tx", ch["mcs"])

    async def _goaway(self, g):
        if g.get("delay"):
            await asyncio.sleep(g["delay"])
        if self.closed or self.proto_error:
            return
        last = max(self.by_sid) if (self.by_sid and g.get("last", "seen") == "seen") else 0
        try:
            self.conn.close_connection(error_code=g.get("code", 0), last_stream_id=last)
        except h2.exceptions.ProtocolError:  # pragma: no cover
            return
        self.goaway_tx = g.get("code", 0)
        self.world.net.fired("origin_goaway")
        self.note("goaway_tx", last)
        self.flush()
        await asyncio.sleep(g.get("close_after", 0.5))
        if not self.closed:
            self.closed = True
            self.tls.close()

    async def _tcp_close(self, tc):
        if tc.get("delay"):
            await asyncio.sleep(tc["delay"])
        if self.closed:
            return
        self.world.net.fired("origin_tcp_close")
        self.note("tcp_close")
        self.closed = True
        if tc.get("rst"):
            self.tls.closed_by_us = True
            self.tls.conn.reset()
        else:
            self.tls.close(notify=bool(tc.get("notify", True)))

    # -- responses ------------------------------------------------------------------------------
    def _start_response(self, rec, r):
        if rec["responded"]:
            return
        rec["responded"] = True
        self.tasks.append(self.world.loop.create_task(self._respond(rec, r), name=f"sim-origin-resp-{rec['sid']}"))

    def _usable(self, rec):
        return not (self.closed or self.proto_error is not None or rec["reset"] is not None
                    or self._goaway_tx_closed())

    def _goaway_tx_closed(self):
        return self.conn.state_machine.state == h2.connection.ConnectionState.CLOSED

    def _local_end(self, rec):
        rec["local_done"] = True
        if rec["ended"] or rec["reset"] is not None:
            self._closed_stream(rec["sid"])

    async def _respond(self, rec, r):
        sid = rec["sid"]
        if r.get("delay"):
            await asyncio.sleep(r["delay"])
        if not self._usable(rec):
            return
        rst = r.get("rst")
        if rst is not None and rst.get("after_chunks", -1) < 0:
            # reset instead of a response
            if self.send_guard(self.conn.reset_stream, sid, rst.get("code", 2)):
                self.note("resp_rst", rec["order"], rst.get("code", 2))
                self.world.net.fired("origin_rst")
                rec["local_rst"] = True
                self._closed_stream(sid)
                self.flush()
            return
        for ih in r.get("info") or []:
            if self.send_guard(self.conn.send_headers, sid, hdrs(ih)):
                self.note("resp_info", rec["order"])
                self.flush()
        chunks = [B(c) for c in r.get("chunks", [])]
        trailers = r.get("trailers")
        head = hdrs(r["headers"]) or [(b":status", b"200")]   # (a shrunk script may have lost all its fields)
        end_on_headers = not chunks and not trailers and rst is None and not r.get("end_with_empty_data")
        if not self.send_guard(self.conn.send_headers, sid, head, end_stream=end_on_headers):
            return
        rec["resp_headers_sent"] = True
        self.note("resp_headers", rec["order"], len(head), end_on_headers)
        self.flush()
        if end_on_headers:
            self._local_end(rec)
            return
        gaps = r.get("gaps", [])
        for i, c in enumerate(chunks):
            g = gaps[i] if i < len(gaps) else 0.0
            await asyncio.sleep(g)
            if not self._usable(rec):
                return
            if rst is not None and rst.get("after_chunks") == i:
                if self.send_guard(self.conn.reset_stream, sid, rst.get("code", 2)):
                    self.note("resp_rst", rec["order"], rst.get("code", 2))
                    self.world.net.fired("origin_rst")
                    rec["local_rst"] = True
                    self._closed_stream(sid)
                    self.flush()
                return
            last = (i == len(chunks) - 1) and not trailers and rst is None and not r.get("end_with_empty_data")
            # optional per-chunk padding (None / absent = DATA frame without the PADDED flag; 0..255 = PADDED)
            pads = r.get("pads")
            pad = pads[i] if pads and i < len(pads) else None
            if len(c) + (0 if pad is None else int(pad) + 1) > self.conn.local_flow_control_window(sid):
                raise PeerHarnessError("origin response chunk exceeds the proxy's flow-control window")
            if pad is None:
                if not self.send_guard(self.conn.send_data, sid, c, end_stream=last):
                    return
            elif not self.send_guard(self.conn.send_data, sid, c, end_stream=last, pad_length=int(pad)):
                return
            self.note("resp_data", rec["order"], len(c), last)
            self.flush()
            if last:
                self._local_end(rec)
                return
        if rst is not None:
            await asyncio.sleep(0)
            if self._usable(rec) and self.send_guard(self.conn.reset_stream, sid, rst.get("code", 2)):
                self.note("resp_rst", rec["order"], rst.get("code", 2))
                self.world.net.fired("origin_rst")
                rec["local_rst"] = True
                self._closed_stream(sid)
                self.flush()
            return
        if trailers:
            if r.get("trailer_gap"):
                await asyncio.sleep(r["trailer_gap"])
                if not self._usable(rec):
                    return
            if self.send_guard(self.conn.send_headers, sid, hdrs(trailers), end_stream=True):
                self.note("resp_trailers", rec["order"], len(trailers))
                self.flush()
                self._local_end(rec)
            return
        if self.send_guard(self.conn.send_data, sid, b"", end_stream=True):
            self.note("resp_end", rec["order"])
            self.flush()
            self._local_end(rec)


# =====================================================================================================
# client
# =====================================================================================================
class H2Client(_Endpoint):
    """spec:
      settings {iws, max_frame, mcs}, ack_mode now|lazy, ack_every,
      streams [ {headers [[n,v]], chunks [str], trailers [[n,v]]|None} ],
      steps   [ {frames [ {s: stream index, t: "H"|"D"|"T"|"E"|"R"|"P", i: chunk index, end: bool, code: int} ],
                 cuts [byte offsets into the serialised step], gaps [s], pause: s before the step} ],
      finish {timeout: s to wait for all streams to get an outcome, close: "goaway"|"fin"|"rst"|"none"}
    """

    def __init__(self, world, tls, spec: dict, name="client"):
        super().__init__(world, tls, name, client_side=True)
        self.spec = spec
        self.ack_mode = spec.get("ack_mode", "now")
        self.sid_of: dict = {}      # stream index -> stream id
        self.idx_of: dict = {}      # stream id -> stream index
        self.streams: dict = {}     # stream index -> observation dict
        self.sent: dict = {}        # stream index -> what was actually put on the wire
        self.order_headers: list = []   # stream indices in the order their HEADERS were sent
        self.died = False               # the proxy ended the connection before the client did
        self.before_close = None        # callable run at quiescence, before the client closes

    def obs(self, idx):
        o = self.streams.get(idx)
        if o is None:
            o = {"resp_headers": None, "n_resp": 0, "info": [], "data": bytearray(), "data_frames": [],
                 "trailers": None, "ended": False, "reset": None, "t_first": None, "t_done": None}
            self.streams[idx] = o
        return o

    def sent_rec(self, idx):
        s = self.sent.get(idx)
        if s is None:
            s = {"headers": False, "chunks": [], "trailers": False, "ended": False, "reset": None,
                 "skipped": 0, "t_headers": None, "t_end": None}
            self.sent[idx] = s
        return s

    def done(self, idx) -> bool:
        o = self.streams.get(idx)
        return bool(o and (o["ended"] or o["reset"] is not None))

    def dead(self) -> bool:
        return self.closed or self.proto_error is not None or self.goaway_rx is not None or self.tls.eof

    # -- receive -----------------------------------------------------------------------------
    def pump(self):
        data = self.tls.pull()
        if data:
            for ev in self.feed(data):
                self.handle(ev)
            self.flush()
        if self.tls.eof and not self.closed:
            self.note("peer_eof")

    def handle(self, ev):
        if self.common_event(ev):
            return
        sid = getattr(ev, "stream_id", None)
        idx = self.idx_of.get(sid)
        if isinstance(ev, h2.events.ResponseReceived):
            o = self.obs(idx)
            o["n_resp"] += 1
            if o["resp_headers"] is None:
                o["resp_headers"] = [(bytes(n), bytes(v)) for n, v in ev.headers]
                o["t_first"] = self.now()
            self.note("resp_headers", idx, len(ev.headers))
        elif isinstance(ev, h2.events.InformationalResponseReceived):
            self.obs(idx)["info"].append([(bytes(n), bytes(v)) for n, v in ev.headers])
            self.note("resp_info", idx)
        elif isinstance(ev, h2.events.DataReceived):
            o = self.obs(idx)
            o["data"] += ev.data
            o["data_frames"].append(len(ev.data))
            self.note("resp_data", idx, len(ev.data))
            self.ack_data(ev.flow_controlled_length, ev.stream_id)
        elif isinstance(ev, h2.events.TrailersReceived):
            self.obs(idx)["trailers"] = [(bytes(n), bytes(v)) for n, v in ev.headers]
            self.note("resp_trailers", idx)
        elif isinstance(ev, h2.events.StreamEnded):
            o = self.obs(idx)
            o["ended"] = True
            o["t_done"] = self.now()
            self.note("resp_end", idx)
        elif isinstance(ev, h2.events.StreamReset):
            o = self.obs(idx)
            if o["reset"] is None:
                o["reset"] = int(ev.error_code)
                o["t_done"] = self.now()
            self.note("resp_reset", idx, int(ev.error_code))
        elif isinstance(ev, h2.events.PushedStreamReceived):
            self.note("push", idx)

    # -- send ----------------------------------------------------------------------------------
    def emit(self, fr) -> None:
        idx = fr.get("s")
        t = fr["t"]
        c = self.conn
        if t == "P":
            self.send_guard(c.ping, b"verifsim")
            return
        if t == "S":
            # SETTINGS_INITIAL_WINDOW_SIZE change: (re)opens every stream window without any stream WINDOW_UPDATE
            if self.send_guard(c.update_settings, {SC.INITIAL_WINDOW_SIZE: int(fr["iws"])}):
                self.world.net.fired("client_iws_change")
                self.note("iws_tx", int(fr["iws"]))
            return
        st = self.spec["streams"][idx]
        rec = self.sent_rec(idx)
        if t == "H":
            if idx in self.sid_of:
                return
            sid = c.get_next_available_stream_id()
            self.sid_of[idx] = sid
            self.idx_of[sid] = idx
            ok = self.send_guard(c.send_headers, sid, hdrs(st["headers"]), end_stream=bool(fr.get("end")))
            if ok:
                rec["headers"] = True
                rec["t_headers"] = self.now()
                self.order_headers.append(idx)
                if fr.get("end"):
                    rec["ended"] = True
                    rec["t_end"] = self.now()
                self.note("tx_headers", idx, bool(fr.get("end")))
            return
        sid = self.sid_of.get(idx)
        # (a client may still cancel a request it has sent completely, as long as the answer is outstanding)
        if sid is None or rec["reset"] is not None or (rec["ended"] and t != "R"):
            rec["skipped"] += 1
            return
        if t == "D":
            data = B(st["chunks"][fr["i"]])
            try:
                window = c.local_flow_control_window(sid)
            except (h2.exceptions.StreamClosedError, h2.exceptions.NoSuchStreamError):
                # the proxy has reset / finished this stream meanwhile (same legitimate race as in send_guard)
                self.skipped_sends += 1
                rec["skipped"] += 1
                return
            # optional per-chunk padding (None / absent = DATA frame without the PADDED flag; 0..255 = PADDED)
            pads = st.get("pads")
            pad = pads[fr["i"]] if pads and fr["i"] < len(pads) else None
            extra = 0 if pad is None else int(pad) + 1
            kw = {} if pad is None else {"pad_length": int(pad)}
            if len(data) + extra > window or len(data) + extra > c.max_outbound_frame_size:
                raise PeerHarnessError("client request chunk exceeds the proxy's flow-control window / frame size")
            if self.send_guard(c.send_data, sid, data, end_stream=bool(fr.get("end")), **kw):
                rec["chunks"].append(fr["i"])
                if fr.get("end"):
                    rec["ended"] = True
                    rec["t_end"] = self.now()
                self.note("tx_data", idx, len(data), bool(fr.get("end")))
            else:
                rec["skipped"] += 1
        elif t == "T":
            if self.send_guard(c.send_headers, sid, hdrs(st["trailers"]), end_stream=True):
                rec["trailers"] = True
                rec["ended"] = True
                rec["t_end"] = self.now()
                self.note("tx_trailers", idx)
            else:
                rec["skipped"] += 1
        elif t == "E":
            if self.send_guard(c.send_data, sid, b"", end_stream=True):
                rec["ended"] = True
                rec["t_end"] = self.now()
                self.note("tx_end", idx)
            else:
                rec["skipped"] += 1
        elif t == "R":
            if self.done(idx):
                rec["skipped"] += 1
                return
            if self.send_guard(c.reset_stream, sid, fr.get("code", 8)):
                rec["reset"] = fr.get("code", 8)
                self.world.net.fired("client_rst_stream")
                self.note("tx_reset", idx, fr.get("code", 8))
            else:
                rec["skipped"] += 1

    async def start(self):
        c = self.conn
        init = settings_dict(self.spec.get("settings"))
        c.initiate_connection()
        # scripted values go out in a second SETTINGS frame of the same flight
        if init:
            c.update_settings(init)
        self.note("settings_tx", sorted(int(k) for k in init))
        self.flush()

    async def run_steps(self):
        from peers.tls_h2 import write_pieces
        for step in self.spec.get("steps", []):
            if step.get("pause"):
                await self._sleep_pumping(step["pause"])
            else:
                self.pump()
            if self.dead():
                self.note("steps_aborted")
                break
            if self.ack_mode == "lazy":
                self.release_acks()
            for fr in step.get("frames", []):
                if fr.get("t") == "D":
                    await self._await_window(fr)
                self.emit(fr)
            data = self.conn.data_to_send()
            if data:
                await write_pieces(self.tls, data, step.get("cuts", ()), step.get("gaps", ()))
                # a flight may be cut into pieces that are delivered later: the request has only ENDED for the proxy
                # when the last byte of the flight that carries its END_STREAM has been delivered
                for fr in step.get("frames", []):
                    rec = self.sent.get(fr.get("s"))
                    if rec is not None and rec["ended"] and rec.get("t_end_emitted") is None and \
                            (fr.get("end") or fr.get("t") in ("T", "E")):
                        rec["t_end_emitted"] = rec["t_end"]
                        rec["t_end"] = self.now()
        self.pump()

    async def _await_window(self, fr):
        """A client may only send DATA the proxy's flow-control window (and frame size) allows: wait for it."""
        idx = fr.get("s")
        sid = self.sid_of.get(idx)
        if sid is None:
            return
        try:
            need = len(B(self.spec["streams"][idx]["chunks"][fr["i"]]))
        except (KeyError, IndexError):
            return
        deadline = self.now() + 20.0
        while True:
            try:
                room = min(self.conn.local_flow_control_window(sid), self.conn.max_outbound_frame_size)
            except h2.exceptions.ProtocolError:
                return
            if room >= need or self.dead():
                return
            d = self.conn.data_to_send()
            if d:
                self.tls.write(d)
            left = deadline - self.now()
            if left <= 0:
                raise PeerHarnessError("the proxy never opened its flow-control window for the client")
            await self.tls.wait(left)
            self.pump()

    async def _sleep_pumping(self, t):
        deadline = self.now() + t
        while True:
            self.pump()
            left = deadline - self.now()
            if left <= 0 or self.dead():
                return
            await self.tls.wait(left)

    async def wait_done(self, idxs, timeout: float = 20.0) -> bool:
        """Pump until the given streams have an outcome, the connection died, or nothing happened for `timeout` s."""
        deadline = self.now() + timeout
        seen = self.tls.plain_in
        while True:
            self.pump()
            if self.ack_mode == "lazy" and self._unacked:
                self.release_acks()
            if all(self.done(i) for i in idxs):
                return True
            if self.dead():
                return False
            if self.tls.plain_in != seen:
                seen = self.tls.plain_in
                deadline = self.now() + timeout
            left = deadline - self.now()
            if left <= 0:
                self.note("wait_timeout")
                return False
            await self.tls.wait(left)

    async def finish(self, want_idx=None):
        """Wait until every started stream has an outcome (or the connection died / timeout)."""
        fin = self.spec.get("finish", {})
        quiet = fin.get("timeout", 60.0)          # give up after this long WITHOUT any progress
        deadline = self.now() + quiet
        hard = self.now() + fin.get("hard_timeout", 3000.0)
        def activity():
            # anything the proxy wrote to anybody (a slow upload through a small upstream window is progress too)
            return self.tls.plain_in + sum(getattr(c, "rx_total", 0) for c in self.world.net.conns)
        seen = activity()
        lazy_every = self.spec.get("ack_every", 0.05)
        while True:
            self.pump()
            if activity() != seen:
                seen = activity()
                deadline = min(hard, self.now() + quiet)
            if self.ack_mode == "lazy" and self._unacked:
                await asyncio.sleep(lazy_every)
                self.release_acks()
                continue
            idxs = list(self.sid_of) if want_idx is None else want_idx
            # only completely sent, not reset requests can expect an outcome
            if all(self.done(i) or self.sent_rec(i)["reset"] is not None or not self.sent_rec(i)["ended"] for i in idxs):
                break
            if self.tls.eof or self.proto_error is not None:
                break
            left = deadline - self.now()
            if left <= 0:
                self.note("finish_timeout")
                break
            await self.tls.wait(left)
        # did the proxy end the connection before we did?
        self.died = bool(self.tls.eof or self.proto_error is not None or self.goaway_rx is not None)
        if self.before_close is not None:
            self.before_close()
        how = fin.get("close", "goaway")
        if how == "none" or self.closed:
            return
        if how == "rst":
            self.closed = True
            self.tls.closed_by_us = True
            self.tls.conn.reset()
        elif how == "fin":
            self.closed = True
            self.tls.close(notify=False)
        else:
            self.close(goaway=True)
