"""Peers shared by C20 (proxy authentication) and C24 (upstream credentials).

* ``ConnStream`` / ``TlsStream`` — a plaintext byte-stream view for a scripted peer, either directly
  over a SimConn or through Python's ``ssl`` (system OpenSSL, MemoryBIO) layered on another stream.
  TLS can be stacked (TLS to an https upstream proxy, then TLS to the tunnelled origin inside it).
* ``serve_http`` — an origin / upstream-proxy peer: reads requests with the independent reader ``P``,
  records every request it RECEIVED together with the zone it was received in, answers 200.
  As a proxy peer it accepts absolute-form requests and CONNECT; after CONNECT it behaves as the
  tunnelled origin (TLS first when the CONNECT target port is a TLS port).
* ``HttpClient`` — scripted HTTP/1 client side: send a request, read the answer with ``P``.
* ``socks5_*`` — SOCKS5 (RFC 1928 / RFC 1929) client byte strings.

Nothing here imports mitmproxy.
"""
from __future__ import annotations

import asyncio
import os
import shutil
import ssl
import tempfile

from peers import h1 as P

TLS_PORTS = (443, 8443)


def B(s) -> bytes:
    return s.encode("latin1") if isinstance(s, str) else bytes(s)


def S(b) -> str:
    return bytes(b).decode("latin1")


# ---------------------------------------------------------------------------
# streams
# ---------------------------------------------------------------------------
class ConnStream:
    """Plaintext view of a SimConn (peer side)."""

    tls = False

    def __init__(self, loop, conn):
        self.loop = loop
        self.conn = conn
        self.buf = bytearray()
        self.eof = False
        self.error = None

    def _pump(self) -> bool:
        d = self.conn.take()
        if d:
            self.buf += d
        return bool(d)

    async def more(self, timeout: float) -> bool:
        """True when new bytes (or a newly seen EOF) arrived, False on timeout / nothing more to come."""
        if self._pump():
            return True
        if self.eof:
            return False
        deadline = self.loop.time() + timeout
        while True:
            if self.conn.rx_eof:
                self._pump()
                self.eof = True
                return True
            left = deadline - self.loop.time()
            if left <= 0:
                return False
            await self.conn.wait_change(left)
            if self._pump():
                return True

    def write(self, data: bytes):
        self.conn.feed(bytes(data))

    async def send(self, data: bytes, cuts=(), gaps=()):
        await self.conn.send(bytes(data), cuts, gaps)

    def close(self):
        self.conn.send_eof()

    @property
    def closed_by_proxy(self):
        return self.conn.proxy_closed or self.conn.rx_eof


class TlsStream:
    """TLS endpoint (client or server) on top of another stream, via ssl.MemoryBIO."""

    tls = True

    def __init__(self, loop, lower, ctx, *, server_side, server_hostname=None, lpos=0):
        self.loop = loop
        self.lower = lower
        self.lpos = lpos
        self.inb = ssl.MemoryBIO()
        self.outb = ssl.MemoryBIO()
        self.obj = ctx.wrap_bio(self.inb, self.outb, server_side=server_side, server_hostname=server_hostname)
        self.buf = bytearray()
        self.eof = False
        self.error = None
        self.handshaken = False
        self._lower_eof_fed = False
        self._closed = False

    def _flush(self):
        d = self.outb.read()
        if d:
            self.lower.write(d)

    def _pump(self) -> bool:
        grew = False
        if len(self.lower.buf) > self.lpos:
            self.inb.write(bytes(self.lower.buf[self.lpos:]))
            self.lpos = len(self.lower.buf)
        if self.lower.eof and not self._lower_eof_fed:
            self._lower_eof_fed = True
            self.inb.write_eof()
        if self.error is None and not self.handshaken:
            try:
                self.obj.do_handshake()
                self.handshaken = True
            except ssl.SSLWantReadError:
                pass
            except (ssl.SSLError, OSError) as e:
                self.error = f"{type(e).__name__}"
                self.eof = True
        if self.handshaken and not self.eof:
            while True:
                try:
                    d = self.obj.read(65536)
                except ssl.SSLWantReadError:
                    break
                except (ssl.SSLError, OSError) as e:
                    if not isinstance(e, (ssl.SSLZeroReturnError, ssl.SSLEOFError)):
                        self.error = f"{type(e).__name__}"
                    self.eof = True
                    break
                if not d:
                    self.eof = True
                    break
                self.buf += d
                grew = True
        self._flush()
        return grew

    async def more(self, timeout: float) -> bool:
        was_eof = self.eof
        if self._pump():
            return True
        if self.eof:
            return not was_eof
        deadline = self.loop.time() + timeout
        while True:
            left = deadline - self.loop.time()
            if left <= 0:
                return False
            ok = await self.lower.more(left)
            hs = self.handshaken
            if self._pump():
                return True
            if self.eof:
                return True
            if self.handshaken and not hs:
                return True
            if not ok:
                if self.lower.eof:
                    self.eof = True
                    return True
                return False

    async def handshake(self, timeout: float = 20.0) -> bool:
        deadline = self.loop.time() + timeout
        self._pump()
        while not self.handshaken and not self.eof:
            left = deadline - self.loop.time()
            if left <= 0:
                return False
            await self.more(left)
        return self.handshaken

    def write(self, data: bytes):
        if not self.handshaken or self._closed:
            return
        try:
            self.obj.write(bytes(data))
        except (ssl.SSLError, OSError) as e:
            self.error = f"{type(e).__name__}"
        self._flush()

    async def send(self, data: bytes, cuts=(), gaps=()):
        pos = 0
        pts = sorted({c for c in cuts if 0 < c < len(data)}) + [len(data)]
        for i, end in enumerate(pts):
            g = gaps[i] if i < len(gaps) else 0.0
            if g > 0 or i > 0:
                await asyncio.sleep(max(g, 0.0))
            self.write(data[pos:end])
            pos = end

    def close(self):
        if self._closed:
            return
        self._closed = True
        if self.handshaken:
            try:
                self.obj.unwrap()
            except (ssl.SSLError, OSError):
                pass
            self._flush()
        self.lower.close()

    @property
    def closed_by_proxy(self):
        return self.eof or self.lower.closed_by_proxy


# ---------------------------------------------------------------------------
# sim PKI (once per worker process)
# ---------------------------------------------------------------------------
_PKI = {}


def server_context() -> ssl.SSLContext:
    """A TLS server context whose Ed25519 leaf (signed by an Ed25519 sim CA) is valid for every *.test name used
    by the peers.  Python's ssl can only load key material from files, so the PEMs are written to a private temp
    directory under /var/tmp once per worker process, loaded, and removed at once."""
    ctx = _PKI.get("server")
    if ctx is not None:
        return ctx
    import datetime

    from cryptography import x509
    from cryptography.hazmat.primitives import hashes, serialization  # noqa: F401
    from cryptography.hazmat.primitives.asymmetric import ed25519
    from cryptography.x509.oid import NameOID

    nb = datetime.datetime(2020, 1, 1)
    na = datetime.datetime(2045, 1, 1)
    ca_key = ed25519.Ed25519PrivateKey.generate()
    ca_name = x509.Name([x509.NameAttribute(NameOID.COMMON_NAME, "c2x sim CA")])
    ca = (x509.CertificateBuilder().subject_name(ca_name).issuer_name(ca_name).public_key(ca_key.public_key())
          .serial_number(1001).not_valid_before(nb).not_valid_after(na)
          .add_extension(x509.BasicConstraints(ca=True, path_length=None), critical=True).sign(ca_key, None))
    key = ed25519.Ed25519PrivateKey.generate()
    leaf = (x509.CertificateBuilder()
            .subject_name(x509.Name([x509.NameAttribute(NameOID.COMMON_NAME, "peer.test")]))
            .issuer_name(ca_name).public_key(key.public_key()).serial_number(1002)
            .not_valid_before(nb).not_valid_after(na)
            .add_extension(x509.SubjectAlternativeName([x509.DNSName("*.test"), x509.DNSName("test")]), critical=False)
            .sign(ca_key, None))
    d = tempfile.mkdtemp(prefix=f"c2x-pki-{os.getpid()}-", dir="/var/tmp")
    try:
        cf, kf = os.path.join(d, "leaf.pem"), os.path.join(d, "key.pem")
        with open(cf, "wb") as f:
            f.write(leaf.public_bytes(serialization.Encoding.PEM) + ca.public_bytes(serialization.Encoding.PEM))
        with open(kf, "wb") as f:
            f.write(key.private_bytes(serialization.Encoding.PEM, serialization.PrivateFormat.PKCS8,
                                      serialization.NoEncryption()))
        ctx = ssl.SSLContext(ssl.PROTOCOL_TLS_SERVER)
        ctx.load_cert_chain(cf, kf)
        ctx.set_alpn_protocols(["http/1.1"])
        # no session tickets / resumption state surviving between runs
        ctx.options |= ssl.OP_NO_TICKET
        try:
            ctx.num_tickets = 0
        except (AttributeError, ValueError):
            pass
    finally:
        shutil.rmtree(d, ignore_errors=True)
    _PKI["server"] = ctx
    return ctx


def client_context() -> ssl.SSLContext:
    """TLS client context for the scripted client.  What the client trusts is irrelevant to C20/C24, so no
    verification (keeps the check independent of certificate lifetimes and of the real clock)."""
    ctx = _PKI.get("client")
    if ctx is None:
        ctx = ssl.SSLContext(ssl.PROTOCOL_TLS_CLIENT)
        ctx.check_hostname = False
        ctx.verify_mode = ssl.CERT_NONE
        ctx.set_alpn_protocols(["http/1.1"])
        _PKI["client"] = ctx
    return ctx


# ---------------------------------------------------------------------------
# origin / upstream proxy peer
# ---------------------------------------------------------------------------
def reply_for(m, zone: str) -> bytes:
    body = b"served:" + zone.encode() + b":" + m.target[-40:]
    return b"HTTP/1.1 200 OK\r\nContent-Length: %d\r\nX-Served-By: %s\r\n\r\n%s" % (len(body), zone.encode(), body)


async def serve_http(loop, stream, log, *, zone, addr, conn_id, is_proxy=False, proxy_tls_ports=TLS_PORTS,
                     pos=0, idle=25.0, connect_status=200, e2e_tls=None, tunnel_sniff=False):
    """zone: 'origin' (directly connected server), 'proxy' (upstream proxy level), 'tunnel' (origin reached
    through a CONNECT tunnel of the proxy peer).  Every complete request is appended to `log`.
    Log field 'tls' says whether THIS zone's bytes were protected by a TLS session ending at this zone (for the
    tunnel zone: TLS inside the tunnel, not the TLS session with the upstream proxy around it)."""
    ztls = stream.tls if e2e_tls is None else e2e_tls
    while True:
        m = None
        try:
            m = P.parse_request(bytes(stream.buf), pos)
        except P.Incomplete:
            m = None
        except P.Ambiguous as e:
            log.append({"zone": zone, "addr": addr, "conn": conn_id, "tls": ztls, "garbage": e.reason,
                        "raw": bytes(stream.buf[pos:]), "t": loop.time()})
            stream.close()
            return
        if m is None:
            if stream.eof or not await stream.more(idle):
                if len(stream.buf) > pos:
                    # bytes of a request that never completed (e.g. a body streamed upstream and then abandoned)
                    log.append({"zone": zone, "addr": addr, "conn": conn_id, "tls": ztls, "partial": True,
                                "raw": bytes(stream.buf[pos:]), "t": loop.time()})
                stream.close()
                return
            continue
        raw = bytes(stream.buf[m.start:m.end])
        pos = m.end
        log.append({"zone": zone, "addr": addr, "conn": conn_id, "tls": ztls, "msg": m, "raw": raw,
                    "t": loop.time()})
        if m.method.upper() == b"CONNECT":
            if not is_proxy:
                stream.write(b"HTTP/1.1 405 Method Not Allowed\r\nContent-Length: 0\r\n\r\n")
                continue
            if connect_status != 200:
                stream.write(b"HTTP/1.1 %d Nope\r\nContent-Length: 0\r\n\r\n" % connect_status)
                continue
            stream.write(b"HTTP/1.1 200 Connection established\r\n\r\n")
            host, _, port = m.target.rpartition(b":")
            try:
                target = (host.decode("latin1"), int(port))
            except ValueError:
                target = (m.target.decode("latin1"), 0)
            inner, ipos = stream, pos
            speaks_tls = target[1] in proxy_tls_ports
            if speaks_tls and tunnel_sniff:
                # like serve_conn: an origin on a "TLS port" that is spoken to in plain HTTP answers in plain HTTP, so
                # what was sent to it in the clear is read and logged (tls=False) instead of a failed handshake
                while len(stream.buf) <= pos and not stream.eof:
                    if not await stream.more(idle):
                        break
                if len(stream.buf) <= pos:
                    # nothing came through the tunnel within the idle time (or it was closed): hang up
                    log.append({"zone": "tunnel", "addr": target, "conn": conn_id, "tls": True,
                                "garbage": "tls handshake failed: None", "raw": b"", "t": loop.time()})
                    stream.close()
                    return
                if stream.buf[pos] != 0x16:
                    speaks_tls = False
            if speaks_tls:
                inner = TlsStream(loop, stream, server_context(), server_side=True, lpos=pos)
                ipos = 0
                if not await inner.handshake(idle):
                    log.append({"zone": "tunnel", "addr": target, "conn": conn_id, "tls": True,
                                "garbage": f"tls handshake failed: {inner.error}", "raw": b"", "t": loop.time()})
                    stream.close()
                    return
            await serve_http(loop, inner, log, zone="tunnel", addr=target, conn_id=conn_id, is_proxy=False,
                             pos=ipos, idle=idle, e2e_tls=inner is not stream)
            return
        stream.write(reply_for(m, zone))


async def serve_conn(loop, conn, log, *, addr, is_proxy, tls, idle=25.0, connect_status=200, tunnel_sniff=False):
    """Entry point for a freshly accepted upstream connection."""
    base = ConnStream(loop, conn)
    stream = base
    if tls and not is_proxy:
        # an origin on a "TLS port" that is spoken to in plain HTTP (http://host:443/) answers in plain HTTP
        while not base.buf and not base.eof:
            if not await base.more(idle):
                break
        if base.buf and base.buf[0] != 0x16:
            tls = False
    if tls:
        stream = TlsStream(loop, base, server_context(), server_side=True)
        if not await stream.handshake(idle):
            log.append({"zone": "proxy" if is_proxy else "origin", "addr": addr, "conn": conn.id, "tls": True,
                        "garbage": f"tls handshake failed: {stream.error}", "raw": b"", "t": loop.time()})
            base.close()
            return
    await serve_http(loop, stream, log, zone="proxy" if is_proxy else "origin", addr=addr, conn_id=conn.id,
                     is_proxy=is_proxy, idle=idle, connect_status=connect_status, tunnel_sniff=tunnel_sniff)


# ---------------------------------------------------------------------------
# scripted client
# ---------------------------------------------------------------------------
class HttpClient:
    """HTTP/1 client side over a stream; answers are read with P."""

    def __init__(self, loop, stream, pos=0):
        self.loop = loop
        self.stream = stream
        self.pos = pos

    async def read_response(self, method: bytes, timeout: float = 20.0):
        """Returns (Msg, None) or (None, 'closed'|'timeout'|'garbage:<reason>')."""
        deadline = self.loop.time() + timeout
        s = self.stream
        while True:
            try:
                m = P.parse_response(bytes(s.buf), self.pos, method, s.eof)
            except P.Ambiguous as e:
                return None, "garbage:" + e.reason
            except P.Incomplete:
                m = None
            if m is not None:
                self.pos = m.end
                if 100 <= m.status <= 199 and m.status != 101:
                    continue
                return m, None
            if s.eof:
                return None, "closed"
            left = deadline - self.loop.time()
            if left <= 0:
                return None, "timeout"
            await s.more(left)

    async def read_exact(self, n: int, timeout: float = 20.0):
        """n raw bytes (SOCKS5 replies).  Returns bytes (possibly shorter at EOF/timeout)."""
        deadline = self.loop.time() + timeout
        s = self.stream
        while len(s.buf) - self.pos < n:
            if s.eof:
                break
            left = deadline - self.loop.time()
            if left <= 0:
                break
            await s.more(left)
        d = bytes(s.buf[self.pos:self.pos + n])
        self.pos += len(d)
        return d

    async def start_tls(self, server_hostname: str, timeout: float = 20.0) -> bool:
        t = TlsStream(self.loop, self.stream, client_context(), server_side=False,
                      server_hostname=server_hostname, lpos=self.pos)
        ok = await t.handshake(timeout)
        self.stream = t
        self.pos = 0
        return ok


def socks5_greeting(methods) -> bytes:
    return bytes([5, len(methods)] + list(methods))


def socks5_userpass(user: bytes, password: bytes) -> bytes:
    return bytes([1, len(user)]) + user + bytes([len(password)]) + password


def socks5_connect(host: str, port: int) -> bytes:
    h = host.encode("ascii")
    return b"\x05\x01\x00\x03" + bytes([len(h)]) + h + port.to_bytes(2, "big")
