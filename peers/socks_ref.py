"""Independent SOCKS5 reference (RFC 1928, RFC 1929) for the C21 check.

Encoders for the client messages and a decision function that, given the complete byte
string a client sends and the server's policy, says what a conforming server that only
supports CONNECT must do.  Shares no code with mitmproxy.
"""
from __future__ import annotations

import ipaddress
import struct

VER = 5
M_NOAUTH, M_GSSAPI, M_USERPASS, M_NONE = 0x00, 0x01, 0x02, 0xFF
CMD_CONNECT, CMD_BIND, CMD_UDP = 1, 2, 3
ATYP_V4, ATYP_DOMAIN, ATYP_V6 = 1, 3, 4
REP_OK, REP_GENERAL, REP_NOT_ALLOWED, REP_NET_UNREACH, REP_HOST_UNREACH, REP_REFUSED, REP_TTL, REP_CMD, REP_ATYP = range(9)
CONNECT_FAILURE_CODES = {REP_GENERAL, REP_NET_UNREACH, REP_HOST_UNREACH, REP_REFUSED, REP_TTL}


# ---------------------------------------------------------------------------
# encoders
# ---------------------------------------------------------------------------
def greeting(methods, ver=VER, nmethods=None) -> bytes:
    n = len(methods) if nmethods is None else nmethods
    return bytes([ver, n]) + bytes(methods)


def userpass(user: bytes, password: bytes, ver=1) -> bytes:
    return bytes([ver, len(user)]) + user + bytes([len(password)]) + password


def request(atyp: int, addr: bytes, port: int, cmd=CMD_CONNECT, ver=VER, rsv=0) -> bytes:
    """addr: 4 / 16 raw octets, or the domain name octets (length octet is added here)."""
    if atyp == ATYP_DOMAIN:
        a = bytes([len(addr)]) + addr
    else:
        a = addr
    return bytes([ver, cmd, rsv, atyp]) + a + struct.pack("!H", port)


# ---------------------------------------------------------------------------
# decision function
# ---------------------------------------------------------------------------
class Decision:
    """outcome:
      'accept'     handshake complete and valid: connect to `dest`, everything in `payload` is relayed
      'reject'     the server must refuse: `codes` = reply codes that apply at the request stage
                   (None = no RFC 1928 reply applies), `stage` says where
      'incomplete' the byte string ends inside a message: the server must keep waiting (and never connect)
    `replies` = bytes the server must have sent for the *completed* earlier stages (method selection,
    auth status).  `lenient` lists deviations from the grammar that a server may either refuse or accept
    with the obvious reading (then `dest`/`payload` describe that reading)."""

    def __init__(self):
        self.outcome = "incomplete"
        self.stage = "greeting"
        self.replies = b""
        self.codes = None
        self.dest = None  # (atyp, raw address octets, port)
        self.payload = b""
        self.lenient: list[str] = []
        self.auth_checked = None  # (user, password) handed to the validator
        self.invalid_prefix = None  # for 'incomplete': codes that would apply because a field seen so far is already bad

    def as_tuple(self):
        return (self.outcome, self.stage, self.replies, self.codes, self.dest, self.payload, tuple(self.lenient))


def decide(data: bytes, auth_required: bool, valid_credentials=None) -> Decision:
    """valid_credentials: callable(user_bytes, password_bytes) -> bool (only used when auth_required)."""
    d = Decision()
    pos = 0
    n = len(data)
    # --- method negotiation (RFC 1928 section 3) ---------------------------------
    if n < 1:
        return d
    if data[0] != VER:
        # not SOCKS5: nothing applies; a server may judge at once or after buffering what would be a whole greeting
        d.stage = "greeting_version"
        if n >= 2 and n >= 2 + data[1]:
            d.outcome, d.codes = "reject", None
        else:
            d.invalid_prefix = "any"
        return d
    if n < 2:
        return d
    nm = data[1]
    if n < 2 + nm:
        return d
    methods = data[2:2 + nm]
    want = M_USERPASS if auth_required else M_NOAUTH
    pos = 2 + nm
    if want not in methods:
        d.outcome, d.stage = "reject", "greeting_methods"
        d.replies = bytes([VER, M_NONE])
        return d
    d.replies = bytes([VER, want])
    # --- username/password (RFC 1929) ----------------------------------------------
    if auth_required:
        d.stage = "auth"
        if n - pos < 2:
            return d
        aver, ulen = data[pos], data[pos + 1]
        if n - pos < 2 + ulen + 1:
            return d
        user = data[pos + 2:pos + 2 + ulen]
        plen = data[pos + 2 + ulen]
        if n - pos < 3 + ulen + plen:
            return d
        pw = data[pos + 3 + ulen:pos + 3 + ulen + plen]
        pos += 3 + ulen + plen
        if aver != 1:
            d.lenient.append("auth_version")
        if ulen == 0:
            d.lenient.append("empty_username")
        if plen == 0:
            d.lenient.append("empty_password")
        d.auth_checked = (user, pw)
        ok = bool(valid_credentials(user, pw)) if valid_credentials else False
        if not ok:
            d.outcome, d.stage = "reject", "auth_failed"
            return d
        d.replies += b"\x01\x00"
    # --- request (RFC 1928 section 4) ------------------------------------------------
    d.stage = "request"
    rest = data[pos:]
    # Which failure codes already apply to the fields seen so far?  ("any": the message is broken in a way
    # RFC 1928 has no code for, so whatever failure reply - or none - is acceptable.)
    bad_any = (len(rest) >= 1 and rest[0] != VER) or (len(rest) >= 3 and rest[2] != 0)
    bad_codes = set()
    if len(rest) >= 2 and rest[1] != CMD_CONNECT:
        bad_codes.add(REP_CMD)
    if len(rest) >= 4 and rest[3] not in (ATYP_V4, ATYP_DOMAIN, ATYP_V6):
        bad_codes.add(REP_ATYP)
    prefix_verdict = "any" if bad_any else (bad_codes or None)
    # Is the request complete?  With an unknown ATYP the length of the address is unknowable; a server may
    # judge as soon as it has seen ATYP or buffer up to the shortest possible request (7 octets) first.
    complete = False
    if len(rest) >= 4:
        atyp = rest[3]
        if atyp == ATYP_V4:
            alen, off = 4, 4
            complete = len(rest) >= off + alen + 2
        elif atyp == ATYP_V6:
            alen, off = 16, 4
            complete = len(rest) >= off + alen + 2
        elif atyp == ATYP_DOMAIN:
            if len(rest) >= 5:
                alen, off = rest[4], 5
                complete = len(rest) >= off + alen + 2
        else:
            complete = len(rest) >= 7
    if not complete:
        d.invalid_prefix = prefix_verdict
        return d
    ver, cmd, rsv, atyp = rest[0], rest[1], rest[2], rest[3]
    if ver != VER:
        d.outcome, d.stage, d.codes = "reject", "request_version", None
        return d
    if atyp not in (ATYP_V4, ATYP_DOMAIN, ATYP_V6):
        d.outcome, d.stage = "reject", "request_atyp"
        d.codes = None if rsv != 0 else ({REP_ATYP} if cmd == CMD_CONNECT else {REP_ATYP, REP_CMD})
        return d
    addr = rest[off:off + alen]
    (port,) = struct.unpack("!H", rest[off + alen:off + alen + 2])
    d.payload = rest[off + alen + 2:]
    d.dest = (atyp, bytes(addr), port)
    if cmd != CMD_CONNECT:
        d.outcome, d.stage = "reject", "request_command"
        d.codes = None if rsv != 0 else {REP_CMD}
        return d
    if rsv != 0:
        d.lenient.append("rsv_nonzero")
    if atyp == ATYP_DOMAIN and alen == 0:
        d.lenient.append("empty_domain")
    d.outcome = "accept"
    return d


# ---------------------------------------------------------------------------
# destination comparison / reply parsing
# ---------------------------------------------------------------------------
def dest_matches(dest, host, port) -> bool:
    """Does the (host, port) a connect() was issued for denote exactly `dest`?"""
    atyp, addr, dport = dest
    if port != dport:
        return False
    if atyp == ATYP_DOMAIN:
        try:
            return isinstance(host, str) and host.encode("ascii") == addr
        except UnicodeEncodeError:
            return False
    try:
        ip = ipaddress.ip_address(host)
    except ValueError:
        return False
    if atyp == ATYP_V4:
        return ip.version == 4 and ip.packed == addr
    return ip.version == 6 and ip.packed == addr


def dest_text(dest) -> str:
    atyp, addr, port = dest
    if atyp == ATYP_DOMAIN:
        return f"{addr!r}:{port}"
    return f"{ipaddress.ip_address(addr)}:{port}"


def parse_reply(data: bytes):
    """-> (rep, length) of a well-formed RFC 1928 section 6 reply at the start of data,
    ('short', None) if data is a proper prefix of one, ('bad', reason) otherwise."""
    if len(data) < 1:
        return "short", None
    if data[0] != VER:
        return "bad", f"VER={data[0]}"
    if len(data) < 4:
        return "short", None
    rep, rsv, atyp = data[1], data[2], data[3]
    if rep > 8:
        return "bad", f"REP={rep}"
    if rsv != 0:
        return "bad", f"RSV={rsv}"
    if atyp == ATYP_V4:
        ln = 4 + 4 + 2
    elif atyp == ATYP_V6:
        ln = 4 + 16 + 2
    elif atyp == ATYP_DOMAIN:
        if len(data) < 5:
            return "short", None
        ln = 4 + 1 + data[4] + 2
    else:
        return "bad", f"ATYP={atyp}"
    if len(data) < ln:
        return "short", None
    return rep, ln
