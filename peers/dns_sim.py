"""Shared executor for the DNS checks (C26, C27): drives the real proxy in a DNS mode with a
scripted client and a scripted upstream resolver, both speaking through the independent
codec in ``dnswire_ref``.

Scenario (JSON)::

    {"transport": "udp"|"tcp", "mode": "reverse:dns://8.8.8.8:53"|"transparent", "eager": bool,
     "options": {...}, "connect": [{"delay": 0.01, "error": null}, ...]   # per upstream connect attempt (last repeats)
     "policy": [{"nth": 0, "action": "respond"|"error"|"pass", "latency": 0.0}],   # applied to the nth dns_request hook
     "nvariants": 1|2,     # 2: the whole history is run a second time, TCP sends use "cuts_b" instead of "cuts"
     "ops": [
        {"op": "send", "messages": [<msg spec> | {"raw": "<latin1>"} ...], "cuts": [...], "cuts_b": [...], "gap": 0.3},
        {"op": "reply", "ks": [0], "kind": "answer"|"unsolicited"|"other_question", "reply": <partial msg spec>, "cuts": [...], "gap": 0.3},
        {"op": "sleep", "t": 1.0}, {"op": "upstream_close"}, {"op": "client_close"}]}

``send``: UDP - one datagram per message; TCP - the 2-octet-length-framed messages (raw items unframed) are
concatenated and delivered split at ``cuts``.  ``reply``: the upstream answers the ks-th queries it has
received so far (id and question copied from what it actually received, decoded by the reference codec).
"""
from __future__ import annotations

import asyncio

from peers import dnswire_ref as D
from simkit import world as W
from simkit.net import ConnectPlan, oserror

S = lambda b: bytes(b).decode("latin1")  # noqa: E731
B = lambda s: s.encode("latin1")  # noqa: E731

SEG_GAP = 0.002


class Variant:
    def __init__(self, idx):
        self.idx = idx
        self.client_sent: list = []      # (t, kind, bytes)  kind: "msg" | "raw"
        self.client_stream = b""         # tcp: every byte the client wrote
        self.upstreams: list = []        # connections the proxy opened
        self.upstream_sent: list = []    # (t, kind, bytes, info)
        self.hooks: list = []            # (t, name, snapshot)
        self.attempts: list = []
        self.fired = {}
        self.client = None
        self.closed_before_close = None
        self.closed = None
        self.handler_done = None
        self.policy_applied: list = []

    # what the upstream resolver has received so far (all connections, in order)
    def upstream_msgs(self, transport):
        out = []
        for u in self.upstreams:
            if transport == "udp":
                out.extend(d for _, d in u.rx_log)
            else:
                msgs, _, _ = D.split_tcp(bytes(u.received))
                out.extend(msgs)
        return out

    def client_msgs(self, transport):
        c = self.client
        if transport == "udp":
            return [(t, d) for t, d in c.rx_log]
        # attribute each framed message the time its last byte arrived
        out = []
        stream = b""
        pos_t = []
        for t, d in c.rx_log:
            stream += d
            pos_t.append((len(stream), t))
        msgs, rest, err = D.split_tcp(stream)
        off = 0
        for m in msgs:
            off += 2 + len(m)
            t = next(tt for ln, tt in pos_t if ln >= off)
            out.append((t, m))
        return out


def _snap_msg(m):
    if m is None:
        return None
    try:
        return {"id": m.id, "query": m.query, "op_code": m.op_code, "rd": m.recursion_desired, "rcode": m.response_code,
                "questions": [(q.name, q.type, q.class_) for q in m.questions], "n_answers": len(m.answers)}
    except Exception as e:  # pragma: no cover
        return {"broken": repr(e)}


def run(sc, keep_log=False):
    transport = sc.get("transport", "udp")
    mode = sc.get("mode", "reverse:dns://8.8.8.8:53")
    variants = [Variant(i) for i in range(sc.get("nvariants", 1))]

    async def body(w):
        cur = {"v": None}

        def planner(host, port, n, proto):
            v = cur["v"]
            plans = sc.get("connect") or [{}]
            k = len(v.attempts)
            p = plans[min(k, len(plans) - 1)]
            v.attempts.append((host, port, proto, p.get("error") or "ok"))
            if p.get("error"):
                return ConnectPlan(delay=p.get("delay", 0.0), error=oserror(p["error"]))

            def accept(conn):
                v.upstreams.append(conn)
                if proto == "tcp":
                    w.loop.create_task(tcp_upstream_closer(conn), name=f"sim-upstream-{conn.id}")
            return ConnectPlan(delay=p.get("delay", 0.0), accept=accept)
        w.net.connect_planner = planner

        async def tcp_upstream_closer(conn):
            # a resolver closes its side once the proxy has closed/half-closed the connection
            while not conn.rx_eof:
                if not await conn.wait_change(300.0):
                    break
            conn.send_eof()

        def on_hook(t, name, data):
            v = cur["v"]
            if v is None or not name.startswith("dns_"):
                return
            has_req = getattr(data, "request", None) is not None
            v.hooks.append((t, name, {"flow": data.id, "has_request": has_req,
                                      "request": _snap_msg(data.request) if has_req else None,
                                      "response": _snap_msg(getattr(data, "response", None)),
                                      "error": data.error.msg if data.error else None}))
        w.hook_listeners.append(on_hook)

        counters = {"dns_request": 0}

        def policy(name, data):
            v = cur["v"]
            if v is None or name != "dns_request":
                return None
            n = counters["dns_request"]
            counters["dns_request"] += 1
            rule = next((r for r in sc.get("policy", []) if r.get("nth") == n), None)
            if rule is None:
                return None

            async def act():
                if rule.get("latency"):
                    await asyncio.sleep(rule["latency"])
                a = rule.get("action", "pass")
                if not hasattr(data, "request"):
                    return
                if a == "respond":
                    from mitmproxy import dns as mdns
                    import ipaddress
                    data.response = data.request.succeed(
                        [mdns.ResourceRecord.A(q.name, ipaddress.IPv4Address("192.0.2.77")) for q in data.request.questions[:1]])
                elif a == "error":
                    from mitmproxy import flow as mflow
                    data.error = mflow.Error("addon says no")
                v.policy_applied.append((w.loop.time(), n, a, data.id))
                v.fired["policy_" + a] = v.fired.get("policy_" + a, 0) + 1
            return act()
        w.policy = policy

        for v in variants:
            cur["v"] = v
            counters["dns_request"] = 0
            kw = {}
            if mode == "transparent":
                kw["original_dst"] = tuple(sc.get("original_dst", ("9.9.9.9", 53)))
            c = w.connect_client(udp=(transport == "udp"), peername=("192.168.1.7", 50200 + v.idx), **kw)
            v.client = c
            client_closed = False
            for op in sc.get("ops", []):
                kind = op["op"]
                if kind == "send":
                    if client_closed:
                        continue
                    if transport == "udp":
                        for m in op.get("messages", []):
                            data = B(m["raw"]) if "raw" in m else D.encode(m)
                            v.client_sent.append((w.loop.time(), "raw" if "raw" in m else "msg", data))
                            c.feed(data)
                            await asyncio.sleep(op.get("seggap", SEG_GAP))
                    else:
                        stream = b""
                        for m in op.get("messages", []):
                            if "raw" in m:
                                data = B(m["raw"])
                                v.client_sent.append((w.loop.time(), "raw", data))
                                stream += data
                            else:
                                data = D.encode(m)
                                v.client_sent.append((w.loop.time(), "msg", data))
                                stream += D.frame_tcp(data)
                        cuts = op.get("cuts", []) if v.idx == 0 else op.get("cuts_b", [])
                        v.client_stream += stream
                        if any(0 < x < len(stream) for x in cuts):
                            v.fired["client_cut"] = v.fired.get("client_cut", 0) + 1
                        await c.send(stream, cuts, (), op.get("seggap", SEG_GAP))
                elif kind == "reply":
                    got = v.upstream_msgs(transport)
                    live = [u for u in v.upstreams if not u.proxy_closed and not getattr(u, "peer_closed", False)
                            and not getattr(u, "peer_eof", False)]
                    if not live:
                        continue
                    u = live[-1]
                    out = b""
                    for k in op.get("ks", [0]):
                        if k >= len(got):
                            continue
                        try:
                            q = D.decode(got[k])
                        except D.DecodeError:
                            continue
                        spec = dict(op.get("reply", {}))
                        rk = op.get("kind", "answer")
                        spec.setdefault("qr", 1)
                        spec["id"] = q["id"]
                        spec.setdefault("opcode", q["opcode"])
                        spec.setdefault("rd", q["rd"])
                        if "questions" not in spec:
                            spec["questions"] = [[[S(x) for x in n], t, cl] for n, t, cl in q["questions"]]
                        if rk == "unsolicited":
                            spec["id"] = op["uid"]
                        elif rk == "other_question":
                            spec["questions"] = [[["unrelated", "invalid"], 1, 1]]
                        data = D.encode(spec)
                        v.upstream_sent.append((w.loop.time(), rk, data, k))
                        v.fired["reply_" + rk] = v.fired.get("reply_" + rk, 0) + 1
                        if transport == "udp":
                            u.feed(data)
                            await asyncio.sleep(op.get("seggap", SEG_GAP))
                        else:
                            out += D.frame_tcp(data)
                    if transport == "tcp" and out:
                        cuts = op.get("cuts", [])
                        if any(0 < x < len(out) for x in cuts):
                            v.fired["upstream_cut"] = v.fired.get("upstream_cut", 0) + 1
                        await u.send(out, cuts, (), op.get("seggap", SEG_GAP))
                elif kind == "sleep":
                    await asyncio.sleep(op.get("t", 0.1))
                elif kind == "upstream_close":
                    for u in v.upstreams:
                        if transport == "udp":
                            if not u.peer_closed:
                                u.peer_close()
                                v.fired["upstream_close"] = 1
                        elif not u.peer_eof:
                            u.send_eof()
                            v.fired["upstream_close"] = 1
                elif kind == "client_close":
                    if not client_closed:
                        client_closed = True
                        if transport == "udp":
                            c.peer_close()
                        else:
                            c.send_eof()
                if op.get("gap"):
                    await asyncio.sleep(op["gap"])
            await asyncio.sleep(sc.get("settle", 30.0))
            v.closed_before_close = bool(c.proxy_closed)
            if not client_closed:
                if transport == "udp":
                    c.peer_close()
                else:
                    c.send_eof()
            await asyncio.sleep(30.0)
            v.closed = bool(c.proxy_closed)
            v.handler_done = c.task.done()
            v.pending_hooks = [s[1] for s in w.hook_spans if s[3] is None]
        cur["v"] = None
        return w.loop.time()

    sim_s, w = W.run_world(body, eager=sc.get("eager", False), seed=sc.get("seed", 0),
                           options=dict(sc.get("options", {})), modes=[mode], keep_log=keep_log)
    return variants, w, sim_s


def crash_violation(w):
    if not w.crashes:
        return None
    t, msg, tb = w.crashes[0]
    return {"class": "crash", "key": {"where": tb.split(" @ ")[-1] if " @ " in tb else msg[:60], "exc": tb.split(":")[0]},
            "msg": f"t={t:.6f} {msg} {tb}"}
