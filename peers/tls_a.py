"""TLS peers and the shared scenario executor for C15 / C16 / C18.

* client peer: Python ``ssl`` (system OpenSSL) over ``ssl.MemoryBIO`` pumped through a SimConn —
  ``CERT_REQUIRED`` + ``check_hostname`` + ``VERIFY_X509_STRICT``, trusting only the run's mitmproxy CA.
  For SNI values that are IP literals (which Python's ssl refuses to put on the wire) a pyOpenSSL
  client with the same verification settings is used instead.
* origin peer: Python ``ssl`` server terminating TLS with a chain from ``peers.pki_a``.
* ``run(sc)``: runs the REAL proxy (simkit.world.run_world) for one scenario and returns the
  observations the three oracles need.  Nothing that depends on ciphertext / certificate bytes /
  real time enters the abstract event log.

Scenario (JSON):
  {"mode": "regular"|"swp"|"transparent"|"reverse_https"|"reverse_tls", "rhost": host of the reverse spec,
   "eager_tasks": bool, "confdir": "default"|"custom",
   "opts": {"ssl_insecure", "http2", "connection_strategy",
            "trust": "file"|"dir"|"both"|"default" (neither configured: sim-owned default bundle with roots P, Q),
            "trusted": ["A"] (roots in the configured file/dir; "trusted_file"/"trusted_dir" override per source),
            "upstream_cert", "store_cap"},
   "origins": [{"host", "port", "cert": pki spec, "alpn": [..]|None, "tls12": bool, "delay": s,
                "refuse": bool, "cuts": [...], "gaps": [...], "seg": n, "force_offers": [..]|None,
                "hangup": None|{"when": "flight"|"done", "how": "fin"|"close_notify"|"close_notify_fin", "delay": s}}],
   "hook_delay": {hook name: seconds a slow addon spends in that hook} (optional),
   "flows": [{"start": s, "host", "port", "sni": str|None, "verify": name checked by the client,
              "backend": "py"|"ossl", "offers": [..], "tls12": bool, "cuts", "gaps", "seg", "gap",
              "req": bool, "outer": {"sni", "verify", "offers", "cuts", "gaps"} (swp only)}]}
"""
from __future__ import annotations

import asyncio
import datetime
import ipaddress
import logging
import os
import random
import shutil
import ssl

from cryptography import x509
from cryptography.hazmat.primitives import hashes, serialization
from cryptography.hazmat.primitives.asymmetric import rsa
from cryptography.x509.oid import ExtendedKeyUsageOID, NameOID

from simkit import world as W
from simkit.net import ConnectPlan, oserror

from . import pki_a

CA_FILE = os.path.join(W.CONFDIR, "mitmproxy-ca-cert.pem")
PROXY_IP = "10.0.0.1"
IO_TIMEOUT = 40.0

_ctx_cache: dict = {}

# log records emitted while a world is being torn down (its handler is already gone) would otherwise be
# printed by logging.lastResort
logging.getLogger().addHandler(logging.NullHandler())


class PeerTimeout(Exception):
    pass


class PipeClosed(Exception):
    """The TLS session we want to write into has been shut down by the other side."""


# ---------------------------------------------------------------------------
# custom CA confdir (intermediate CA with an RFC 7093 style SKI + its root)
# ---------------------------------------------------------------------------
def custom_confdir() -> tuple[str, str]:
    """Returns (confdir, client trust file).  RSA keys are generated once per cache directory
    (first writer wins); the client trusts only the custom root."""
    base = pki_a._dir()
    d = os.path.join(base, "confdir-custom")
    root_pem = os.path.join(d, "root-cert.pem")
    if os.path.exists(os.path.join(d, ".complete")):
        return d, root_pem
    tmp = f"{d}.{os.getpid()}.tmp"
    shutil.rmtree(tmp, ignore_errors=True)
    os.makedirs(tmp)
    now = datetime.datetime.fromtimestamp(pki_a.utc_day() * 86400, datetime.timezone.utc)
    nb, na = now - datetime.timedelta(days=30), now + datetime.timedelta(days=400)
    rk = rsa.generate_private_key(public_exponent=65537, key_size=2048)
    ik = rsa.generate_private_key(public_exponent=65537, key_size=2048)
    ku = x509.KeyUsage(digital_signature=False, content_commitment=False, key_encipherment=False,
                       data_encipherment=False, key_agreement=False, key_cert_sign=True, crl_sign=True,
                       encipher_only=False, decipher_only=False)
    rname = x509.Name([x509.NameAttribute(NameOID.COMMON_NAME, "verif custom root"),
                       x509.NameAttribute(NameOID.ORGANIZATION_NAME, "verif")])
    iname = x509.Name([x509.NameAttribute(NameOID.COMMON_NAME, "verif custom issuing CA"),
                       x509.NameAttribute(NameOID.ORGANIZATION_NAME, "verif")])

    def ski256(key):
        der = key.public_key().public_bytes(serialization.Encoding.DER, serialization.PublicFormat.PKCS1)
        h = hashes.Hash(hashes.SHA256())
        h.update(der)
        return x509.SubjectKeyIdentifier(h.finalize()[:20])   # RFC 7093 method 1 (truncated SHA-256)

    root = (x509.CertificateBuilder().subject_name(rname).issuer_name(rname).public_key(rk.public_key())
            .serial_number(0x1001).not_valid_before(nb).not_valid_after(na)
            .add_extension(x509.BasicConstraints(ca=True, path_length=None), critical=True)
            .add_extension(ku, critical=True)
            .add_extension(ski256(rk), critical=False).sign(rk, hashes.SHA256()))
    inter = (x509.CertificateBuilder().subject_name(iname).issuer_name(rname).public_key(ik.public_key())
             .serial_number(0x1002).not_valid_before(nb).not_valid_after(na)
             .add_extension(x509.BasicConstraints(ca=True, path_length=0), critical=True)
             .add_extension(ku, critical=True)
             .add_extension(ski256(ik), critical=False)
             .add_extension(x509.AuthorityKeyIdentifier.from_issuer_subject_key_identifier(ski256(rk)),
                            critical=False)
             .sign(rk, hashes.SHA256()))
    pem = lambda c: c.public_bytes(serialization.Encoding.PEM)  # noqa: E731
    with open(os.path.join(tmp, "mitmproxy-ca.pem"), "wb") as f:
        f.write(ik.private_bytes(serialization.Encoding.PEM, serialization.PrivateFormat.TraditionalOpenSSL,
                                 serialization.NoEncryption()) + pem(inter) + pem(root))
    with open(os.path.join(tmp, "mitmproxy-ca-cert.pem"), "wb") as f:
        f.write(pem(inter))
    with open(os.path.join(tmp, "root-cert.pem"), "wb") as f:
        f.write(pem(root))
    shutil.copy(os.path.join(W.CONFDIR, "mitmproxy-dhparam.pem"), os.path.join(tmp, "mitmproxy-dhparam.pem"))
    open(os.path.join(tmp, ".complete"), "w").close()
    try:
        os.rename(tmp, d)
    except OSError:
        shutil.rmtree(tmp, ignore_errors=True)
    return d, root_pem


# ---------------------------------------------------------------------------
# TLS endpoints over memory BIOs
# ---------------------------------------------------------------------------
class PyTls:
    def __init__(self, ctx: ssl.SSLContext, *, server_side: bool, server_hostname=None):
        self.inc = ssl.MemoryBIO()
        self.out = ssl.MemoryBIO()
        self.obj = ctx.wrap_bio(self.inc, self.out, server_side=server_side, server_hostname=server_hostname)
        self.eof_fed = False
        self.done = False

    def handshake(self):
        try:
            self.obj.do_handshake()
        except ssl.SSLWantReadError:
            return "want", None
        except ssl.SSLCertVerificationError as e:
            return "fail", f"verify:{e.verify_code}:{e.verify_message}"
        except ssl.SSLError as e:
            return "fail", f"{type(e).__name__}:{e.reason}"
        self.done = True
        return "done", None

    def feed(self, data: bytes):
        self.inc.write(data)

    def feed_eof(self):
        self.eof_fed = True
        self.inc.write_eof()

    def pull(self) -> bytes:
        return self.out.read()

    def write(self, data: bytes):
        try:
            self.obj.write(data)
        except ssl.SSLError as e:
            raise PipeClosed(str(e)) from None

    def read(self):
        """-> (plaintext, closed: None|"close_notify"|"eof"|"error:...")"""
        buf = bytearray()
        while True:
            try:
                d = self.obj.read(65536)
            except ssl.SSLWantReadError:
                return bytes(buf), ("eof" if self.eof_fed else None)
            except ssl.SSLZeroReturnError:
                return bytes(buf), "close_notify"
            except ssl.SSLEOFError:
                return bytes(buf), "eof"
            except ssl.SSLError as e:
                return bytes(buf), f"error:{e.reason}"
            if not d:
                return bytes(buf), "close_notify"
            buf += d

    def close_notify(self):
        try:
            self.obj.unwrap()
        except ssl.SSLError:
            pass

    def alpn(self):
        return self.obj.selected_alpn_protocol()

    def peer_der(self):
        return self.obj.getpeercert(binary_form=True)

    def version(self):
        return self.obj.version()


class OsslTls:
    """pyOpenSSL client, used only where Python's ssl cannot express the ClientHello we need
    (server_name extension carrying an IP literal)."""
    unverifiable = False

    def __init__(self, *, cafile: str, sni: bytes | None, verify: str, offers, tls12: bool):
        from OpenSSL import SSL
        self.SSL = SSL
        ctx = SSL.Context(SSL.TLS_CLIENT_METHOD)
        ctx.load_verify_locations(cafile)
        ctx.set_verify(SSL.VERIFY_PEER, None)
        if tls12:
            ctx.set_max_proto_version(SSL.TLS1_2_VERSION)
        self.conn = SSL.Connection(ctx)
        lib = SSL._lib
        param = lib.SSL_get0_param(self.conn._ssl)
        lib.X509_VERIFY_PARAM_set_flags(param, 0x20)  # X509_V_FLAG_X509_STRICT
        kind, val = pki_a.identity_of(verify)
        if kind == "ip":
            packed = ipaddress.ip_address(val).packed
            assert lib.X509_VERIFY_PARAM_set1_ip(param, packed, len(packed)) == 1
        else:
            try:
                hb = verify.encode("idna")
            except UnicodeError:
                hb = verify.encode("ascii")
            lib.X509_VERIFY_PARAM_set_hostflags(param, 0x4)  # NO_PARTIAL_WILDCARDS
            if lib.X509_VERIFY_PARAM_set1_host(param, hb, len(hb)) != 1:
                # not a name OpenSSL can verify against (only generated for SNI values that are not
                # DNS names); the handshake is then made without verification
                self.unverifiable = True
                self.conn.set_verify(SSL.VERIFY_NONE, None)
        if sni is not None:
            self.conn.set_tlsext_host_name(sni)
        if offers:
            self.conn.set_alpn_protos([o.encode() for o in offers])
        self.conn.set_connect_state()
        self.eof_fed = False
        self.done = False

    def handshake(self):
        SSL = self.SSL
        try:
            self.conn.do_handshake()
        except SSL.WantReadError:
            if self.eof_fed:
                return "fail", "eof"
            return "want", None
        except SSL.Error as e:
            last = e.args[0][-1][2] if e.args and isinstance(e.args[0], list) and e.args[0] else repr(e)
            if "certificate verify failed" in str(last):
                code = SSL._lib.SSL_get_verify_result(self.conn._ssl)
                msg = SSL._ffi.string(SSL._lib.X509_verify_cert_error_string(code)).decode()
                return "fail", f"verify:{code}:{msg}"
            return "fail", f"{type(e).__name__}:{last}"
        self.done = True
        return "done", None

    def feed(self, data: bytes):
        self.conn.bio_write(data)

    def feed_eof(self):
        self.eof_fed = True
        self.conn.bio_shutdown()

    def pull(self) -> bytes:
        out = bytearray()
        while True:
            try:
                out += self.conn.bio_read(65536)
            except self.SSL.WantReadError:
                return bytes(out)

    def write(self, data: bytes):
        try:
            self.conn.sendall(data)
        except self.SSL.Error as e:
            raise PipeClosed(repr(e)) from None

    def read(self):
        SSL = self.SSL
        buf = bytearray()
        while True:
            try:
                d = self.conn.recv(65536)
            except SSL.WantReadError:
                return bytes(buf), ("eof" if self.eof_fed else None)
            except SSL.ZeroReturnError:
                return bytes(buf), "close_notify"
            except SSL.SysCallError:
                return bytes(buf), "eof"
            except SSL.Error as e:
                return bytes(buf), f"error:{e!r}"
            buf += d

    def close_notify(self):
        try:
            self.conn.shutdown()
        except self.SSL.Error:
            pass

    def alpn(self):
        a = self.conn.get_alpn_proto_negotiated()
        return a.decode() if a else None

    def peer_der(self):
        c = self.conn.get_peer_certificate()
        return c.to_cryptography().public_bytes(serialization.Encoding.DER) if c else None

    def version(self):
        return self.conn.get_protocol_version_name()


def client_ctx(cafile: str, offers, tls12: bool) -> ssl.SSLContext:
    k = ("c", cafile, tuple(offers), tls12)
    ctx = _ctx_cache.get(k)
    if ctx is None:
        ctx = ssl.create_default_context(cafile=cafile)
        ctx.check_hostname = True
        ctx.verify_mode = ssl.CERT_REQUIRED
        ctx.verify_flags |= ssl.VERIFY_X509_STRICT
        if offers:
            ctx.set_alpn_protocols(list(offers))
        if tls12:
            ctx.maximum_version = ssl.TLSVersion.TLSv1_2
        _ctx_cache[k] = ctx
    return ctx


def _sni_cb(sslobj, name, ctx):
    sslobj.sim_sni = name
    return None


def origin_ctx(certfile: str, alpn, tls12: bool) -> ssl.SSLContext:
    k = ("o", certfile, None if alpn is None else tuple(alpn), tls12)
    ctx = _ctx_cache.get(k)
    if ctx is None:
        ctx = ssl.SSLContext(ssl.PROTOCOL_TLS_SERVER)
        ctx.load_cert_chain(certfile)
        if alpn:
            ctx.set_alpn_protocols(list(alpn))
        if tls12:
            ctx.maximum_version = ssl.TLSVersion.TLSv1_2
        ctx.sni_callback = _sni_cb
        _ctx_cache[k] = ctx
    return ctx


def make_client_endpoint(cafile, *, sni, verify, backend, offers, tls12):
    if backend == "ossl":
        return OsslTls(cafile=cafile, sni=None if sni is None else sni.encode("ascii"), verify=verify,
                       offers=offers, tls12=tls12)
    # Python's ssl: server_hostname is both the SNI and the name to verify; an IP literal is verified
    # as an IP address and no server_name extension is sent.
    return PyTls(client_ctx(cafile, offers, tls12), server_side=False,
                 server_hostname=sni if sni is not None else verify)


# ---------------------------------------------------------------------------
# byte pipes
# ---------------------------------------------------------------------------
class ConnPipe:
    def __init__(self, conn):
        self.conn = conn

    async def send(self, data: bytes, cuts=(), gaps=(), seg=0, gap=0.0):
        if not data:
            return
        if not cuts and seg:
            cuts = list(range(seg, len(data), seg))
            gaps = [gap] * (len(cuts) + 1)
        await self.conn.send(data, cuts=cuts, gaps=gaps)

    async def recv(self):
        """bytes, or None at EOF."""
        c = self.conn
        while True:
            if c.rx:
                return c.take()
            if c.rx_eof:
                return None
            if not await c.wait_change(IO_TIMEOUT):
                raise PeerTimeout()

    def fin(self):
        self.conn.send_eof()


class TlsPipe:
    """The application-data channel of an established TLS endpoint on top of a lower pipe."""

    def __init__(self, ep, lower, seg=0, gap=0.0):
        self.ep, self.lower, self.seg, self.gap = ep, lower, seg, gap
        self.closed = None

    async def send(self, data: bytes, cuts=(), gaps=(), seg=0, gap=0.0):
        # cuts apply to the plaintext: every piece becomes its own record(s)
        pos = 0
        pts = sorted({c for c in cuts if 0 < c < len(data)}) + [len(data)]
        for i, end in enumerate(pts):
            g = gaps[i] if i < len(gaps) else 0.0
            if g > 0:
                await asyncio.sleep(g)
            self.ep.write(data[pos:end])
            pos = end
            await self.lower.send(self.ep.pull(), seg=seg or self.seg, gap=gap or self.gap)

    async def recv(self):
        while True:
            data, closed = self.ep.read()
            out = self.ep.pull()
            if out:
                await self.lower.send(out)
            if data:
                return data
            if closed:
                self.closed = closed
                return None
            chunk = await self.lower.recv()
            if chunk is None:
                self.ep.feed_eof()
            else:
                self.ep.feed(chunk)

    def fin(self):
        self.lower.fin()


async def do_handshake(ep, pipe, *, cuts=(), gaps=(), seg=0, gap=0.0, after_flight=None):
    """Drive a handshake to completion.  -> (ok, reason)
    ``after_flight`` (optional): ``await after_flight(k, state)`` once the k-th flight (k = 1, 2, ...) of this
    endpoint has been handed to the pipe; state is "want" | "done" | "fail"."""
    first = True
    flights = 0
    while True:
        st, why = ep.handshake()
        out = ep.pull()
        if out:
            try:
                if first:
                    await pipe.send(out, cuts=cuts, gaps=gaps, seg=seg, gap=gap)
                else:
                    await pipe.send(out, seg=seg, gap=gap)
            except PipeClosed:
                return False, why or "pipe_closed"
            first = False
            flights += 1
            if after_flight is not None:
                await after_flight(flights, st)
        if st == "done":
            return True, None
        if st == "fail":
            return False, why
        if ep.eof_fed:
            return False, "eof"
        chunk = await pipe.recv()
        if chunk is None:
            ep.feed_eof()
        else:
            ep.feed(chunk)


# ---------------------------------------------------------------------------
# observation helpers
# ---------------------------------------------------------------------------
def cert_summary(der: bytes | None):
    if not der:
        return None
    c = x509.load_der_x509_certificate(der)
    out = {"cn": None, "org": None, "sans": [], "san_critical": None, "eku": None, "crl": [], "aki": None,
           "issuer": c.issuer.rfc4514_string(), "subject": c.subject.rfc4514_string()}
    a = c.subject.get_attributes_for_oid(NameOID.COMMON_NAME)
    if a:
        out["cn"] = a[0].value
    a = c.subject.get_attributes_for_oid(NameOID.ORGANIZATION_NAME)
    if a:
        out["org"] = a[0].value
    try:
        ext = c.extensions.get_extension_for_class(x509.SubjectAlternativeName)
        out["san_critical"] = ext.critical
        for g in ext.value:
            if isinstance(g, x509.DNSName):
                out["sans"].append(["dns", g.value])
            elif isinstance(g, x509.IPAddress):
                out["sans"].append(["ip", g.value.compressed])
            elif isinstance(g, x509.RFC822Name):
                out["sans"].append(["email", g.value])
            elif isinstance(g, x509.UniformResourceIdentifier):
                out["sans"].append(["uri", g.value])
            elif isinstance(g, x509.DirectoryName):
                out["sans"].append(["dirname", g.value.rfc4514_string()])
            else:
                out["sans"].append(["other", repr(g)])
    except x509.ExtensionNotFound:
        pass
    try:
        eku = c.extensions.get_extension_for_class(x509.ExtendedKeyUsage).value
        out["eku"] = sorted(o.dotted_string for o in eku)
    except x509.ExtensionNotFound:
        pass
    try:
        for dp in c.extensions.get_extension_for_class(x509.CRLDistributionPoints).value:
            for n in dp.full_name or []:
                out["crl"].append(n.value)
    except x509.ExtensionNotFound:
        pass
    try:
        aki = c.extensions.get_extension_for_class(x509.AuthorityKeyIdentifier).value
        out["aki"] = aki.key_identifier.hex() if aki.key_identifier else None
    except x509.ExtensionNotFound:
        pass
    out["not_before"] = c.not_valid_before_utc.timestamp()
    out["not_after"] = c.not_valid_after_utc.timestamp()
    out["serverauth"] = out["eku"] is None or ExtendedKeyUsageOID.SERVER_AUTH.dotted_string in out["eku"]
    return out


def _client_of(data):
    ctx = getattr(data, "context", None)
    if ctx is not None and hasattr(ctx, "client"):
        return ctx.client
    cc = getattr(data, "client_conn", None)
    if cc is not None:
        return cc
    cl = getattr(data, "client", None)
    if cl is not None and hasattr(cl, "peername"):
        return cl
    if hasattr(data, "peername") and hasattr(data, "sockname") and not hasattr(data, "address"):
        return data
    return None


class Obs:
    def __init__(self):
        self.flows: list[dict] = []
        self.oconns: list[dict] = []      # one record per accepted origin connection
        self.events: list = []            # abstract event log (digest)
        self.hooks: dict[int, list] = {}  # flow idx -> [(name, detail)]
        self.world = None
        self.sim_s = 0.0
        self.trusted = []
        self.cafile = CA_FILE
        self.ca_subject = None
        self.ca_der_chain: list[bytes] = []
        self.flow_crashes: dict = {}      # flow idx (or None) -> [{"exc", "where", "msg"}]


# ---------------------------------------------------------------------------
# the executor
# ---------------------------------------------------------------------------
def mode_string(sc) -> str:
    m = sc["mode"]
    if m in ("regular", "swp"):
        return "regular"
    if m == "transparent":
        return "transparent"
    host = sc.get("rhost", "o.test")
    if ":" in host:
        host = f"[{host}]"
    port = sc.get("rport", 443)
    if m == "reverse_https":
        return f"reverse:https://{host}:{port}"
    if m == "reverse_tls":
        return f"reverse:tls://{host}:{port}"
    raise ValueError(m)


def _client_cuts(cuts):
    """mitmproxy documents that a client whose first segment is shorter than 3 bytes is not taken
    for a TLS client (net.tls.starts_like_tls_record); the first segment of a ClientHello is
    therefore never cut below 3 bytes."""
    return [c for c in cuts if c >= 3]


def _hostport(host: str, port: int) -> str:
    return f"[{host}]:{port}" if ":" in host else f"{host}:{port}"


def run(sc: dict, keep_log: bool = False, in_world=None) -> Obs:
    """``in_world`` (optional): ``await in_world(w, obs)`` inside the still running world once all client
    connections have finished (unset: no effect)."""
    obs = Obs()
    opts_in = sc.get("opts", {})
    trusted = list(opts_in.get("trusted", ["A"]))
    obs.trusted = trusted
    options = {
        "ssl_insecure": bool(opts_in.get("ssl_insecure", False)),
        "http2": bool(opts_in.get("http2", True)),
        "connection_strategy": opts_in.get("connection_strategy", "eager"),
        "upstream_cert": bool(opts_in.get("upstream_cert", True)),
    }
    # trust anchors: a configured CA file and/or hashed CA directory are the ONLY anchors; with neither,
    # the default bundle (certifi.where(), replaced by a sim-owned bundle holding the public sim roots)
    trust = opts_in.get("trust", "file")
    anchors: list = []
    if trust in ("file", "both"):
        tf = list(opts_in.get("trusted_file", trusted))
        options["ssl_verify_upstream_trusted_ca"] = pki_a.trust_file(tf)
        anchors += tf
    if trust in ("dir", "both"):
        td = list(opts_in.get("trusted_dir", trusted))
        options["ssl_verify_upstream_trusted_confdir"] = pki_a.trust_dir(td)
        anchors += td
    if trust in ("certifi", "default"):
        anchors = list(pki_a.PUBLIC_ROOTS)
    obs.trusted = sorted(set(anchors))
    bundle = pki_a.public_bundle()
    confdir = None
    if sc.get("confdir") == "custom":
        confdir, obs.cafile = custom_confdir()
    origins = {(o["host"].lower(), int(o["port"])): o for o in reversed(sc.get("origins", []))}
    flows = sc.get("flows", [])
    hook_delay = dict(sc.get("hook_delay") or {})
    for i, fl in enumerate(flows):
        obs.flows.append({"i": i, "stage": "init", "connect_status": None, "outer": None, "hs": None, "why": None,
                          "alpn": None, "cert": None, "der": None, "version": None, "status": None, "body": None,
                          "reply": None, "timeout": False, "closed_by_proxy": None, "events": []})
        obs.hooks[i] = []

    def ev(*a):
        obs.events.append(a)

    async def body(w):
        port2flow = {50000 + i: i for i in range(len(flows))}

        def flow_idx(data):
            cl = _client_of(data)
            if cl is None or not cl.peername:
                return None
            return port2flow.get(cl.peername[1])

        def policy(name, data):
            if name == "tls_start_server":
                srv = data.conn
                if srv.address:
                    o = origins.get((str(srv.address[0]).lower(), srv.address[1]))
                    if o and o.get("force_offers") is not None:
                        srv.alpn_offers = [x.encode() for x in o["force_offers"]]
            # an earlier addon overrides the upstream SNI: origin["sni_fault"] = {"hook": "server_connect" |
            # "tls_start_server", "sni": str} (unset: no effect)
            if name in ("server_connect", "tls_start_server"):
                srv = data.server if name == "server_connect" else data.conn
                if srv.address:
                    o = origins.get((str(srv.address[0]).lower(), srv.address[1]))
                    sf = o.get("sni_fault") if o else None
                    if sf and sf.get("hook") == name:
                        srv.sni = sf["sni"]
                        ev("sni_fault", name)
            # a slow addon: sc["hook_delay"] = {hook name: seconds} (unset: no effect)
            d = hook_delay.get(name)
            if d:
                ev("hook_delay", name)
                return asyncio.sleep(float(d))
            return None

        def listener(t, name, data):
            i = flow_idx(data)
            detail = None
            if name in ("tls_established_server", "tls_failed_server", "tls_start_server"):
                c = data.conn
                detail = {"sni": c.sni, "alpn": c.alpn, "error": c.error,
                          "address": list(c.address) if c.address else None,
                          "offers": [bytes(x).decode("latin1") for x in (c.alpn_offers or [])]}
            elif name in ("tls_start_client", "tls_established_client", "tls_failed_client"):
                c = data.conn
                s = data.context.server
                detail = {"sni": c.sni, "alpn": c.alpn, "error": c.error, "layers": len(data.context.layers),
                          "server_alpn": s.alpn, "server_established": bool(s.tls_established),
                          "server_state": int(s.state.value)}
            elif name == "error":
                detail = {"error": getattr(getattr(data, "error", None), "msg", None)}
            elif name == "tcp_error":
                detail = {"error": getattr(getattr(data, "error", None), "msg", None)}
            elif name == "response":
                r = getattr(data, "response", None)
                detail = {"status": getattr(r, "status_code", None)}
            if i is not None:
                obs.hooks[i].append((name, detail))
            ev("hook", i, name)

        w.policy = policy
        w.hook_listeners.append(listener)

        # per-flow attribution of exceptions the proxy logs (addon errors, layer crashes): walk the
        # traceback for a frame that knows the connection context
        class _FlowCrash(logging.Handler):
            def emit(self, record):
                if not record.exc_info or record.exc_info[1] is None:
                    return
                e = record.exc_info[1]
                t = e.__traceback__
                idx = None
                last = None
                while t is not None:
                    last = t
                    loc = t.tb_frame.f_locals
                    for nm in ("tls_start", "conn_context", "self", "data"):
                        o = loc.get(nm)
                        cx = getattr(o, "context", None) if nm != "conn_context" else o
                        cl = getattr(cx, "client", None)
                        pn = getattr(cl, "peername", None)
                        if pn and idx is None:
                            idx = port2flow.get(pn[1])
                    t = t.tb_next
                co = last.tb_frame.f_code if last is not None else None
                where = f"{os.path.basename(co.co_filename)}:{co.co_name}" if co else "?"
                obs.flow_crashes.setdefault(idx, []).append({"exc": type(e).__name__, "where": where,
                                                             "msg": f"{record.getMessage()[:120]} | {e}"[:300]})

        fch = _FlowCrash(level=logging.DEBUG)
        logging.getLogger().addHandler(fch)
        w._stack.callback(logging.getLogger().removeHandler, fch)

        def planner(host, port, n, proto):
            o = origins.get((str(host).lower(), int(port)))
            if o is None or o.get("refuse"):
                ev("connect", str(host), port, "refused")
                return ConnectPlan(delay=0.001, error=oserror("refused"))
            rec = {"n": n, "host": str(host), "port": int(port), "spec": o, "hs": None, "why": None, "sni": None,
                   "alpn": None, "app_bytes": 0, "app": b"", "version": None, "order_done": None, "timeout": False}
            obs.oconns.append(rec)

            def accept(conn):
                ev("origin_accept", rec["host"], rec["port"])
                w.loop.create_task(origin(conn, o, rec), name=f"sim-origin-{n}")
            return ConnectPlan(delay=float(o.get("delay", 0.0)), accept=accept)

        w.net.connect_planner = planner

        async def origin(conn, o, rec):
            try:
                ch = pki_a.chain(o["cert"])
                ep = PyTls(origin_ctx(ch.certfile, o.get("alpn"), bool(o.get("tls12"))), server_side=True)
                pipe = ConnPipe(conn)
                # fault "the origin hangs up around the end of its handshake" (unset: no effect).
                #   when "flight": TCP FIN right after the origin's FIRST flight (in TLS 1.3 that flight ends with the
                #                  origin's Finished; the origin still reads the peer's Finished afterwards);
                #   when "done"  : close_notify and/or FIN as soon as the origin's own handshake has completed.
                hang = o.get("hangup") or None
                after_flight = None
                if hang and hang.get("when") == "flight":
                    async def after_flight(k, st):
                        if k == 1 and st == "want":
                            if float(hang.get("delay", 0.0)) > 0:
                                await asyncio.sleep(float(hang["delay"]))
                            rec["hangup"] = "flight"
                            ev("origin_hangup", rec["host"], rec["port"], "flight", "fin")
                            pipe.fin()
                ok, why = await do_handshake(ep, pipe, cuts=o.get("cuts", ()), gaps=o.get("gaps", ()),
                                             seg=int(o.get("seg", 0)), gap=0.0, after_flight=after_flight)
                rec["hs"], rec["why"] = ok, why
                rec["sni"] = getattr(ep.obj, "sim_sni", None)
                rec["order_done"] = len(obs.events)
                if ok:
                    rec["alpn"] = ep.alpn()
                    rec["version"] = ep.version()
                ev("origin_hs", rec["host"], rec["port"], ok, rec["alpn"], rec["sni"])
                if not ok:
                    pipe.fin()
                    return
                app = TlsPipe(ep, pipe, seg=int(o.get("seg", 0)))
                replied = False
                if hang and hang.get("when") == "done":
                    if float(hang.get("delay", 0.0)) > 0:
                        await asyncio.sleep(float(hang["delay"]))
                    how = hang.get("how", "fin")
                    rec["hangup"] = "done"
                    ev("origin_hangup", rec["host"], rec["port"], "done", how)
                    if how in ("close_notify", "close_notify_fin"):
                        ep.close_notify()
                        await pipe.send(ep.pull())
                    if how in ("fin", "close_notify_fin"):
                        pipe.fin()
                if rec.get("hangup"):
                    replied = True      # an origin that has closed its sending side only drains what still arrives
                buf = bytearray()
                while True:
                    d = await app.recv()
                    if d is None:
                        break
                    buf += d
                    rec["app_bytes"] += len(d)
                    if not replied and rec["alpn"] in (None, "http/1.1", "http/1.0") and b"\r\n\r\n" in buf \
                            and buf[:4] in (b"GET ", b"HEAD"):
                        replied = True
                        await app.send(b"HTTP/1.1 200 OK\r\ncontent-length: 2\r\nx-origin: sim\r\n\r\nok")
                    elif not replied and buf.startswith(b"ping") and b"\n" in buf:
                        replied = True
                        await app.send(b"pong\n")
                rec["app"] = bytes(buf[:64])
                ev("origin_app", rec["host"], rec["port"], rec["app_bytes"], replied)
                ep.close_notify()
                await pipe.send(ep.pull())
                pipe.fin()
            except PeerTimeout:
                rec["timeout"] = True
                ev("origin_timeout", rec["host"], rec["port"])
                conn.send_eof()
            except PipeClosed:
                ev("origin_pipe_closed", rec["host"], rec["port"])
                conn.send_eof()

        async def client(i, fl, rec):
            def stage(s):
                rec["stage"] = s
                rec["events"].append(s)
                ev("client", i, s)
            try:
                if fl.get("start", 0) > 0:
                    await asyncio.sleep(float(fl["start"]))
                mode = sc["mode"]
                kw = {}
                if mode == "transparent":
                    kw["original_dst"] = (fl["host"], int(fl["port"]))
                c = w.connect_client(peername=("192.168.1.7", 50000 + i), **kw)
                rec["conn"] = c
                pipe = ConnPipe(c)
                seg, gap = int(fl.get("seg", 0)), float(fl.get("gap", 0.0))
                if mode == "swp":
                    ou = fl["outer"]
                    oep = make_client_endpoint(obs.cafile, sni=ou.get("sni"), verify=ou["verify"],
                                               backend=ou.get("backend", "py"), offers=ou.get("offers", []),
                                               tls12=bool(ou.get("tls12")))
                    ok, why = await do_handshake(oep, pipe, cuts=_client_cuts(ou.get("cuts", ())), gaps=ou.get("gaps", ()),
                                                 seg=seg, gap=gap)
                    orec = {"hs": ok, "why": why, "alpn": oep.alpn() if ok else None,
                            "der": oep.peer_der() if ok else None, "version": oep.version() if ok else None}
                    orec["cert"] = cert_summary(orec["der"])
                    rec["outer"] = orec
                    stage("outer_ok" if ok else "outer_fail")
                    if not ok:
                        return
                    pipe = TlsPipe(oep, pipe, seg=seg)
                if mode in ("regular", "swp"):
                    hp = _hostport(fl["host"], int(fl["port"]))
                    await pipe.send(f"CONNECT {hp} HTTP/1.1\r\nHost: {hp}\r\n\r\n".encode(), seg=seg, gap=gap)
                    head = bytearray()
                    while b"\r\n\r\n" not in head:
                        d = await pipe.recv()
                        if d is None:
                            break
                        head += d
                    try:
                        rec["connect_status"] = int(bytes(head).split(b" ", 2)[1])
                    except (IndexError, ValueError):
                        rec["connect_status"] = 0
                    stage(f"connect_{rec['connect_status']}")
                    if rec["connect_status"] != 200:
                        return
                    rest = bytes(head).split(b"\r\n\r\n", 1)[1]
                    assert not rest, rest
                ep = make_client_endpoint(obs.cafile, sni=fl.get("sni"), verify=fl["verify"],
                                          backend=fl.get("backend", "py"), offers=fl.get("offers", []),
                                          tls12=bool(fl.get("tls12")))
                ok, why = await do_handshake(ep, pipe, cuts=_client_cuts(fl.get("cuts", ())), gaps=fl.get("gaps", ()),
                                             seg=seg, gap=gap)
                rec["hs"], rec["why"] = ok, why
                rec["order_hs"] = len(obs.events)
                if ok:
                    rec["alpn"] = ep.alpn()
                    rec["der"] = ep.peer_der()
                    rec["cert"] = cert_summary(rec["der"])
                    rec["version"] = ep.version()
                stage("hs_ok" if ok else "hs_fail")
                if not ok:
                    return
                if fl.get("req", True) and rec["alpn"] in (None, "http/1.1", "http/1.0"):
                    app = TlsPipe(ep, pipe, seg=seg)
                    if mode == "reverse_tls":
                        await app.send(b"ping\n")
                        buf = bytearray()
                        while b"\n" not in buf:
                            d = await app.recv()
                            if d is None:
                                break
                            buf += d
                        rec["reply"] = bytes(buf[:16]).decode("latin1")
                        stage("reply" if buf else "no_reply")
                    else:
                        hp = _hostport(fl["host"], int(fl["port"]))
                        await app.send(f"GET /x HTTP/1.1\r\nHost: {hp}\r\n\r\n".encode())
                        buf = bytearray()
                        need = None
                        while True:
                            if need is None and b"\r\n\r\n" in buf:
                                h, _, b_ = bytes(buf).partition(b"\r\n\r\n")
                                cl = 0
                                for line in h.split(b"\r\n")[1:]:
                                    k, _, v = line.partition(b":")
                                    if k.strip().lower() == b"content-length":
                                        cl = int(v.strip())
                                need = len(h) + 4 + cl
                            if need is not None and len(buf) >= need:
                                break
                            d = await app.recv()
                            if d is None:
                                break
                            buf += d
                        try:
                            rec["status"] = int(bytes(buf).split(b" ", 2)[1])
                        except (IndexError, ValueError):
                            rec["status"] = 0
                        rec["body"] = bytes(buf).partition(b"\r\n\r\n")[2][:8].decode("latin1")
                        rec["from_origin"] = b"x-origin: sim" in bytes(buf).lower()
                        stage(f"status_{rec['status']}")
                ep.close_notify()
                await pipe.send(ep.pull())
            except PeerTimeout:
                rec["timeout"] = True
                stage("timeout")
            except PipeClosed:
                stage("pipe_closed")
            finally:
                c = rec.get("conn")
                if c is not None:
                    c.send_eof()
                    for _ in range(50):
                        if c.proxy_closed:
                            break
                        if not await c.wait_change(2.0):
                            break
                    rec["closed_by_proxy"] = bool(c.proxy_closed)

        tasks = [w.loop.create_task(client(i, fl, obs.flows[i]), name=f"sim-clientpeer-{i}")
                 for i, fl in enumerate(flows)]
        if tasks:
            await asyncio.wait(tasks)
        for t in tasks:
            if t.exception() is not None:
                raise t.exception()
        await asyncio.sleep(1.0)
        obs.sim_s = w.loop.time()
        cs = w.master.addons.get("tlsconfig").certstore
        obs.ca_subject = cs.default_ca._cert.subject.rfc4514_string()
        obs.ca_der_chain = [c._cert.public_bytes(serialization.Encoding.DER) for c in cs.default_chain_certs]
        if in_world is not None:
            await in_world(w, obs)

    # ---- process-global seams of this executor -----------------------------------------------
    from mitmproxy import certs as mcerts
    srng = random.Random(int(sc.get("seed", 0)) ^ 0xC16)
    old_serial = x509.random_serial_number
    old_cap = mcerts.CertStore.STORE_CAP
    x509.random_serial_number = lambda: srng.getrandbits(158) | (1 << 157)
    cap = opts_in.get("store_cap")
    if cap:
        mcerts.CertStore.STORE_CAP = int(cap)
    # "the default public CA bundle" is a sim-owned file: mitmproxy.net.tls calls certifi.where() at context
    # creation time.  The path is the same string for every run of a day and the world clears the lru_cache
    # of create_proxy_server_context at start, so no context leaks from one run into the next.
    import certifi as _certifi
    from mitmproxy.net import tls as _net_tls
    assert _net_tls.certifi is _certifi
    old_where = _certifi.where
    _certifi.where = lambda: bundle
    try:
        _, w = W.run_world(body, eager=bool(sc.get("eager_tasks")), seed=int(sc.get("seed", 0)), options=options,
                           modes=[mode_string(sc)], confdir=confdir, keep_log=keep_log)
    finally:
        _certifi.where = old_where
        x509.random_serial_number = old_serial
        mcerts.CertStore.STORE_CAP = old_cap
        _net_tls.create_proxy_server_context.cache_clear()
    obs.world = w
    for r in obs.flows:
        r.pop("conn", None)
    return obs


def first_crash(obs: Obs):
    """-> None | {"where", "exc", "msg"} for the first crash the world's crash monitor saw."""
    w = obs.world
    if not w.crashes:
        return None
    t, msg, tb = w.crashes[0]
    return {"where": tb.split(" @ ")[-1] if " @ " in tb else msg[:60], "exc": tb.split(":")[0],
            "msg": f"t={t:.6f} {msg} {tb}"}


def flow_crash(obs: Obs, i):
    """First exception the proxy logged while working for client connection ``i``
    (-> None | {"exc", "where", "msg"}).  Exceptions that could not be attributed to a
    connection count for the only flow of a single-flow run."""
    lst = obs.flow_crashes.get(i)
    if not lst and len(obs.flows) == 1:
        lst = obs.flow_crashes.get(None)
    if lst:
        return lst[0]
    if len(obs.flows) == 1:
        return first_crash(obs)
    return None


def origin_for(sc, fl):
    for o in sc.get("origins", []):
        if o["host"].lower() == fl["host"].lower() and int(o["port"]) == int(fl["port"]):
            return o
    return None


def conns_for(obs: Obs, fl):
    return [c for c in obs.oconns if c["host"].lower() == fl["host"].lower() and c["port"] == int(fl["port"])]


def hook_names(obs: Obs, i):
    return [n for n, _ in obs.hooks.get(i, [])]


def finish(sc, obs: Obs, violations, probes, nontrivial, states=None, faults=None):
    """Assemble the execute() result.  The digest covers the abstract event log and the
    per-flow abstract outcomes only (no certificate bytes, no times)."""
    items = list(obs.events)
    for r in obs.flows:
        c = r.get("cert") or {}
        o = r.get("outer") or {}
        items.append(("flow", r["i"], r["stage"], r["connect_status"], r["hs"], r["why"], r["alpn"], r["version"],
                      r["status"], r["reply"], r["timeout"], c.get("cn"), repr(c.get("sans")), c.get("org"),
                      repr(c.get("crl")), o.get("hs"), o.get("alpn"), o.get("why")))
    for c in obs.oconns:
        items.append(("oconn", c["host"], c["port"], c["hs"], c["why"], c["sni"], c["alpn"], c["app_bytes"],
                      c["version"]))
    # exception type + site only: the texts may embed wall-clock timestamps of connection objects
    items.append(("crashes", [(tb.split(":")[0], tb.split(" @ ")[-1]) for _, m, tb in obs.world.crashes]))
    items.append(("violations", sorted((v["class"], repr(sorted(v["key"].items()))) for v in violations)))
    faults = dict(faults or {})
    return {"violations": violations, "digest": W.digest(items), "nontrivial": bool(nontrivial),
            "faults": faults, "probes": dict(probes), "sim_s": obs.sim_s, "states": set(states or ())}
