"""HTTP/1 peers over a TlsStream (used by C05 for HTTP/1 origins behind an HTTP/2 client and by C06).

Everything that is read is kept as raw plaintext and parsed by the independent reader `peers.h1.P`
(never by h11 / mitmproxy).
"""
from __future__ import annotations

import asyncio

from peers import h1 as P
from peers.tls_h2 import write_pieces


def B(s) -> bytes:
    return s.encode("latin-1") if isinstance(s, str) else bytes(s)


class H1Origin:
    """One upstream connection.  spec:
      responses {marker: {delay, data (raw response bytes as latin-1 str), cuts, gaps,
                          then: "close"|"keep"|"rst"|"close_notify", early: bool,
                          leave: "fin"|"rst" (fault: leave instead of answering)}}, default_response,
      idle (s)
    marker_of(P.Msg) -> str
    """

    def __init__(self, world, tls, spec, marker_of, name="origin-h1"):
        self.world = world
        self.tls = tls
        self.spec = spec
        self.marker_of = marker_of
        self.name = name
        self.raw = bytearray()
        self.log: list = []
        self.answered: list = []     # markers in the order answered
        self.t_first_request = None
        self.first_marker = None
        self.eof_seen = False
        self.closed = False

    def now(self):
        return self.world.loop.time()

    def note(self, *ev):
        self.log.append((round(self.now(), 6), self.name) + ev)

    def parsed(self) -> P.Parsed:
        return P.parse_requests(bytes(self.raw), stop_after_connect=False)

    async def run(self):
        idle = self.spec.get("idle", 20.0)
        consumed = 0
        early_done = set()
        while not self.closed:
            d = self.tls.pull()
            if d:
                self.raw += d
                self.note("rx", len(d))
            progressed = False
            data = bytes(self.raw)
            if len(data) > consumed:
                m = None
                try:
                    m = P.parse_request(data, consumed)
                except P.IncompleteBody as e:
                    mk = self._mk(e.msg)
                    r = self._script(mk)
                    if r is not None and r.get("early") and mk not in early_done:
                        early_done.add(mk)
                        self.note("early_reply")
                        await self._reply(mk, r)
                        continue
                except P.Incomplete:
                    pass
                except P.Ambiguous as e:
                    self.note("ambiguous", e.kind)
                    # an origin that cannot frame the stream answers 400 and gives up on the connection
                    self.tls.write(b"HTTP/1.1 400 Bad Request\r\nConnection: close\r\nContent-Length: 0\r\n\r\n")
                    await asyncio.sleep(0.01)
                    self._close("close")
                    return
                if m is not None:
                    consumed = m.end
                    progressed = True
                    mk = self._mk(m)
                    if self.t_first_request is None:
                        self.t_first_request = self.now()
                        self.first_marker = mk
                    self.note("request", len(m.headers), len(m.body), m.framing)
                    if mk in early_done:
                        continue
                    r = self._script(mk)
                    if r is not None:
                        if r.get("leave"):
                            # fault: the origin leaves instead of answering
                            self.world.net.fired("origin_h1_leaves")
                            await asyncio.sleep(r.get("delay", 0.0))
                            self.note("leave", r["leave"])
                            self._close("rst" if r["leave"] == "rst" else "close")
                            return
                        if await self._reply(mk, r):
                            return
            if progressed:
                continue
            if self.tls.eof:
                self.eof_seen = True
                self.note("peer_eof")
                self._close("close")
                return
            if not await self.tls.wait(idle):
                if self.tls.conn.rx_eof:
                    continue
                self.note("idle_close")
                self._close("close")
                return

    def _mk(self, m):
        try:
            return self.marker_of(m)
        except Exception:
            return None

    def _script(self, mk):
        r = self.spec.get("responses", {}).get(mk) if mk is not None else None
        if r is None:
            r = self.spec.get("default_response")
        return r

    async def _reply(self, mk, r) -> bool:
        """True if the connection was closed by the script."""
        if r.get("delay"):
            await asyncio.sleep(r["delay"])
        if self.closed or self.tls.eof and not r.get("data"):
            return self.closed
        data = B(r.get("data", ""))
        if data:
            await write_pieces(self.tls, data, r.get("cuts", ()), r.get("gaps", ()))
        self.answered.append(mk)
        self.note("reply", len(data))
        then = r.get("then", "close")
        if then == "keep":
            return False
        if r.get("linger"):
            await asyncio.sleep(r["linger"])
        self._close(then)
        return True

    def _close(self, how):
        if self.closed:
            return
        self.closed = True
        # drain what is still buffered so `raw` is complete
        d = self.tls.pull()
        if d:
            self.raw += d
        if how == "rst":
            self.tls.closed_by_us = True
            self.tls.conn.reset()
        elif how == "close_notify":
            self.tls.close(notify=True)
        else:
            self.tls.close(notify=False)

    async def drain(self, idle=5.0):
        """After run(): keep recording bytes the proxy still sends (a second smuggled message ...)."""
        while not self.tls.eof and not self.tls.conn.rx_eof:
            if not await self.tls.conn.wait_change(idle):
                break
            d = self.tls.pull()
            if d:
                self.raw += d


class H1Client:
    """spec: steps [ {op: send, data, cuts, gaps} | {op: await, n, timeout} | {op: sleep, t} ],
    methods [str] (request methods in order, for response framing), finish {close: fin|rst|none}"""

    def __init__(self, world, tls, spec, name="client-h1"):
        self.world = world
        self.tls = tls
        self.spec = spec
        self.name = name
        self.raw = bytearray()
        self.log: list = []
        self.closed = False

    def now(self):
        return self.world.loop.time()

    def note(self, *ev):
        self.log.append((round(self.now(), 6), self.name) + ev)

    def pump(self):
        d = self.tls.pull()
        if d:
            self.raw += d
            self.note("rx", len(d))

    def parsed(self, eof=None) -> P.Parsed:
        methods = [B(m) for m in self.spec.get("methods", [])]
        return P.parse_responses(bytes(self.raw), methods, self.tls.eof if eof is None else eof)

    def n_final(self) -> int:
        p = self.parsed(eof=False)
        return sum(1 for m in p.msgs if not (100 <= m.status <= 199 and m.status != 101))

    async def run(self):
        for step in self.spec.get("steps", []):
            op = step["op"]
            self.pump()
            if op == "send":
                if self.tls.eof:
                    self.note("skip_send_closed")
                    continue
                data = B(step["data"])
                self.note("tx", len(data))
                await write_pieces(self.tls, data, step.get("cuts", ()), step.get("gaps", ()))
            elif op == "sleep":
                await asyncio.sleep(step["t"])
            elif op == "await":
                deadline = self.now() + step.get("timeout", 30.0)
                while True:
                    self.pump()
                    if self.tls.eof or self.n_final() >= step["n"]:
                        break
                    left = deadline - self.now()
                    if left <= 0:
                        self.note("await_timeout")
                        break
                    await self.tls.wait(left)
        self.pump()
        how = self.spec.get("finish", {}).get("close", "fin")
        if how == "none":
            return
        # let a close-delimited response finish first
        deadline = self.now() + self.spec.get("finish", {}).get("linger", 2.0)
        while not self.tls.eof:
            left = deadline - self.now()
            if left <= 0:
                break
            await self.tls.wait(left)
            self.pump()
        self.closed = True
        if how == "rst":
            self.tls.closed_by_us = True
            self.tls.conn.reset()
        else:
            self.tls.close(notify=True)
