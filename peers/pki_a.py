"""Simulated PKI for the TLS checks C15 / C16 / C18 (origin side).

Everything is a pure function of (label, real UTC day): keys are Ed25519 keys derived
from a hash of their label (Ed25519 signatures are deterministic, fixed length), serial
numbers are derived from the certificate's construction parameters.  Two worker
processes therefore produce byte-identical files, which lets them share one
content-addressed cache directory (written atomically).  Validity windows are laid out
around the REAL clock (OpenSSL's verifier reads the real time) with day-scale margins.

Files are needed because Python's ``ssl`` can load a certificate chain only from a path
and because mitmproxy takes its upstream trust anchors as a file / hashed directory.
They live under /verif/data/pki_a/<utc-day>/ (git-ignored, regenerated on demand); directories
of earlier days are removed.

Roots: "A" and "B" are private roots that a run may configure as trusted (file / hashed
directory); "P" and "Q" are the simulated PUBLIC roots — the content of the sim-owned default
bundle that ``certifi.where()`` is made to return during a run, and of no configured file or
directory; "X" is an unrelated root that nobody trusts.

The module also contains the *independent verdict*: ``verdict(spec, identity, trusted)``
decides from the construction parameters alone whether a chain is acceptable for an
identity (RFC 5280 path + RFC 6125 name rules as restricted by the property statement:
DNS-ID only, no partial wildcards, no CN fallback, IP SAN for IP identities).
"""
from __future__ import annotations

import datetime
import hashlib
import ipaddress
import os
import shutil
import time

from cryptography import x509
from cryptography.hazmat.primitives import serialization
from cryptography.hazmat.primitives.asymmetric import ed25519
from cryptography.x509.oid import ExtendedKeyUsageOID, NameOID

REAL_TIME = time.time
CACHE_ROOT = os.path.join(os.path.dirname(os.path.dirname(os.path.abspath(__file__))), "data", "pki_a")
DAY = 86400

ROOTS = ("A", "B", "P", "Q", "X")   # A, B: configurable private roots; P, Q: default bundle; X: nobody's
PUBLIC_ROOTS = ("P", "Q")
_mem: dict = {}


def utc_day() -> int:
    return int(REAL_TIME() // DAY)


def _dir() -> str:
    d = _mem.get("dir")
    day = utc_day()
    if d is None or _mem.get("day") != day:
        _mem.clear()
        d = os.path.join(CACHE_ROOT, str(day))
        os.makedirs(d, exist_ok=True)
        gi = os.path.join(CACHE_ROOT, ".gitignore")
        if not os.path.exists(gi):
            try:
                with open(gi, "w") as f:
                    f.write("*\n")
            except OSError:
                pass
        _mem["dir"], _mem["day"] = d, day
        try:
            for n in os.listdir(CACHE_ROOT):
                if n.isdigit() and int(n) < day - 1:
                    shutil.rmtree(os.path.join(CACHE_ROOT, n), ignore_errors=True)
        except OSError:
            pass
    return d


def _h(*parts) -> bytes:
    h = hashlib.blake2b(digest_size=32)
    for p in parts:
        h.update(repr(p).encode())
        h.update(b"\x00")
    return h.digest()


def key_for(label: str) -> ed25519.Ed25519PrivateKey:
    k = _mem.get(("key", label))
    if k is None:
        _dir()
        k = _mem[("key", label)] = ed25519.Ed25519PrivateKey.from_private_bytes(_h("key", label))
    return k


def _serial(*parts) -> int:
    return (int.from_bytes(_h("serial", *parts)[:19], "big") | (1 << 150))


def _window(kind: str):
    base = datetime.datetime.fromtimestamp(utc_day() * DAY, datetime.timezone.utc)
    d = datetime.timedelta
    if kind == "ok":
        return base - d(days=30), base + d(days=90)
    if kind == "expired":
        return base - d(days=90), base - d(days=3)
    if kind == "future":
        return base + d(days=3), base + d(days=90)
    raise ValueError(kind)


def _write(name: str, data: bytes) -> str:
    p = os.path.join(_dir(), name)
    if not os.path.exists(p):
        tmp = f"{p}.{os.getpid()}.tmp"
        with open(tmp, "wb") as f:
            f.write(data)
        os.replace(tmp, p)
    return p


def _pem(cert: x509.Certificate) -> bytes:
    return cert.public_bytes(serialization.Encoding.PEM)


def _ca_cert(label: str, issuer_label: str | None, *, is_ca=True, validity="ok", pathlen=None) -> x509.Certificate:
    ck = ("ca", label, issuer_label, is_ca, validity)
    c = _mem.get(ck)
    if c is not None:
        return c
    key = key_for("ca:" + label)
    name = x509.Name([x509.NameAttribute(NameOID.COMMON_NAME, f"Sim CA {label}"),
                      x509.NameAttribute(NameOID.ORGANIZATION_NAME, "verif sim pki")])
    if issuer_label is None:
        issuer_name, signer, issuer_pub = name, key, key.public_key()
    else:
        icert = _ca_cert(issuer_label, None)
        issuer_name, signer, issuer_pub = icert.subject, key_for("ca:" + issuer_label), icert.public_key()
    nb, na = _window(validity)
    b = (x509.CertificateBuilder().subject_name(name).issuer_name(issuer_name).public_key(key.public_key())
         .serial_number(_serial(*ck)).not_valid_before(nb).not_valid_after(na)
         .add_extension(x509.BasicConstraints(ca=is_ca, path_length=pathlen if is_ca else None), critical=True)
         .add_extension(x509.SubjectKeyIdentifier.from_public_key(key.public_key()), critical=False))
    if is_ca:
        b = b.add_extension(x509.KeyUsage(digital_signature=False, content_commitment=False, key_encipherment=False,
                                          data_encipherment=False, key_agreement=False, key_cert_sign=True,
                                          crl_sign=True, encipher_only=False, decipher_only=False), critical=True)
    else:
        b = b.add_extension(x509.KeyUsage(digital_signature=True, content_commitment=False, key_encipherment=False,
                                          data_encipherment=False, key_agreement=False, key_cert_sign=False,
                                          crl_sign=False, encipher_only=False, decipher_only=False), critical=True)
    if issuer_label is not None:
        b = b.add_extension(x509.AuthorityKeyIdentifier.from_issuer_public_key(issuer_pub), critical=False)
    c = _mem[ck] = b.sign(signer, None)
    return c


def root_cert(label: str) -> x509.Certificate:
    return _ca_cert(label, None)


def trust_file(labels) -> str:
    labels = tuple(sorted(labels))
    data = b"".join(_pem(root_cert(l)) for l in labels)
    return _write("trust-" + "".join(labels) + "-" + _h(data).hex()[:12] + ".pem", data)


def public_bundle() -> str:
    """The sim-owned "default CA bundle" (what certifi.where() returns during a run)."""
    return trust_file(PUBLIC_ROOTS)


def trust_dir(labels) -> str:
    """c_rehash style directory: <subject-hash>.<n> files."""
    from OpenSSL import crypto
    labels = tuple(sorted(labels))
    d = os.path.join(_dir(), "trustdir-" + "".join(labels))
    ok = os.path.join(d, ".complete")
    if not os.path.exists(ok):
        tmp = f"{d}.{os.getpid()}.tmp"
        shutil.rmtree(tmp, ignore_errors=True)
        os.makedirs(tmp)
        seen: dict = {}
        for l in labels:
            c = root_cert(l)
            hv = crypto.X509.from_cryptography(c).subject_name_hash()
            n = seen.get(hv, 0)
            seen[hv] = n + 1
            with open(os.path.join(tmp, f"{hv:08x}.{n}"), "wb") as f:
                f.write(_pem(c))
        open(os.path.join(tmp, ".complete"), "w").close()
        try:
            os.rename(tmp, d)
        except OSError:
            shutil.rmtree(tmp, ignore_errors=True)
    return d


def _general_name(kind: str, value: str) -> x509.GeneralName:
    if kind == "dns":
        return x509.DNSName(value)
    if kind == "ip":
        return x509.IPAddress(ipaddress.ip_address(value))
    if kind == "email":
        return x509.RFC822Name(value)
    if kind == "uri":
        return x509.UniformResourceIdentifier(value)
    if kind == "dirname":
        return x509.DirectoryName(x509.Name([x509.NameAttribute(NameOID.COMMON_NAME, value)]))
    raise ValueError(kind)


CHAINS = ("root", "inter", "inter_missing", "self_signed", "unknown_ca", "inter_not_ca", "inter_expired")


def norm_spec(spec: dict) -> dict:
    return {"chain": spec.get("chain", "root"), "validity": spec.get("validity", "ok"),
            "root": spec.get("root", "A"),
            "cn": spec.get("cn"), "org": spec.get("org"), "crl": spec.get("crl"),
            "sans": [list(s) for s in spec.get("sans", [])]}


class Chain:
    __slots__ = ("spec", "leaf", "sent", "certfile", "leaf_der")


def chain(spec: dict) -> Chain:
    """Build (or fetch) the leaf + chain described by ``spec`` and the file Python's ssl can load."""
    spec = norm_spec(spec)
    ck = ("chain", repr(sorted(spec.items())))
    got = _mem.get(ck)
    if got is not None:
        return got
    _dir()
    kind = spec["chain"]
    leaf_key = key_for("leaf")
    root = "X" if kind == "unknown_ca" else spec["root"]
    sent: list[x509.Certificate] = []
    if kind in ("root", "unknown_ca"):
        issuer_cert, issuer_key = root_cert(root), key_for("ca:" + root)
    elif kind in ("inter", "inter_missing"):
        issuer_cert, issuer_key = _ca_cert("I" + root, root, pathlen=0), key_for("ca:I" + root)
        if kind == "inter":
            sent.append(issuer_cert)
    elif kind == "inter_not_ca":
        issuer_cert, issuer_key = _ca_cert("N" + root, root, is_ca=False), key_for("ca:N" + root)
        sent.append(issuer_cert)
    elif kind == "inter_expired":
        issuer_cert, issuer_key = _ca_cert("E" + root, root, validity="expired", pathlen=0), key_for("ca:E" + root)
        sent.append(issuer_cert)
    elif kind == "self_signed":
        issuer_cert, issuer_key = None, leaf_key
    else:
        raise ValueError(kind)
    attrs = []
    if spec["cn"] is not None:
        attrs.append(x509.NameAttribute(NameOID.COMMON_NAME, spec["cn"]))
    if spec["org"] is not None:
        attrs.append(x509.NameAttribute(NameOID.ORGANIZATION_NAME, spec["org"]))
    subject = x509.Name(attrs)
    nb, na = _window(spec["validity"])
    b = (x509.CertificateBuilder().subject_name(subject)
         .issuer_name(subject if issuer_cert is None else issuer_cert.subject)
         .public_key(leaf_key.public_key()).serial_number(_serial(*ck))
         .not_valid_before(nb).not_valid_after(na)
         .add_extension(x509.BasicConstraints(ca=False, path_length=None), critical=True)
         .add_extension(x509.KeyUsage(digital_signature=True, content_commitment=False, key_encipherment=False,
                                      data_encipherment=False, key_agreement=False, key_cert_sign=False,
                                      crl_sign=False, encipher_only=False, decipher_only=False), critical=True)
         .add_extension(x509.ExtendedKeyUsage([ExtendedKeyUsageOID.SERVER_AUTH]), critical=False)
         .add_extension(x509.SubjectKeyIdentifier.from_public_key(leaf_key.public_key()), critical=False))
    if issuer_cert is not None:
        ski = issuer_cert.extensions.get_extension_for_class(x509.SubjectKeyIdentifier).value
        b = b.add_extension(x509.AuthorityKeyIdentifier.from_issuer_subject_key_identifier(ski), critical=False)
    if spec["sans"]:
        b = b.add_extension(x509.SubjectAlternativeName([_general_name(k, v) for k, v in spec["sans"]]),
                            critical=not attrs)
    if spec["crl"]:
        b = b.add_extension(x509.CRLDistributionPoints([x509.DistributionPoint(
            [x509.UniformResourceIdentifier(spec["crl"])], relative_name=None, crl_issuer=None, reasons=None)]),
            critical=False)
    leaf = b.sign(issuer_key, None)
    keypem = leaf_key.private_bytes(serialization.Encoding.PEM, serialization.PrivateFormat.PKCS8,
                                    serialization.NoEncryption())
    data = keypem + _pem(leaf) + b"".join(_pem(c) for c in sent)
    c = Chain()
    c.spec, c.leaf, c.sent = spec, leaf, sent
    c.leaf_der = leaf.public_bytes(serialization.Encoding.DER)
    c.certfile = _write("chain-" + _h(data).hex()[:24] + ".pem", data)
    _mem[ck] = c
    return c


# ---------------------------------------------------------------------------
# independent verdict (from construction parameters only)
# ---------------------------------------------------------------------------
def _labels(name: str):
    return name.lower().rstrip(".").split(".")


def dns_id_matches(pattern: str, name: str) -> bool:
    """RFC 6125 6.4 as restricted by the statement: exact (case-insensitive) match, or a
    wildcard that is the complete left-most label and stands for exactly one label."""
    p, n = _labels(pattern), _labels(name)
    if "*" not in pattern:
        return p == n
    if p[0] != "*" or any("*" in x for x in p[1:]):
        return False  # partial wildcard or wildcard not in the left-most label
    return len(p) == len(n) and len(p) >= 3 and p[1:] == n[1:]


def identity_of(name: str):
    try:
        return ("ip", ipaddress.ip_address(name).compressed)
    except ValueError:
        return ("dns", name)


def verdict(spec: dict, identity: str, trusted_roots) -> tuple[bool, str]:
    """(acceptable, reason) for presenting the chain built from ``spec`` to a verifier that
    trusts ``trusted_roots`` and expects ``identity`` (a DNS name or an IP literal)."""
    spec = norm_spec(spec)
    kind = spec["chain"]
    if kind == "self_signed":
        return False, "self_signed"
    if kind == "unknown_ca" or spec["root"] not in trusted_roots:
        return False, "unknown_ca"
    if kind == "inter_missing":
        return False, "intermediate_missing"
    if kind == "inter_not_ca":
        return False, "issuer_not_a_ca"
    if kind == "inter_expired":
        return False, "intermediate_expired"
    if spec["validity"] != "ok":
        return False, spec["validity"]
    ik, iv = identity_of(identity)
    for k, v in spec["sans"]:
        if ik == "dns" and k == "dns" and dns_id_matches(v, iv):
            return True, "ok"
        if ik == "ip" and k == "ip" and ipaddress.ip_address(v).compressed == iv:
            return True, "ok"
    return False, "name_mismatch"
