"""Layer harness for C06: the REAL `HttpLayer` (with its real HttpStream, Http1/2/3 Server and Client
connection layers, hyper-h2 / h11 / aioquic-H3 codecs) driven synchronously, no asyncio, no TLS/QUIC.

Seam: exactly where the repo's own tests (test/mitmproxy/proxy/layers/http/test_http3.py,
test_http_version_interop.py) cut - the harness plays the proxy server:
  * TCP connections: `DataReceived` / `ConnectionClosed` events in, `SendData` / `CloseConnection` out;
  * QUIC connections (HTTP/3): the QUIC transport (aioquic QuicConnection, UDP, TLS) is a STUB - events
    `QuicStreamDataReceived` / `QuicStreamReset` in, `SendQuicStreamData` / `ResetQuicStream` /
    `StopSendingQuicStream` / `CloseQuicConnection` out;
  * hooks are completed immediately, `OpenConnection` is answered with the scripted ALPN.
Connection-state bookkeeping outside the layer is what test/mitmproxy/proxy/tutils.Playbook does.

Peers (independent of mitmproxy's own wrappers):
  * HTTP/1: raw bytes, read by `peers.h1.P`;
  * HTTP/2: hyper-h2 `H2Connection` without header validation/normalisation (`peers.h2_peer.make_conn`);
  * HTTP/3: aioquic `H3Connection` over an own mock QUIC object (`StubQuic`) that records
    send_stream_data/close calls.
"""
from __future__ import annotations

import h2.events
import h2.exceptions
from aioquic.h3.connection import H3Connection
from aioquic.h3.events import DataReceived as H3Data
from aioquic.h3.events import HeadersReceived as H3Headers
from aioquic.quic.configuration import QuicConfiguration
from aioquic.quic.events import StreamDataReceived

from peers import h1 as P
from peers.h2_peer import B, hdrs, make_conn


class StubHarnessError(RuntimeError):
    pass


# ------------------------------------------------------------------------------------------------------
# HTTP/3 peer over a mock QUIC object
# ------------------------------------------------------------------------------------------------------
class StubQuic:
    """What aioquic's H3Connection needs from a QuicConnection, and nothing else."""

    def __init__(self, is_client: bool):
        self.configuration = QuicConfiguration(is_client=is_client)
        self._quic_logger = None
        self._remote_max_datagram_frame_size = 0
        self._next = {False: 0 if is_client else 1, True: 2 if is_client else 3}
        self.out: list = []          # ("data", stream_id, bytes, fin) | ("close", code, reason)
        self.closed = None

    def get_next_available_stream_id(self, is_unidirectional: bool = False) -> int:
        sid = self._next[bool(is_unidirectional)]
        self._next[bool(is_unidirectional)] = sid + 4
        return sid

    def send_stream_data(self, stream_id: int, data: bytes, end_stream: bool = False) -> None:
        self.out.append(("data", stream_id, bytes(data), bool(end_stream)))

    def close(self, error_code: int = 0, frame_type=None, reason_phrase: str = "") -> None:
        if self.closed is None:
            self.closed = (int(error_code), reason_phrase)
        self.out.append(("close", int(error_code), reason_phrase))

    def send_datagram_frame(self, data: bytes) -> None:  # pragma: no cover
        raise StubHarnessError("datagrams are not part of the stub")


class H3Peer:
    def __init__(self, is_client: bool):
        self.is_client = is_client
        self.quic = StubQuic(is_client)
        self.h3 = H3Connection(self.quic)
        self.streams: dict = {}      # stream id -> {"headers": [[(n, v)]...], "data": bytearray, "ended": bool, "reset": code}
        self.closed_by_proxy = None  # (code, reason) of CloseQuicConnection
        self.self_closed = None      # our own H3 stack refused what the proxy sent

    def st(self, sid):
        return self.streams.setdefault(sid, {"headers": [], "data": bytearray(), "ended": False, "reset": None,
                                             "stop": None})

    def take(self) -> list:
        out, self.quic.out = self.quic.out, []
        return out

    def receive(self, sid: int, data: bytes, fin: bool):
        if self.self_closed is not None:
            return
        try:
            evs = self.h3.handle_event(StreamDataReceived(data=data, end_stream=fin, stream_id=sid))
        except Exception as e:  # aioquic turns protocol errors into quic.close(); anything else is a peer artefact
            raise StubHarnessError(f"H3 peer crashed on proxy output: {type(e).__name__}: {e}")
        for ev in evs:
            if isinstance(ev, H3Headers):
                s = self.st(ev.stream_id)
                s["headers"].append([(bytes(n), bytes(v)) for n, v in ev.headers])
                if ev.stream_ended:
                    s["ended"] = True
            elif isinstance(ev, H3Data):
                s = self.st(ev.stream_id)
                s["data"] += ev.data
                if ev.stream_ended:
                    s["ended"] = True
        if self.quic.closed is not None and self.self_closed is None:
            self.self_closed = self.quic.closed


# ------------------------------------------------------------------------------------------------------
# HTTP/2 peer (synchronous)
# ------------------------------------------------------------------------------------------------------
class H2Peer:
    def __init__(self, is_client: bool):
        self.is_client = is_client
        self.conn = make_conn(is_client)
        self.conn.initiate_connection()
        self.streams: dict = {}
        self.proto_error = None
        self.goaway = None

    def st(self, sid):
        return self.streams.setdefault(sid, {"headers": [], "data": bytearray(), "ended": False, "reset": None,
                                             "info": []})

    def take(self) -> bytes:
        return self.conn.data_to_send()

    def receive(self, data: bytes):
        if self.proto_error is not None:
            return
        try:
            evs = self.conn.receive_data(data)
        except h2.exceptions.ProtocolError as e:
            self.proto_error = f"{type(e).__name__}: {e}"
            return
        for ev in evs:
            sid = getattr(ev, "stream_id", None)
            if isinstance(ev, (h2.events.RequestReceived, h2.events.ResponseReceived, h2.events.TrailersReceived)):
                self.st(sid)["headers"].append([(bytes(n), bytes(v)) for n, v in ev.headers])
            elif isinstance(ev, h2.events.InformationalResponseReceived):
                self.st(sid)["info"].append([(bytes(n), bytes(v)) for n, v in ev.headers])
            elif isinstance(ev, h2.events.DataReceived):
                self.st(sid)["data"] += ev.data
                try:
                    self.conn.acknowledge_received_data(ev.flow_controlled_length, sid)
                except h2.exceptions.ProtocolError:
                    pass
            elif isinstance(ev, h2.events.StreamEnded):
                self.st(sid)["ended"] = True
            elif isinstance(ev, h2.events.StreamReset):
                self.st(sid)["reset"] = int(ev.error_code)
            elif isinstance(ev, h2.events.ConnectionTerminated):
                self.goaway = (int(ev.error_code), ev.last_stream_id)

    def send_message(self, sid, block, chunks, trailers, rst=None, pads=None):
        """Returns False if h2 refused to send (stream gone).
        pads: optional per-chunk pad lengths (None = DATA frame without the PADDED flag, 0..255 = PADDED)."""
        try:
            end = not chunks and not trailers
            self.conn.send_headers(sid, hdrs(block), end_stream=end)
            for i, c in enumerate(chunks):
                last = i == len(chunks) - 1 and not trailers
                pad = pads[i] if pads and i < len(pads) else None
                if pad is None:
                    self.conn.send_data(sid, B(c), end_stream=last)
                else:
                    self.conn.send_data(sid, B(c), end_stream=last, pad_length=int(pad))
            if trailers:
                self.conn.send_headers(sid, hdrs(trailers), end_stream=True)
            return True
        except h2.exceptions.ProtocolError:
            return False


# ------------------------------------------------------------------------------------------------------
# the harness
# ------------------------------------------------------------------------------------------------------
class LayerHarness:
    def __init__(self, cver: str, sver: str, option_overrides: dict | None = None):
        from mitmproxy import connection, options as moptions
        from mitmproxy.addons.proxyserver import Proxyserver
        from mitmproxy.proxy import context
        from mitmproxy.proxy.layers import http as lhttp

        self.cver, self.sver = cver, sver
        opts = moptions.Options()
        Proxyserver().load(opts)
        opts.update(http2_ping_keepalive=0)
        if option_overrides:
            opts.update(**option_overrides)
        client = connection.Client(peername=("192.168.1.7", 50123), sockname=("10.0.0.1", 8080),
                                   timestamp_start=1605699329, state=connection.ConnectionState.OPEN)
        if cver == "h3":
            client.alpn = b"h3"
            client.transport_protocol = "udp"
        elif cver == "h2":
            client.alpn = b"h2"
        self.ctx = context.Context(client, opts)
        if sver == "h3":
            self.ctx.server.transport_protocol = "udp"
        self.layer = lhttp.HttpLayer(self.ctx, lhttp.HTTPMode.regular)
        self.client = client
        self.servers: list = []           # connection.Server objects in OpenConnection order
        self.log: list = []               # abstract log
        self.hooks: list = []             # (name, flow)
        self.crash = None
        self.client_out = bytearray()     # TCP bytes to the client
        self.client_q: list = []          # QUIC commands to the client
        self.client_closed = False
        self.server_out: dict = {}        # server index -> bytearray
        self.server_q: dict = {}          # server index -> list of QUIC commands
        self.server_closed: dict = {}
        self.open_error = None
        self.flows: list = []
        self._queue: list = []
        self._busy = False

    # -- events in ------------------------------------------------------------------------------------
    def feed(self, event, desc=("ev",)):
        """Events are delivered strictly one after the other (like ConnectionHandler.server_event under its lock):
        completions produced while an event is being handled are queued and delivered afterwards, never nested."""
        self._queue.append((event, desc))
        if self._busy:
            return
        self._busy = True
        try:
            while self._queue and self.crash is None:
                e, d = self._queue.pop(0)
                self._feed_one(e, d)
        finally:
            self._busy = False
            if self.crash is not None:
                del self._queue[:]

    def _feed_one(self, event, desc):
        from mitmproxy.proxy import events as ev
        if self.crash is not None:
            return
        if isinstance(event, ev.ConnectionClosed):
            from mitmproxy.connection import ConnectionState
            event.connection.state &= ~ConnectionState.CAN_READ
            event.connection.timestamp_end = 1624544787
        self.log.append(("in",) + tuple(desc))
        try:
            for cmd in self.layer.handle_event(event):
                self.on_command(cmd)
        except Exception as e:
            import traceback
            tb = traceback.extract_tb(e.__traceback__)
            if not any("/mitmproxy/" in f.filename for f in tb[1:]):
                raise
            where = next((f"{f.filename.rsplit('/', 1)[-1]}:{f.name}" for f in reversed(tb) if "/mitmproxy/" in f.filename), "?")
            self.crash = {"exc": type(e).__name__, "where": where, "msg": str(e)[:200]}

    def start(self):
        from mitmproxy.proxy import events as ev
        self.feed(ev.Start(), ("start",))

    def client_bytes(self, data: bytes):
        from mitmproxy.proxy import events as ev
        if data and not self.client_closed:
            self.feed(ev.DataReceived(self.client, data), ("c_data", len(data)))

    def client_quic(self, sid: int, data: bytes, fin: bool):
        from mitmproxy.proxy.layers.quic import QuicStreamDataReceived
        if not self.client_closed:
            self.feed(QuicStreamDataReceived(self.client, sid, data, fin), ("c_quic", sid, len(data), fin))

    def client_close(self):
        from mitmproxy.proxy import events as ev
        from mitmproxy.proxy.layers.quic import QuicConnectionClosed
        if self.client_closed:
            return
        if self.cver == "h3":
            # a QUIC connection ends with QuicConnectionClosed only (the QUIC layer swallows the datagram-level close)
            self.feed(QuicConnectionClosed(self.client, 0, None, "bye"), ("c_quic_close",))
        else:
            self.feed(ev.ConnectionClosed(self.client), ("c_close",))

    def server_bytes(self, i: int, data: bytes):
        from mitmproxy.proxy import events as ev
        if data and not self.server_closed.get(i):
            self.feed(ev.DataReceived(self.servers[i], data), ("s_data", i, len(data)))

    def server_quic(self, i: int, sid: int, data: bytes, fin: bool):
        from mitmproxy.proxy.layers.quic import QuicStreamDataReceived
        if not self.server_closed.get(i):
            self.feed(QuicStreamDataReceived(self.servers[i], sid, data, fin), ("s_quic", i, sid, len(data), fin))

    def server_close(self, i: int):
        from mitmproxy.proxy import events as ev
        if not self.server_closed.get(i):
            self.feed(ev.ConnectionClosed(self.servers[i]), ("s_close", i))

    # -- commands out ------------------------------------------------------------------------------------
    def _idx(self, conn):
        for i, s in enumerate(self.servers):
            if s is conn:
                return i
        return None

    def on_command(self, cmd):
        from mitmproxy.connection import ConnectionState
        from mitmproxy.proxy import commands as c
        from mitmproxy.proxy import events as ev
        from mitmproxy.proxy.layers import quic as q
        name = type(cmd).__name__
        if isinstance(cmd, c.StartHook):
            self.log.append(("hook", cmd.name))
            data = cmd.args()[0] if cmd.args() else None
            self.hooks.append((cmd.name, data))
            if cmd.name in ("requestheaders", "request", "responseheaders", "response", "error") and data not in self.flows:
                self.flows.append(data)
            if cmd.blocking:
                self.feed(ev.HookCompleted(cmd), ("hook_done", cmd.name))
        elif isinstance(cmd, c.OpenConnection):
            i = len(self.servers)
            self.servers.append(cmd.connection)
            self.server_out[i] = bytearray()
            self.server_q[i] = []
            self.log.append(("open", i, cmd.connection.transport_protocol))
            if self.open_error:
                self.feed(ev.OpenConnectionCompleted(cmd, self.open_error), ("open_fail", i))
                return
            cmd.connection.state = ConnectionState.OPEN
            cmd.connection.timestamp_start = 1624544785
            if self.sver == "h3":
                cmd.connection.alpn = b"h3"
            elif self.sver == "h2":
                cmd.connection.alpn = b"h2"
            self.feed(ev.OpenConnectionCompleted(cmd, None), ("open_ok", i))
        elif isinstance(cmd, q.SendQuicStreamData):
            self._quic_out(cmd.connection, ("data", cmd.stream_id, bytes(cmd.data), bool(cmd.end_stream)))
        elif isinstance(cmd, q.ResetQuicStream):
            self._quic_out(cmd.connection, ("reset", cmd.stream_id, int(cmd.error_code)))
        elif isinstance(cmd, q.StopSendingQuicStream):
            self._quic_out(cmd.connection, ("stop", cmd.stream_id, int(cmd.error_code)))
        elif isinstance(cmd, q.CloseQuicConnection):
            self._quic_out(cmd.connection, ("close", int(cmd.error_code), cmd.reason_phrase))
            already = self.client_closed if cmd.connection is self.client else self.server_closed.get(self._idx(cmd.connection))
            self._closed(cmd.connection)
            cmd.connection.state = ConnectionState.CLOSED
            if not already:
                # the QUIC layer answers a local close with the connection's termination event (cf. test_http3.py)
                self.feed(q.QuicConnectionClosed(cmd.connection, int(cmd.error_code), cmd.frame_type, cmd.reason_phrase),
                          ("quic_closed", "c" if cmd.connection is self.client else self._idx(cmd.connection)))
        elif isinstance(cmd, c.SendData):
            if cmd.connection is self.client:
                self.client_out += cmd.data
                self.log.append(("c_tx", len(cmd.data)))
            else:
                i = self._idx(cmd.connection)
                if i is None:
                    raise StubHarnessError("SendData to an unknown connection")
                self.server_out[i] += cmd.data
                self.log.append(("s_tx", i, len(cmd.data)))
        elif isinstance(cmd, c.CloseTcpConnection) and cmd.half_close:
            cmd.connection.state &= ~ConnectionState.CAN_WRITE
            self.log.append(("half_close", "c" if cmd.connection is self.client else self._idx(cmd.connection)))
            self._half(cmd.connection)
        elif isinstance(cmd, c.CloseConnection):
            cmd.connection.state = ConnectionState.CLOSED
            self.log.append(("close", "c" if cmd.connection is self.client else self._idx(cmd.connection)))
            self._closed(cmd.connection)
        elif isinstance(cmd, (c.Log, c.RequestWakeup)):
            pass
        else:
            raise StubHarnessError(f"unexpected command {name}")

    def _quic_out(self, conn, item):
        if conn is self.client:
            self.client_q.append(item)
            self.log.append(("cq_tx", item[0], item[1], len(item[2]) if item[0] == "data" else item[2]))
        else:
            i = self._idx(conn)
            if i is None:
                raise StubHarnessError("QUIC command for an unknown connection")
            self.server_q[i].append(item)
            self.log.append(("sq_tx", i, item[0], item[1], len(item[2]) if item[0] == "data" else item[2]))

    def _closed(self, conn):
        if conn is self.client:
            self.client_closed = True
        else:
            i = self._idx(conn)
            if i is not None:
                self.server_closed[i] = True

    def _half(self, conn):
        i = self._idx(conn)
        if i is not None:
            self.server_closed.setdefault(f"half{i}", True)


def parse_h1_requests(raw: bytes) -> P.Parsed:
    return P.parse_requests(raw, stop_after_connect=False)
