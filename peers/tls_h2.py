"""TLS for simulated peers: Python ``ssl`` over ``ssl.MemoryBIO`` (system OpenSSL, a TLS stack
independent of mitmproxy's pyOpenSSL build) pumped over a SimConn, with ALPN.

* ``sim_pki()``  - a small *deterministic* PKI for origin peers (Ed25519 keys derived from fixed
  seeds, fixed serials and validity dates, deterministic Ed25519 signatures => byte-identical files in
  every process).  The files live in ``/verif/data/simpki_h2`` (created on first use) because both
  ``ssl.SSLContext.load_cert_chain`` and mitmproxy's ``ssl_verify_upstream_trusted_ca`` want paths.
* ``TlsStream``  - one TLS endpoint (client towards mitmproxy, or origin accepting mitmproxy).
  Every ``write()`` becomes its own TLS record(s) and one SimConn.feed(): the plaintext segmentation
  chosen by the scenario is what mitmproxy's HTTP layer sees.

Only plaintext-level facts leave this module (ALPN, plaintext lengths); ciphertext never reaches a digest.
"""
from __future__ import annotations

import asyncio
import datetime
import os
import ssl

HERE = os.path.dirname(os.path.dirname(os.path.abspath(__file__)))
PKI_DIR = os.path.join(HERE, "data", "simpki_h2")
CONFDIR = os.path.join(HERE, "data", "confdir")
MITM_CA = os.path.join(CONFDIR, "mitmproxy-ca-cert.pem")

_PKI = None
_CTX_CACHE: dict = {}


class TlsHarnessError(RuntimeError):
    pass


def _atomic_write(path: str, data: bytes):
    tmp = f"{path}.{os.getpid()}.tmp"
    with open(tmp, "wb") as f:
        f.write(data)
    os.replace(tmp, path)


def sim_pki(hosts=("o.test", "*.o.test", "a.test", "b.test")) -> dict:
    """Returns {"ca": path of CA cert (PEM), "chain": path of leaf cert + key (PEM)}; cached per worker."""
    global _PKI
    if _PKI is not None:
        return _PKI
    ca_path = os.path.join(PKI_DIR, "ca.pem")
    leaf_path = os.path.join(PKI_DIR, "leaf.pem")
    if not (os.path.exists(ca_path) and os.path.exists(leaf_path)):
        from cryptography import x509
        from cryptography.hazmat.primitives import serialization
        from cryptography.hazmat.primitives.asymmetric.ed25519 import Ed25519PrivateKey
        from cryptography.x509.oid import ExtendedKeyUsageOID, NameOID

        os.makedirs(PKI_DIR, exist_ok=True)
        ca_key = Ed25519PrivateKey.from_private_bytes(bytes(range(1, 33)))
        leaf_key = Ed25519PrivateKey.from_private_bytes(bytes(range(33, 65)))
        nb = datetime.datetime(2020, 1, 1, tzinfo=datetime.timezone.utc)
        na = datetime.datetime(2090, 1, 1, tzinfo=datetime.timezone.utc)
        ca_name = x509.Name([x509.NameAttribute(NameOID.COMMON_NAME, "verif sim origin CA"),
                             x509.NameAttribute(NameOID.ORGANIZATION_NAME, "verif")])
        ca_cert = (x509.CertificateBuilder().subject_name(ca_name).issuer_name(ca_name)
                   .public_key(ca_key.public_key()).serial_number(0x5151C0DE01)
                   .not_valid_before(nb).not_valid_after(na)
                   .add_extension(x509.BasicConstraints(ca=True, path_length=None), critical=True)
                   .add_extension(x509.KeyUsage(digital_signature=True, key_cert_sign=True, crl_sign=True,
                                                content_commitment=False, key_encipherment=False,
                                                data_encipherment=False, key_agreement=False,
                                                encipher_only=False, decipher_only=False), critical=True)
                   .add_extension(x509.SubjectKeyIdentifier.from_public_key(ca_key.public_key()), critical=False)
                   .sign(ca_key, None))
        leaf_cert = (x509.CertificateBuilder()
                     .subject_name(x509.Name([x509.NameAttribute(NameOID.COMMON_NAME, hosts[0])]))
                     .issuer_name(ca_name).public_key(leaf_key.public_key()).serial_number(0x5151C0DE02)
                     .not_valid_before(nb).not_valid_after(na)
                     .add_extension(x509.BasicConstraints(ca=False, path_length=None), critical=True)
                     .add_extension(x509.SubjectAlternativeName([x509.DNSName(h) for h in hosts]), critical=False)
                     .add_extension(x509.ExtendedKeyUsage([ExtendedKeyUsageOID.SERVER_AUTH]), critical=False)
                     .add_extension(x509.KeyUsage(digital_signature=True, key_cert_sign=False, crl_sign=False,
                                                  content_commitment=False, key_encipherment=False,
                                                  data_encipherment=False, key_agreement=False,
                                                  encipher_only=False, decipher_only=False), critical=True)
                     .add_extension(x509.AuthorityKeyIdentifier.from_issuer_public_key(ca_key.public_key()),
                                    critical=False)
                     .add_extension(x509.SubjectKeyIdentifier.from_public_key(leaf_key.public_key()), critical=False)
                     .sign(ca_key, None))
        pem = serialization.Encoding.PEM
        _atomic_write(ca_path, ca_cert.public_bytes(pem))
        _atomic_write(leaf_path, leaf_cert.public_bytes(pem) + leaf_key.private_bytes(
            pem, serialization.PrivateFormat.PKCS8, serialization.NoEncryption()))
    _PKI = {"ca": ca_path, "chain": leaf_path}
    return _PKI


def origin_context(alpn) -> ssl.SSLContext:
    """Server-side context of an origin peer.  alpn: list of protocol names, or None (no ALPN extension)."""
    key = ("origin", tuple(alpn) if alpn else None)
    ctx = _CTX_CACHE.get(key)
    if ctx is None:
        pki = sim_pki()
        ctx = ssl.SSLContext(ssl.PROTOCOL_TLS_SERVER)
        ctx.load_cert_chain(pki["chain"])
        ctx.options |= ssl.OP_NO_TICKET
        try:
            ctx.num_tickets = 0
        except (AttributeError, ValueError):  # pragma: no cover
            pass
        if alpn:
            ctx.set_alpn_protocols(list(alpn))
        _CTX_CACHE[key] = ctx
    return ctx


def client_context(alpn) -> ssl.SSLContext:
    """Client-side context that trusts the mitmproxy CA of the fixed confdir."""
    key = ("client", tuple(alpn) if alpn else None)
    ctx = _CTX_CACHE.get(key)
    if ctx is None:
        ctx = ssl.create_default_context(cafile=MITM_CA)
        if alpn:
            ctx.set_alpn_protocols(list(alpn))
        _CTX_CACHE[key] = ctx
    return ctx


class TlsStream:
    """One TLS endpoint on top of a SimConn (peer side)."""

    def __init__(self, conn, ctx: ssl.SSLContext, *, server_side: bool, server_hostname: str | None = None):
        self.conn = conn
        self.inc = ssl.MemoryBIO()
        self.out = ssl.MemoryBIO()
        if server_side:
            self.obj = ctx.wrap_bio(self.inc, self.out, server_side=True)
        else:
            self.obj = ctx.wrap_bio(self.inc, self.out, server_side=False, server_hostname=server_hostname)
        self.established = False
        self.alpn = None
        self.sni_seen = None
        self.eof = False            # the peer's plaintext stream has ended (close_notify or TCP EOF)
        self.tls_error: str | None = None
        self.plain_in = 0
        self.plain_out = 0
        self.closed_by_us = False

    # -- plumbing ----------------------------------------------------------------
    def _flush(self):
        data = self.out.read()
        if data:
            self.conn.feed(data)

    def _absorb(self):
        if self.conn.rx:
            self.inc.write(self.conn.take())

    async def handshake(self, timeout: float = 30.0) -> bool:
        deadline = self.conn.net.now() + timeout
        while True:
            self._absorb()
            try:
                self.obj.do_handshake()
            except ssl.SSLWantReadError:
                self._flush()
                if self.conn.rx:
                    continue
                if self.conn.rx_eof:
                    self.tls_error = "eof during handshake"
                    self.eof = True
                    return False
                left = deadline - self.conn.net.now()
                if left <= 0 or not await self.conn.wait_change(left):
                    self.tls_error = "handshake timeout"
                    return False
                continue
            except ssl.SSLError as e:
                self._flush()
                self.tls_error = f"{type(e).__name__}: {getattr(e, 'reason', e)}"
                return False
            self._flush()
            self.established = True
            self.alpn = self.obj.selected_alpn_protocol()
            return True

    def write(self, plain: bytes):
        """Encrypt and deliver at once (one feed)."""
        if not plain or self.closed_by_us:
            return
        if self.conn.peer_eof or self.conn.peer_reset:
            return
        try:
            self.obj.write(plain)
        except ssl.SSLError as e:  # pragma: no cover
            raise TlsHarnessError(f"cannot write plaintext: {e}")
        self.plain_out += len(plain)
        self._flush()

    def pull(self) -> bytes:
        """Decrypt whatever the proxy has written so far."""
        self._absorb()
        out = bytearray()
        while not self.eof:
            try:
                d = self.obj.read(65536)
            except ssl.SSLWantReadError:
                break
            except ssl.SSLZeroReturnError:
                self.eof = True
                break
            except ssl.SSLError as e:
                self.tls_error = f"{type(e).__name__}: {getattr(e, 'reason', e)}"
                self.eof = True
                break
            if not d:
                self.eof = True
                break
            out += d
        self._flush()  # e.g. key updates
        if self.conn.rx_eof and not self.conn.rx:
            # TCP EOF (with or without close_notify): nothing more will ever arrive
            try:
                if not self.inc.pending:
                    self.eof = True
            except Exception:  # pragma: no cover
                self.eof = True
        self.plain_in += len(out)
        return bytes(out)

    async def wait(self, timeout: float | None) -> bool:
        if self.conn.rx:
            return True
        if self.conn.rx_eof:
            return False
        return await self.conn.wait_change(timeout)

    def close(self, notify: bool = True):
        if self.closed_by_us:
            return
        self.closed_by_us = True
        if notify and self.established and not (self.conn.peer_eof or self.conn.peer_reset):
            try:
                self.obj.unwrap()
            except (ssl.SSLWantReadError, ssl.SSLError, OSError):
                pass
            self._flush()
        self.conn.send_eof()


async def write_pieces(tls: TlsStream, data: bytes, cuts=(), gaps=()):
    """Deliver `data` as plaintext pieces cut at the absolute offsets `cuts`; sleep gaps[i] (virtual
    seconds, 0 = just yield to the loop) before piece i > 0."""
    pos = 0
    pts = sorted({c for c in cuts if 0 < c < len(data)}) + [len(data)]
    for i, end in enumerate(pts):
        if i > 0:
            g = gaps[i - 1] if i - 1 < len(gaps) else 0.0
            await asyncio.sleep(max(g, 0.0))
        tls.write(data[pos:end])
        pos = end


async def connect_via_proxy(conn, authority: bytes, timeout: float = 30.0):
    """Regular-mode CONNECT exchange in the clear; returns the status line (bytes) or None."""
    conn.feed(b"CONNECT " + authority + b" HTTP/1.1\r\nHost: " + authority + b"\r\n\r\n")
    deadline = conn.net.now() + timeout
    while b"\r\n\r\n" not in conn.rx:
        if conn.rx_eof:
            return None
        left = deadline - conn.net.now()
        if left <= 0 or not await conn.wait_change(left):
            return None
    head, _, rest = bytes(conn.rx).partition(b"\r\n\r\n")
    del conn.rx[:len(head) + 4]
    return head.split(b"\r\n")[0]
