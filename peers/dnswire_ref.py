"""Independent DNS wire codec (RFC 1035 section 4, RFC 2782, RFC 6891) for the C26/C27 checks.

Shares no code with mitmproxy.  Names are tuples of label byte strings.  The encoder
can emit name compression the way real servers do (owner names and the domain names
inside NS/CNAME/PTR/MX/SOA/SRV rdata pointing at earlier occurrences of a suffix); the
decoder is strict (no forward/self pointers, no trailing bytes, exact rdlength).

Message spec (JSON friendly; byte strings are latin-1 ``str``)::

    {"id": 4660, "qr": 1, "opcode": 0, "aa": 0, "tc": 0, "rd": 1, "ra": 1, "z": 0, "rcode": 0,
     "questions": [[["www", "example", "com"], 1, 1]],
     "records": [{"sec": "an", "name": [...labels...], "type": 5, "class": 1, "ttl": 300,
                  "rdata": [["b", "\\x00\\x0a"], ["n", ["mail", "example", "com"], 1]]}],
     "compress": 1}

``rdata`` is a list of parts: ``["b", bytes]`` literal bytes, ``["n", labels, compress]`` a domain
name (compress=1: the encoder may use a pointer for the longest known suffix).
"""
from __future__ import annotations

import struct

A, NS, CNAME, SOA, PTR, HINFO, MX, TXT, AAAA, SRV, OPT = 1, 2, 5, 6, 12, 13, 15, 16, 28, 33, 41

TYPE_NAMES = {1: "A", 2: "NS", 5: "CNAME", 6: "SOA", 12: "PTR", 13: "HINFO", 15: "MX", 16: "TXT", 28: "AAAA",
              33: "SRV", 41: "OPT", 43: "DS", 46: "RRSIG", 48: "DNSKEY", 65: "HTTPS", 99: "SPF", 257: "CAA"}

# record types whose RDATA is *defined* to contain domain names and which this codec understands
NAME_TYPES = {NS: "n", CNAME: "n", PTR: "n", MX: "Hn", SOA: "nnIIIII", SRV: "HHHn"}

SECTIONS = ("an", "ns", "ar")


class DecodeError(Exception):
    pass


def type_name(t: int) -> str:
    return TYPE_NAMES.get(t, f"TYPE{t}")


def L(labels) -> tuple:
    """labels given as latin-1 str / bytes -> tuple of bytes"""
    return tuple(x.encode("latin1") if isinstance(x, str) else bytes(x) for x in labels)


def lower(labels: tuple) -> tuple:
    return tuple(bytes(c + 32 if 65 <= c <= 90 else c for c in lab) for lab in labels)


# ---------------------------------------------------------------------------
# encoder
# ---------------------------------------------------------------------------
class _Enc:
    def __init__(self):
        self.buf = bytearray()
        self.table: dict[tuple, int] = {}

    def name(self, labels: tuple, compress: bool, register: bool = True):
        labels = tuple(labels)
        for lab in labels:
            if not 0 < len(lab) < 64:
                raise ValueError("label length")
        i = 0
        while i < len(labels):
            suffix = labels[i:]
            off = self.table.get(suffix) if compress else None
            if off is not None:
                self.buf += struct.pack("!H", 0xC000 | off)
                return
            if register and len(self.buf) < 0x3FFF and suffix not in self.table:
                self.table[suffix] = len(self.buf)
            self.buf.append(len(labels[i]))
            self.buf += labels[i]
            i += 1
        self.buf.append(0)


def flags_word(m: dict) -> int:
    return ((m.get("qr", 0) & 1) << 15 | (m.get("opcode", 0) & 15) << 11 | (m.get("aa", 0) & 1) << 10
            | (m.get("tc", 0) & 1) << 9 | (m.get("rd", 0) & 1) << 8 | (m.get("ra", 0) & 1) << 7
            | (m.get("z", 0) & 7) << 4 | (m.get("rcode", 0) & 15))


def encode(m: dict) -> bytes:
    e = _Enc()
    comp = bool(m.get("compress", 1))
    recs = m.get("records", [])
    by_sec = {s: [r for r in recs if r.get("sec", "an") == s] for s in SECTIONS}
    qs = m.get("questions", [])
    e.buf += struct.pack("!HHHHHH", m["id"] & 0xFFFF, flags_word(m), len(qs),
                         len(by_sec["an"]), len(by_sec["ns"]), len(by_sec["ar"]))
    for q in qs:
        e.name(L(q[0]), comp)
        e.buf += struct.pack("!HH", q[1], q[2])
    for s in SECTIONS:
        for r in by_sec[s]:
            e.name(L(r["name"]), comp and bool(r.get("cname", 1)))
            e.buf += struct.pack("!HHI", r["type"], r["class"], r["ttl"])
            lenpos = len(e.buf)
            e.buf += b"\x00\x00"
            for part in r["rdata"]:
                if part[0] == "b":
                    e.buf += part[1].encode("latin1") if isinstance(part[1], str) else bytes(part[1])
                else:
                    e.name(L(part[1]), comp and bool(part[2]))
            rdlen = len(e.buf) - lenpos - 2
            if rdlen > 0xFFFF:
                raise ValueError("rdata too long")
            struct.pack_into("!H", e.buf, lenpos, rdlen)
    return bytes(e.buf)


def frame_tcp(msg: bytes) -> bytes:
    return struct.pack("!H", len(msg)) + msg


# ---------------------------------------------------------------------------
# decoder
# ---------------------------------------------------------------------------
def read_name(buf: bytes, pos: int, limit: int | None = None):
    """-> (labels, position after the name in the original stream).  Pointers must go strictly
    backwards (RFC 1035 4.1.4: 'a prior occurance')."""
    labels = []
    end = None
    lowest = pos
    hops = 0
    n = len(buf)
    total = 0
    while True:
        if pos >= n:
            raise DecodeError("name runs past the message")
        c = buf[pos]
        if c & 0xC0 == 0xC0:
            if pos + 1 >= n:
                raise DecodeError("truncated pointer")
            target = ((c & 0x3F) << 8) | buf[pos + 1]
            if end is None:
                end = pos + 2
            if target >= lowest:
                raise DecodeError("pointer does not point backwards")
            lowest = target
            pos = target
            hops += 1
            if hops > 128:
                raise DecodeError("pointer chain too long")
            continue
        if c & 0xC0:
            raise DecodeError(f"reserved label type 0x{c:02x}")
        if c == 0:
            if end is None:
                end = pos + 1
            break
        if pos + 1 + c > n:
            raise DecodeError("label runs past the message")
        labels.append(bytes(buf[pos + 1:pos + 1 + c]))
        total += c + 1
        if total > 254:
            raise DecodeError("name longer than 255 octets")
        pos += 1 + c
    if limit is not None and end > limit:
        raise DecodeError("name runs past its RDATA")
    return tuple(labels), end


def parse_rdata(buf: bytes, start: int, end: int, rtype: int):
    """Canonical RDATA: ("names", fields...) with expanded names for NAME_TYPES, else ("raw", bytes)."""
    fmt = NAME_TYPES.get(rtype)
    if fmt is None:
        return ("raw", bytes(buf[start:end]))
    pos = start
    out = []
    for f in fmt:
        if f == "n":
            name, pos = read_name(buf, pos, end)
            out.append(name)
        elif f == "H":
            if pos + 2 > end:
                raise DecodeError("RDATA too short")
            out.append(struct.unpack_from("!H", buf, pos)[0])
            pos += 2
        elif f == "I":
            if pos + 4 > end:
                raise DecodeError("RDATA too short")
            out.append(struct.unpack_from("!I", buf, pos)[0])
            pos += 4
    if pos != end:
        raise DecodeError(f"{type_name(rtype)} RDATA has {end - pos} stray octets")
    return ("names",) + tuple(out)


def decode(buf: bytes, lenient_rdata: bool = False) -> dict:
    """lenient_rdata: a record whose RDATA does not parse as its type is returned as
    ("bad", raw octets, reason) instead of failing the whole message (framing must still be exact)."""
    buf = bytes(buf)
    if len(buf) < 12:
        raise DecodeError("shorter than a header")
    ident, fl, qd, an, ns, ar = struct.unpack_from("!HHHHHH", buf, 0)
    m = {"id": ident, "qr": fl >> 15 & 1, "opcode": fl >> 11 & 15, "aa": fl >> 10 & 1, "tc": fl >> 9 & 1,
         "rd": fl >> 8 & 1, "ra": fl >> 7 & 1, "z": fl >> 4 & 7, "rcode": fl & 15,
         "questions": [], "an": [], "ns": [], "ar": []}
    pos = 12
    for _ in range(qd):
        name, pos = read_name(buf, pos)
        if pos + 4 > len(buf):
            raise DecodeError("truncated question")
        t, c = struct.unpack_from("!HH", buf, pos)
        pos += 4
        m["questions"].append((name, t, c))
    for sec, cnt in (("an", an), ("ns", ns), ("ar", ar)):
        for _ in range(cnt):
            name, pos = read_name(buf, pos)
            if pos + 10 > len(buf):
                raise DecodeError("truncated record header")
            t, c, ttl, rdlen = struct.unpack_from("!HHIH", buf, pos)
            pos += 10
            if pos + rdlen > len(buf):
                raise DecodeError("RDATA runs past the message")
            try:
                rd = parse_rdata(buf, pos, pos + rdlen, t)
            except DecodeError as e:
                if not lenient_rdata:
                    raise
                rd = ("bad", bytes(buf[pos:pos + rdlen]), str(e))
            pos += rdlen
            m[sec].append((name, t, c, ttl, rd))
    if pos != len(buf):
        raise DecodeError(f"{len(buf) - pos} trailing octets")
    return m


def question_key(m: dict):
    """(id, questions) with names folded to lower case: what ties a reply to a query."""
    return (m["id"], tuple((lower(n), t, c) for n, t, c in m["questions"]))


def fold(m: dict) -> dict:
    """Case-fold every domain name (owner names, question names, names inside NAME_TYPES rdata)."""
    out = dict(m)
    out["questions"] = [(lower(n), t, c) for n, t, c in m["questions"]]
    for sec in SECTIONS:
        rs = []
        for name, t, c, ttl, rd in m[sec]:
            if rd[0] == "names":
                rd = ("names",) + tuple(lower(x) if isinstance(x, tuple) else x for x in rd[1:])
            rs.append((lower(name), t, c, ttl, rd))
        out[sec] = rs
    return out


def split_tcp(stream: bytes):
    """-> (messages, leftover, error).  error is 'zero_length' when a zero length prefix is met."""
    msgs = []
    pos = 0
    while True:
        if len(stream) - pos < 2:
            return msgs, stream[pos:], None
        (ln,) = struct.unpack_from("!H", stream, pos)
        if ln == 0:
            return msgs, stream[pos:], "zero_length"
        if len(stream) - pos - 2 < ln:
            return msgs, stream[pos:], None
        msgs.append(bytes(stream[pos + 2:pos + 2 + ln]))
        pos += 2 + ln
