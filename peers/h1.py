"""Independent HTTP/1 reader `P`, written from RFC 9112 / RFC 9110.

Shares no code with mitmproxy or h11.  Strict where two recipients could frame a
byte stream differently (answers AMBIGUOUS), lenient where the RFC lets a
recipient rewrite without changing framing.  See DESIGN.md section 5 for the table.
"""
from __future__ import annotations

import re
from dataclasses import dataclass, field

TOKEN_CHARS = frozenset(b"!#$%&'*+-.^_`|~0123456789abcdefghijklmnopqrstuvwxyzABCDEFGHIJKLMNOPQRSTUVWXYZ")
VERSION_RE = re.compile(rb"^HTTP/[0-9]\.[0-9]$")
DIGITS_RE = re.compile(rb"^[0-9]+$")
HEX_RE = re.compile(rb"^[0-9a-fA-F]+$")
# status-code is 3DIGIT; other digit strings are invalid but every recipient that accepts them frames the
# message the same way (they are not 1xx/204/304), so P accepts them and the callers count them as a probe.
STATUS_RE = re.compile(rb"^[0-9]+$")


class Ambiguous(Exception):
    """kind: 'framing' (conflicting/malformed Content-Length/Transfer-Encoding, bad chunk framing),
    'name' (invalid field name) or 'syntax' (anything else a strict reader refuses)."""

    def __init__(self, reason: str, kind: str = "syntax"):
        super().__init__(reason)
        self.reason = reason
        self.kind = kind


class Incomplete(Exception):
    def __init__(self, where: str):
        super().__init__(where)
        self.where = where


@dataclass
class Msg:
    kind: str  # "request" | "response"
    method: bytes = b""
    target: bytes = b""
    version: bytes = b""
    status: int = 0
    reason: bytes = b""
    headers: list = field(default_factory=list)  # [(name, value)] as on the wire (value OWS-trimmed, unfolded)
    body: bytes = b""
    trailers: list = field(default_factory=list)
    framing: str = "none"  # none | cl | chunked | close | tunnel
    chunk_sizes: list = field(default_factory=list)
    chunk_exts: int = 0
    complete: bool = True
    start: int = 0
    end: int = 0
    invalid_octets: int = 0

    def get_all(self, name: bytes):
        n = name.lower()
        return [v for k, v in self.headers if k.lower() == n]

    def get(self, name: bytes, default=None):
        vs = self.get_all(name)
        return vs[0] if vs else default

    def brief(self):
        if self.kind == "request":
            return f"{self.method.decode('latin1')} {self.target.decode('latin1')[:60]} [{self.framing} {len(self.body)}B]"
        return f"{self.status} [{self.framing} {len(self.body)}B]"


def _is_token(b: bytes) -> bool:
    return len(b) > 0 and all(c in TOKEN_CHARS for c in b)


def _read_line(data: bytes, pos: int, what: str):
    """One line terminated by CRLF.  Bare LF -> Ambiguous; no terminator -> Incomplete."""
    i = data.find(b"\n", pos)
    if i < 0:
        raise Incomplete(what)
    if i == pos or data[i - 1] != 0x0D:
        raise Ambiguous(f"bare LF in {what}")
    return data[pos:i - 1], i + 1


def _read_fields(data: bytes, pos: int, what: str):
    fields: list = []
    invalid = 0
    while True:
        line, pos = _read_line(data, pos, what)
        if line == b"":
            return fields, pos, invalid
        if line[0] in b" \t":
            if not fields:
                raise Ambiguous("continuation line before any field")
            n, v = fields[-1]
            fields[-1] = (n, (v + b" " + line.strip(b" \t")).strip(b" \t"))
            continue
        name, sep, value = line.partition(b":")
        if not sep:
            raise Ambiguous(f"field line without colon: {line[:40]!r}")
        if not _is_token(name):
            raise Ambiguous(f"invalid field name {name[:40]!r}", "name")
        value = value.strip(b" \t")
        if b"\x00" in value or b"\r" in value:
            invalid += 1
            value = value.replace(b"\x00", b" ").replace(b"\r", b" ")
        fields.append((name, value))


def _framing_fields(msg: Msg):
    try:
        return _framing_fields0(msg)
    except Ambiguous as e:
        e.kind = "framing"
        raise


def _framing_fields0(msg: Msg):
    te = msg.get_all(b"transfer-encoding")
    cl = msg.get_all(b"content-length")
    if te and cl:
        raise Ambiguous("both Content-Length and Transfer-Encoding")
    if te:
        if msg.version == b"HTTP/1.0":
            raise Ambiguous("Transfer-Encoding in HTTP/1.0 message")
        codings = []
        for v in te:
            for c in v.split(b","):
                c = c.strip(b" \t").lower()
                if not _is_token(c):
                    raise Ambiguous(f"transfer-coding is not a plain token: {c[:30]!r}")
                codings.append(c)
        if codings.count(b"chunked") > 1:
            raise Ambiguous("chunked applied more than once")
        if b"chunked" in codings and codings[-1] != b"chunked":
            raise Ambiguous("chunked is not the final transfer coding")
        return "te", codings
    if cl:
        members = []
        for v in cl:
            for m in v.split(b","):
                members.append(m.strip(b" \t"))
        for m in members:
            if not DIGITS_RE.match(m):
                raise Ambiguous(f"invalid Content-Length {m[:30]!r}")
        if len({int(m) for m in members}) != 1 or len(set(members)) != 1:
            raise Ambiguous("differing Content-Length values")
        return "cl", int(members[0])
    return "none", None


def _read_chunked(data: bytes, pos: int, msg: Msg):
    body = bytearray()
    while True:
        line, pos2 = _read_line(data, pos, "chunk-size")
        size_part, sep, ext = line.partition(b";")
        if not sep and size_part != size_part.rstrip(b" \t"):
            # "e \r\n": whitespace after the size without an extension is not in the grammar (BWS is only allowed
            # before ';'), but no reader can take it for a different size; counted, not refused
            msg.invalid_octets += 1
        size_part = size_part.rstrip(b" \t")
        if not HEX_RE.match(size_part):
            raise Ambiguous(f"invalid chunk size {line[:30]!r}", "chunk")
        if sep:
            msg.chunk_exts += 1
        size = int(size_part, 16)
        pos = pos2
        if size == 0:
            try:
                trailers, pos, inv = _read_fields(data, pos, "trailer section")
            except Ambiguous as e:
                # a framing/name problem inside the body phase: the head may long have been relayed (streaming).
                # A bare LF line terminator stays a pure syntax matter here as in the header section.
                if e.kind != "syntax":
                    e.kind = "chunk"
                raise
            msg.trailers = trailers
            msg.invalid_octets += inv
            msg.body = bytes(body)
            return pos
        if len(data) - pos < size + 2:
            msg.body = bytes(body) + data[pos:pos + size]
            raise Incomplete("chunk data")
        body += data[pos:pos + size]
        if data[pos + size:pos + size + 2] != b"\r\n":
            raise Ambiguous("chunk data not followed by CRLF", "chunk")
        msg.chunk_sizes.append(size)
        pos += size + 2


def parse_request(data: bytes, pos: int = 0) -> Msg:
    msg = Msg("request", start=pos)
    # RFC 9112 2.2: ignore empty lines before the request-line
    while data[pos:pos + 2] == b"\r\n":
        pos += 2
    if pos >= len(data):
        raise Incomplete("request-line")
    line, pos = _read_line(data, pos, "request-line")
    parts = line.split(b" ")
    if len(parts) != 3:
        raise Ambiguous(f"request-line does not have three SP-separated parts: {line[:60]!r}")
    msg.method, msg.target, msg.version = parts
    # Octets that are invalid in a method/target but that no recipient treats as a delimiter (visible ASCII
    # outside tchar, obs-text >= 0x80) do not change how the stream is framed: accepted, counted by callers
    # through msg.invalid_octets.  Controls, SP, HTAB and DEL are refused.
    # (the split at SP above already guarantees there is no SP inside; CR/LF cannot be inside a line)
    if not msg.method or b"\t" in msg.method:
        raise Ambiguous("empty method or HTAB in method")
    if not msg.target or b"\t" in msg.target:
        raise Ambiguous("invalid request-target")
    if not _is_token(msg.method) or any(c <= 0x20 or c >= 0x7F for c in msg.target):
        msg.invalid_octets += 1
    if not VERSION_RE.match(msg.version):
        raise Ambiguous(f"invalid HTTP-version {msg.version[:20]!r}")
    msg.headers, pos, msg.invalid_octets = _read_fields(data, pos, "header section")
    kind, val = _framing_fields(msg)
    if kind == "te":
        if val[-1] != b"chunked":
            raise Ambiguous("request Transfer-Encoding whose final coding is not chunked", "framing")
        msg.framing = "chunked"
        msg.complete = False
        pos = _read_chunked(data, pos, msg)
        msg.complete = True
    elif kind == "cl":
        msg.framing = "cl"
        if len(data) - pos < val:
            msg.body = data[pos:]
            msg.complete = False
            msg.end = len(data)
            raise IncompleteBody(msg)
        msg.body = data[pos:pos + val]
        pos += val
    msg.end = pos
    return msg


class IncompleteBody(Incomplete):
    def __init__(self, msg):
        super().__init__("body")
        self.msg = msg


def parse_response(data: bytes, pos: int, request_method: bytes, eof: bool) -> Msg:
    msg = Msg("response", start=pos)
    if pos >= len(data):
        raise Incomplete("status-line")
    line, pos = _read_line(data, pos, "status-line")
    parts = line.split(b" ", 2)
    if len(parts) < 2:
        raise Ambiguous(f"status-line too short: {line[:60]!r}")
    msg.version = parts[0]
    if not VERSION_RE.match(msg.version):
        raise Ambiguous(f"invalid HTTP-version {msg.version[:20]!r}")
    if not STATUS_RE.match(parts[1]):
        raise Ambiguous(f"invalid status code {parts[1][:20]!r}")
    msg.status = int(parts[1])
    msg.reason = parts[2] if len(parts) > 2 else b""
    msg.headers, pos, msg.invalid_octets = _read_fields(data, pos, "header section")
    m = request_method.upper()
    if m == b"HEAD" or 100 <= msg.status <= 199 or msg.status in (204, 304):
        msg.framing = "none"
        msg.end = pos
        return msg
    if m == b"CONNECT" and 200 <= msg.status <= 299:
        msg.framing = "tunnel"
        msg.end = pos
        return msg
    kind, val = _framing_fields(msg)
    if kind == "te" and val[-1] == b"chunked":
        msg.framing = "chunked"
        msg.complete = False
        pos = _read_chunked(data, pos, msg)
        msg.complete = True
    elif kind == "cl":
        msg.framing = "cl"
        if len(data) - pos < val:
            msg.body = data[pos:]
            msg.complete = False
            msg.end = len(data)
            raise IncompleteBody(msg)
        msg.body = data[pos:pos + val]
        pos += val
    else:
        msg.framing = "close"
        msg.body = data[pos:]
        pos = len(data)
        msg.complete = eof
        if not eof:
            msg.end = pos
            raise IncompleteBody(msg)
    msg.end = pos
    return msg


@dataclass
class Parsed:
    msgs: list
    status: str  # "ok" | "ambiguous" | "incomplete"
    reason: str = ""
    rest: bytes = b""
    partial: Msg | None = None
    tunnel_from: int | None = None
    kind: str = ""


def parse_requests(data: bytes, stop_after_connect: bool = True) -> Parsed:
    """Read as many requests as `data` holds."""
    msgs: list = []
    pos = 0
    while True:
        p = pos
        while data[p:p + 2] == b"\r\n":
            p += 2
        if p >= len(data):
            return Parsed(msgs, "ok")
        try:
            m = parse_request(data, pos)
        except Ambiguous as e:
            return Parsed(msgs, "ambiguous", e.reason, data[pos:], kind=e.kind)
        except IncompleteBody as e:
            return Parsed(msgs, "incomplete", "body", data[pos:], partial=e.msg)
        except Incomplete as e:
            return Parsed(msgs, "incomplete", e.where, data[pos:])
        msgs.append(m)
        pos = m.end
        if m.method.upper() == b"CONNECT" and stop_after_connect:
            return Parsed(msgs, "ok", rest=data[pos:], tunnel_from=pos)


def parse_responses(data: bytes, methods: list, eof: bool) -> Parsed:
    """Read responses answering `methods` in order.  Interim 1xx responses (other than
    101) do not consume a method."""
    msgs: list = []
    pos = 0
    mi = 0
    while True:
        if pos >= len(data):
            return Parsed(msgs, "ok")
        if mi >= len(methods):
            return Parsed(msgs, "ambiguous", "response bytes without a request to answer", data[pos:])
        try:
            m = parse_response(data, pos, methods[mi], eof)
        except Ambiguous as e:
            return Parsed(msgs, "ambiguous", e.reason, data[pos:], kind=e.kind)
        except IncompleteBody as e:
            return Parsed(msgs, "incomplete", "body", data[pos:], partial=e.msg)
        except Incomplete as e:
            return Parsed(msgs, "incomplete", e.where, data[pos:])
        msgs.append(m)
        pos = m.end
        if m.framing == "tunnel" or m.status == 101:
            return Parsed(msgs, "ok", rest=data[pos:], tunnel_from=pos)
        if 100 <= m.status <= 199:
            continue
        mi += 1


def norm_value(v: bytes) -> bytes:
    """Comparison form of a field value: unfold obs-fold, map NUL/CR to SP, trim OWS."""
    v = re.sub(rb"\r\n[ \t]+", b" ", v)
    v = v.replace(b"\x00", b" ").replace(b"\r", b" ")
    return v.strip(b" \t")


def norm_fields(fields) -> list:
    return [(bytes(n), norm_value(bytes(v))) for n, v in fields]
