"""HTTP/2 client -> ONE HTTP/1 origin address: many concurrent upstream connections inside one client connection.

Only an HTTP/2 (or HTTP/3) client talking to an HTTP/1 origin makes mitmproxy open more than one upstream
connection to the same address from one client connection (one connection per stream), which is the path the
per-address connection limit (`ConnectionHandler.max_conns`, 5) guards.  Helper for C09:

    sc  = gen_h2h1_concurrency(rng)          # rng: simkit.rng.KeyedRng (or random.Random)
    res = run_h2h1_concurrency(sc)           # pure function of the scenario

`res` keys: max_open (maximum number of upstream pipes to the origin address open at the same time, counted by
SimNet from connect success until the proxy closes the pipe), attempts (connect attempts that reached the network
seam), refused (attempts that failed: refused / timed out), early_closed (accepted, then ended by the origin before
it answered), streams (started), streams_answered (got the origin's answer for THEIR marker), streams_failed (error
response / reset), streams_pending (no outcome at quiescence), foreign (streams that got another stream's answer),
open_at_end, leaked_pipes (pipes the proxy never closed at all - on the unchanged tree this happens when the origin
resets a connection and the handler is cancelled before `writer.close()`, the known C05 finding
"upstream-close-event-lost-on-reset"; SimNet counts such a pipe as open for ever, so max_open can read 6 although the
semaphore works), max_open_excl_leaked (the same maximum over the pipes the proxy did close - the number to hold against
the limit of 5), reached_limit (max_open >= 5), crashes (w.crashes), digest, sim_s, faults, probes.

Real: the full proxy (Master, addons, ProxyConnectionHandler incl. max_conns / open_connection / handle_connection,
TLS layers, HttpLayer, Http2Server, Http1Client).  Stub: SimNet pipes, VLoop, scripted peers (hyper-h2 client and raw
HTTP/1 origin inside Python-ssl MemoryBIO TLS).  Deterministic: virtual time only, cert serials from the seed.
"""
from __future__ import annotations

import asyncio
import re

from peers import c06_h1_tls as H1
from peers import h2_peer as HP
from peers import tls_h2 as T
from simkit.world import digest as _digest

ADDR = ("o.test", 443)
MARK = re.compile(rb"cm(\d\d)x")
LIMIT = 5


def mk(k: int) -> str:
    return f"cm{k:02d}x"


def gen_h2h1_concurrency(rng) -> dict:
    r = rng.at("h2h1conc") if hasattr(rng, "at") else rng
    if r.random() < 0.55:
        return _gen_phased(r)
    n = r.choice([6, 7, 8, 9, 10, 12, 14])
    style = r.choice(["burst", "waves", "trickle"])
    streams = []
    t = 0.0
    for k in range(n):
        if style == "burst":
            gap = 0.0 if k else 0.0
        elif style == "waves":
            gap = r.choice([0.0, 0.0, 0.0, 0.4, 1.5]) if k else 0.0
        else:
            gap = r.choice([0.0, 0.05, 0.2, 0.6]) if k else 0.0
        t = round(t + gap, 4)
        body = r.choice([0, 0, 0, 20, 300])
        streams.append({"k": k, "at": t, "method": "POST" if body else "GET", "body": body})
    # per connect-attempt script (attempt ordinal = order in which attempts reach the network seam)
    attempts = []
    n_fail = 0
    for i in range(n + 2):
        x = r.random()
        # (a failed FIRST attempt fails every stream that was waiting for it - keep that rare so that most runs get
        # several connections open at once before something goes wrong)
        if x < 0.70 or n_fail >= max(1, n // 3) or (i == 0 and x < 0.93):
            a = {"outcome": "ok", "delay": r.choice([0.0, 0.0, 0.01, 0.2]), "reply_delay": r.choice([0.5, 1.0, 2.0, 2.0, 4.0, 8.0]),
                 "framing": r.choice(["cl", "cl", "close", "chunked"])}
        elif x < 0.74:
            a = {"outcome": "refused", "delay": r.choice([0.0, 0.01, 0.3])}
            n_fail += 1
        elif x < 0.82:
            a = {"outcome": "timeout", "delay": r.choice([1.0, 3.0, 20.0])}
            n_fail += 1
        elif x < 0.90:
            a = {"outcome": "early_close", "how": r.choice(["fin", "rst"]), "delay": r.choice([0.0, 0.01]),
                 "after": r.choice([0.0, 0.2, 1.0])}
            n_fail += 1
        else:
            a = {"outcome": "tcp_close_before_tls", "how": r.choice(["fin", "rst"]), "delay": r.choice([0.0, 0.01])}
            n_fail += 1
        attempts.append(a)
    hooks = []
    for _ in range(r.choice([0, 1, 2, 3])):
        hooks.append({"hook": r.choice(["server_connect", "server_connected"]), "nth": r.randrange(0, n),
                      "latency": r.choice([0.001, 0.1, 0.7, 2.5])})
    return {"family": "h2h1-concurrency", "mode": r.choice(["regular", "regular", "reverse"]), "eager": r.random() < 0.6,
            "options": {"connection_strategy": "lazy"}, "streams": streams, "attempts": attempts, "hooks": hooks,
            "client_close": r.choice(["goaway", "goaway", "fin", "rst"]), "settle": 6.0}


def _gen_phased(r) -> dict:
    """The history the per-address limit has to survive: a few slow connections are held open, then some attempts to the
    same address fail (refused / time out / ended early by the origin) while those are still open, then a larger group of
    streams arrives.  (Tasks that already wait for a slot hold on to the semaphore object they found, so a limiter that is
    dropped or recreated on failure only shows with streams that arrive AFTER the failure.)"""
    holders = r.choice([2, 3, 4, 4, 5, 6])
    fails = r.choice([1, 1, 2, 3])
    late = r.choice([4, 5, 6, 6, 7, 8])
    while holders + fails + late > 14:
        late -= 1
    while holders + fails + late < 6:
        late += 1
    t_b = r.choice([0.2, 0.5, 1.0])
    t_c = round(t_b + r.choice([0.05, 0.3, 1.0, 2.5]), 4)
    streams, attempts = [], []
    k = 0
    for _ in range(holders):
        streams.append({"k": k, "at": round(r.choice([0.0, 0.0, 0.01, 0.05]), 4), "method": "GET", "body": 0})
        attempts.append({"outcome": "ok", "delay": r.choice([0.0, 0.01]), "reply_delay": r.choice([6.0, 8.0, 12.0]),
                         "framing": r.choice(["cl", "close", "chunked"])})
        k += 1
    for _ in range(fails):
        streams.append({"k": k, "at": round(t_b + r.choice([0.0, 0.01, 0.1]), 4), "method": "GET", "body": 0})
        x = r.random()
        if x < 0.4:
            attempts.append({"outcome": "refused", "delay": r.choice([0.0, 0.01, 0.1])})
        elif x < 0.6:
            attempts.append({"outcome": "timeout", "delay": r.choice([0.2, 1.0, 3.0])})
        elif x < 0.8:
            attempts.append({"outcome": "early_close", "how": r.choice(["fin", "rst"]), "delay": 0.0, "after": r.choice([0.0, 0.2])})
        else:
            attempts.append({"outcome": "tcp_close_before_tls", "how": r.choice(["fin", "rst"]), "delay": 0.0})
        k += 1
    for _ in range(late):
        body = r.choice([0, 0, 20])
        streams.append({"k": k, "at": round(t_c + r.choice([0.0, 0.0, 0.02, 0.3]), 4), "method": "POST" if body else "GET", "body": body})
        attempts.append({"outcome": "ok", "delay": r.choice([0.0, 0.01, 0.2]), "reply_delay": r.choice([1.0, 2.0, 4.0, 8.0]),
                         "framing": r.choice(["cl", "cl", "close", "chunked"])})
        k += 1
    attempts.append({"outcome": "ok", "delay": 0.0, "reply_delay": 1.0, "framing": "cl"})
    hooks = []
    for _ in range(r.choice([0, 0, 1, 2])):
        hooks.append({"hook": r.choice(["server_connect", "server_connected"]), "nth": r.randrange(0, k),
                      "latency": r.choice([0.001, 0.1, 0.7])})
    if r.random() < 0.5:
        # overlap: the late group is already on its way (inside its server_connect hook) when the failing attempt fails.
        # (mitmproxy remembers a failed connection and fails later streams to that address from that memory, so only
        # streams that have passed that point can still reach the limiter after a failure.)
        d_f = r.choice([0.3, 1.0])
        for i in range(holders, holders + fails):
            attempts[i] = {"outcome": r.choice(["refused", "refused", "timeout"]), "delay": d_f}
        for s in streams[holders + fails:]:
            s["at"] = round(t_b + r.choice([0.02, 0.05, 0.1]), 4)
        hooks = [h for h in hooks if h["nth"] < holders]
        for j in range(holders + fails, k):
            if r.random() < 0.8:
                hooks.append({"hook": "server_connect", "nth": j, "latency": round(d_f + r.choice([0.05, 0.2, 0.6]), 4)})
    return {"family": "h2h1-concurrency-phased", "mode": r.choice(["regular", "regular", "reverse"]), "eager": r.random() < 0.6,
            "options": {"connection_strategy": "lazy"}, "streams": streams, "attempts": attempts, "hooks": hooks,
            "client_close": r.choice(["goaway", "goaway", "fin", "rst"]), "settle": 6.0}


class _Serial:
    def __init__(self, seed):
        self.n = (int(seed) & 0xFFFFFFFFFFFF) << 16

    def __call__(self):
        self.n += 1
        return (1 << 150) | self.n


def _h1_reply(marker: str, a: dict) -> dict:
    body = f"<{marker}.answer>".encode() + b"." * 40
    head = ["HTTP/1.1 200 OK", f"X-Mark: {marker}"]
    framing = a.get("framing", "cl")
    if framing == "cl":
        head.append(f"Content-Length: {len(body)}")
        payload = body
    elif framing == "chunked":
        head.append("Transfer-Encoding: chunked")
        payload = b"%x\r\n%s\r\n0\r\n\r\n" % (len(body), body)
    else:
        head.append("Connection: close")
        payload = body
    return {"delay": a.get("reply_delay", 1.0), "data": ("\r\n".join(head) + "\r\n\r\n").encode().decode("latin-1") + payload.decode("latin-1"),
            "then": "close"}


def run_h2h1_concurrency(sc: dict, keep_log: bool = False) -> dict:
    from cryptography import x509
    from simkit import world as W
    from simkit.net import ConnectPlan, oserror

    pki = T.sim_pki()
    st = {"origins": [], "events": [], "hook_n": {"server_connect": 0, "server_connected": 0}, "early_closed": 0}
    rules = {}
    for h in sc.get("hooks", []):
        rules.setdefault((h["hook"], h["nth"]), h)
    streams = {s["k"]: s for s in sc["streams"]}
    script = sc.get("attempts", [])

    def attempt_spec(i):
        return script[i] if i < len(script) else {"outcome": "ok", "delay": 0.0, "reply_delay": 1.0, "framing": "cl"}

    old_serial = x509.random_serial_number
    x509.random_serial_number = _Serial(sc.get("seed", 0))
    out = {}

    async def body(w):
        def policy(name, data):
            if name in ("server_connect", "server_connected"):
                try:
                    if tuple(data.server.address) != ADDR:
                        return None
                except Exception:
                    return None
                i = st["hook_n"][name]
                st["hook_n"][name] = i + 1
                rule = rules.get((name, i))
                if rule and rule.get("latency"):
                    w.net.fired("hook_latency")
                    return asyncio.sleep(rule["latency"])
            return None
        w.policy = policy

        def planner(host, port, n, proto):
            a = attempt_spec(n)
            st["events"].append((round(w.loop.time(), 6), "attempt", n, a["outcome"]))
            if a["outcome"] == "refused":
                return ConnectPlan(delay=a.get("delay", 0.0), error=oserror("refused"))
            if a["outcome"] == "timeout":
                return ConnectPlan(delay=a.get("delay", 3.0), error=oserror("timeout"))

            def accept(conn):
                ordinal = len(st["origins"])
                st["events"].append((round(w.loop.time(), 6), "accepted", n))
                if a["outcome"] == "tcp_close_before_tls":
                    st["early_closed"] += 1
                    w.net.fired("origin_leaves_before_tls")
                    st["origins"].append(None)
                    w.loop.call_soon(conn.reset if a.get("how") == "rst" else conn.send_eof)
                    return
                tls = T.TlsStream(conn, T.origin_context(["http/1.1"]), server_side=True)

                def marker_of(pm):
                    m = MARK.search(pm.target)
                    return mk(int(m.group(1))) if m else None
                spec = {"responses": {}, "idle": 40.0, "default_response": None}
                o = H1.H1Origin(w, tls, spec, marker_of, name=f"origin{n}")
                # the answer is scripted per ATTEMPT and stamped with the marker of the request that arrives on it
                orig_script = o._script

                def per_attempt(marker):
                    if a["outcome"] == "early_close":
                        return {"leave": a.get("how", "fin"), "delay": a.get("after", 0.0)}
                    return _h1_reply(marker or "cm99x", a)
                o._script = per_attempt
                o.attempt = n
                st["origins"].append(o)

                async def go():
                    if not await tls.handshake():
                        o.handshake_error = tls.tls_error
                        return
                    await o.run()
                    if a["outcome"] == "early_close":
                        st["early_closed"] += 1
                o.task = w.loop.create_task(go(), name=f"sim-origin-{n}")
            return ConnectPlan(delay=a.get("delay", 0.0), accept=accept)
        w.net.connect_planner = planner

        c = w.connect_client()
        if sc["mode"] == "regular":
            line = await T.connect_via_proxy(c, b"o.test:443")
            if line is None or b" 200" not in line:
                raise W.HarnessError(f"CONNECT failed: {line!r}")
        tls = T.TlsStream(c, T.client_context(["h2", "http/1.1"]), server_side=False, server_hostname="o.test")
        if not await tls.handshake():
            raise W.HarnessError(f"client TLS handshake failed: {tls.tls_error}")
        if tls.alpn != "h2":
            raise W.HarnessError(f"client negotiated {tls.alpn!r}, wanted h2")
        pstreams = {}
        steps = []
        prev = 0.0
        for s in sorted(sc["streams"], key=lambda s_: (s_["at"], s_["k"])):
            m = mk(s["k"])
            hs = [[":method", s.get("method", "GET")], [":scheme", "https"], [":path", f"/conc/{m}"], [":authority", "o.test"],
                  ["x-mark", m]]
            chunks = []
            if s.get("body"):
                chunks = [f"<{m}.q>" + "." * int(s["body"])]
                hs.append(["content-length", str(len(chunks[0]))])
            pstreams[s["k"]] = {"headers": hs, "chunks": chunks, "trailers": None}
            frames = [{"s": s["k"], "t": "H", "end": not chunks}]
            if chunks:
                frames.append({"s": s["k"], "t": "D", "i": 0, "end": True})
            steps.append({"pause": max(0.0, s["at"] - prev), "frames": frames, "cuts": [], "gaps": []})
            prev = s["at"]
        finish = {"timeout": 45.0, "close": sc.get("client_close", "goaway")}
        if sc.get("leave_after") is not None:
            # the client gives up this long after its last frame, whatever is still outstanding (streams waiting for an
            # upstream slot, connects in flight)
            finish["hard_timeout"] = float(sc["leave_after"])
        cl = HP.H2Client(w, tls, {"streams": pstreams, "steps": steps, "finish": finish})
        await cl.start()
        await cl.run_steps()
        await cl.finish()
        out["open_before_client_close"] = w.net.open_server.get(ADDR, 0)
        await asyncio.sleep(sc.get("settle", 6.0))
        for o in st["origins"]:
            t = getattr(o, "task", None) if o is not None else None
            if t is not None and t.done() and not t.cancelled() and t.exception():
                raise t.exception()
        out["client"] = cl
        out["handler_done"] = c.task.done()
        out["sim_s"] = w.loop.time()

    try:
        opts = {"ssl_verify_upstream_trusted_ca": pki["ca"], "connection_strategy": "lazy"}
        opts.update(sc.get("options") or {})
        mode = "regular" if sc["mode"] == "regular" else "reverse:https://o.test:443"
        _, w = W.run_world(body, eager=sc.get("eager", False), seed=sc.get("seed", 0), options=opts, modes=[mode],
                           keep_log=keep_log, max_iterations=2_000_000)
    finally:
        x509.random_serial_number = old_serial

    cl = out["client"]
    answered = failed = pending = foreign = 0
    for k in streams:
        sent = cl.sent.get(k)
        if not sent or not sent["headers"]:
            continue
        ob = cl.streams.get(k)
        if ob is None or not (ob["ended"] or ob["reset"] is not None):
            pending += 1
            continue
        got = set()
        for n_, v_ in ob["resp_headers"] or []:
            got |= {int(x) for x in MARK.findall(v_)}
        got |= {int(x) for x in MARK.findall(bytes(ob["data"]))}
        if got - {k}:
            foreign += 1
        elif ob["ended"] and dict(ob["resp_headers"] or []).get(b":status") == b"200" and got == {k}:
            answered += 1
        else:
            failed += 1
    attempts = [a for a in w.net.connect_attempts if (a["host"], a["port"]) == ADDR]
    refused = sum(1 for a in attempts if a["result"] == "error")
    max_open = w.net.max_open_server.get(ADDR, 0)
    # abstract log: connect attempts and their results, when pipes were opened / closed by the proxy, client-side frames
    ev = list(st["events"])
    ev += [(round(a["t"], 6), "connect", a["n"], a["result"]) for a in attempts]
    for conn in w.net.conns:
        if getattr(conn, "kind", None) == "server":
            ev.append((round(conn.opened_at, 6), "pipe", conn.attempt, round(conn.close_time, 6) if conn.close_time is not None else None))
    ev += cl.log
    ev.append(("max_open", max_open))
    probes = {"reached_limit": int(max_open >= LIMIT), "attempt_failed_while_others_open": 0, "waited_for_slot": 0}
    # a failed attempt while at least one other pipe to the address was open (the regression scenario)
    pipes = [(c_.opened_at, c_.close_time if c_.close_time is not None else float("inf")) for c_ in w.net.conns
             if getattr(c_, "kind", None) == "server"]
    for a in attempts:
        if a["result"] == "error" and any(o_ <= a["t"] < cl_ for o_, cl_ in pipes):
            probes["attempt_failed_while_others_open"] += 1
    if len(attempts) > LIMIT and max_open >= LIMIT:
        probes["waited_for_slot"] = 1
    # pipes the proxy never closed although the client connection handler has finished (a leak, not a limit breach:
    # SimNet keeps counting such a pipe as open for ever)
    leaked = sum(1 for c_ in w.net.conns if getattr(c_, "kind", None) == "server" and c_.close_time is None)
    # the same maximum over the pipes the proxy DID close (exact: open from connect success to the proxy's close) - lets the
    # caller tell "more than 5 connections held at once" (the limit) from "a dead pipe the proxy forgot to close" (a leak)
    edges = []
    for c_ in w.net.conns:
        if getattr(c_, "kind", None) != "server" or c_.close_time is None:
            continue
        edges.append((c_.opened_at, 1))
        edges.append((c_.close_time, -1))
    live = cur = 0
    for t_, d_ in sorted(edges, key=lambda e: (e[0], e[1])):
        cur += d_
        live = max(live, cur)
    # server-connection hooks as the first addon saw them, per server connection, in order
    seqs: dict = {}
    for _t, name, data in w.hooks_fired:
        if name in ("server_connect", "server_connected", "server_connect_error", "server_disconnected"):
            seqs.setdefault(data.server.id, []).append(name)
    return {"server_hook_seqs": [seqs[k] for k in seqs], "max_open": max_open, "attempts": len(attempts), "refused": refused, "early_closed": st["early_closed"],
            "streams": len(cl.sid_of), "streams_answered": answered, "streams_failed": failed, "streams_pending": pending,
            "foreign": foreign, "open_at_end": w.net.open_server.get(ADDR, 0), "reached_limit": max_open >= LIMIT,
            "leaked_pipes": leaked, "max_open_excl_leaked": live,
            "handler_done": out.get("handler_done"), "crashes": list(w.crashes), "digest": _digest(ev),
            "sim_s": out.get("sim_s", 0.0), "faults": dict(w.net.faults_fired), "probes": probes}
