"""Independent ClientHello builder and parser (TLS and DTLS) for C13/C19.

Written from RFC 8446 section 4.1.2 / 5.1, RFC 5246 section 7.4.1.2, RFC 6347 section 4.2/4.3.2,
RFC 6066 section 3 (server_name) and RFC 7301 section 3.1 (ALPN).  Nothing here imports
mitmproxy; the kaitai parser under test is never consulted.

Wire layouts

    TLS record    : type(1)=22  version(2)  length(2)  fragment
    DTLS record   : type(1)=22  version(2)  epoch(2)  sequence(6)  length(2)  fragment
    TLS handshake : msg_type(1)=1  length(3)  body
    DTLS handshake: msg_type(1)=1  length(3)  message_seq(2)  fragment_offset(3)  fragment_length(3)  body
    body          : legacy_version(2) random(32) session_id<0..32> [cookie<0..255> (DTLS)]
                    cipher_suites<2..2^16-2> compression_methods<1..255> [extensions<0..2^16-1>]
"""
from __future__ import annotations

import ipaddress
import random as _random
import re

EXT_SNI = 0
EXT_ALPN = 16
GREASE = [0x0A0A + 0x1010 * i for i in range(16)]  # RFC 8701

_LDH_LABEL = re.compile(r"^[A-Za-z0-9]([A-Za-z0-9-]{0,61}[A-Za-z0-9])?$")


class Malformed(Exception):
    """The bytes are not a well-formed ClientHello (as far as this strict parser is concerned)."""


# ---------------------------------------------------------------------------
# helpers
# ---------------------------------------------------------------------------
def u8(n):
    return bytes([n & 0xFF])


def u16(n):
    return (n & 0xFFFF).to_bytes(2, "big")


def u24(n):
    return (n & 0xFFFFFF).to_bytes(3, "big")


def vec8(b):
    return u8(len(b)) + b


def vec16(b):
    return u16(len(b)) + b


def sni_body(names):
    """names: list of (name_type, bytes)."""
    lst = b"".join(u8(t) + vec16(n) for t, n in names)
    return vec16(lst)


def alpn_body(protos):
    return vec16(b"".join(vec8(p) for p in protos))


def conformant_host_name(name: bytes) -> bool:
    """RFC 6066: a fully qualified DNS hostname in ASCII, no trailing dot, no IP literal."""
    try:
        s = name.decode("ascii")
    except UnicodeDecodeError:
        return False
    if not s or len(s) > 253 or s.endswith("."):
        return False
    labels = s.split(".")
    if not all(_LDH_LABEL.match(l) for l in labels):
        return False
    for l in labels:
        if l[2:4] == "--":
            # reserved LDH labels: only genuine A-labels (RFC 5890) count as conformant; "fake A-labels" and
            # other R-LDH labels are left to the totality part of the check
            if l[:4].lower() != "xn--":
                return False
            try:
                u = l[4:].encode("ascii").decode("punycode")
            except (UnicodeError, ValueError):
                return False
            if not u or all(ord(ch) < 128 for ch in u) or not all(ch.isalnum() or ch == "-" for ch in u):
                return False
            if u.encode("punycode").decode("ascii").lower() != l[4:].lower() or u != u.lower():
                return False
    try:
        ipaddress.ip_address(s)
        return False
    except ValueError:
        pass
    if labels[-1].isdigit():  # looks like a (partial) IPv4 literal
        return False
    return True


# ---------------------------------------------------------------------------
# builder
# ---------------------------------------------------------------------------
def build_body(spec: dict, dtls: bool = False) -> tuple[bytes, list]:
    """ClientHello body from a spec.  Returns (body, fields) where fields is a list of
    (name, offset, size) for every length field inside the body."""
    r = _random.Random(spec.get("rnd", 0))
    fields = []
    out = bytearray()
    ver = spec.get("ver", [3, 3])
    if dtls:
        ver = spec.get("dver", [0xFE, 0xFD])
    out += bytes(ver)
    out += r.randbytes(32)
    sid = r.randbytes(spec.get("sid", 32))
    fields.append(("session_id", len(out), 1))
    out += vec8(sid)
    if dtls:
        ck = r.randbytes(spec.get("cookie", 0))
        fields.append(("cookie", len(out), 1))
        out += vec8(ck)
    cs = b"".join(u16(c) for c in spec.get("ciphers", [0x1301]))
    fields.append(("cipher_suites", len(out), 2))
    out += vec16(cs)
    comp = bytes(spec.get("comp", [0]))
    fields.append(("compression", len(out), 1))
    out += vec8(comp)
    exts = spec.get("exts")
    if exts is not None:
        fields.append(("extensions", len(out), 2))
        eb = bytearray()
        base = len(out) + 2
        for e in exts:
            body = e["b"].encode("latin-1")
            fields.append((f"ext_{e['t']}", base + len(eb) + 2, 2))
            if e["t"] in (EXT_SNI, EXT_ALPN) and len(body) >= 2:
                fields.append((f"ext_{e['t']}_list", base + len(eb) + 4, 2))
            eb += u16(e["t"]) + vec16(body)
        out += vec16(bytes(eb))
    return bytes(out), fields


def handshake_message(body: bytes, dtls: bool = False, msg_seq: int = 0) -> bytes:
    if dtls:
        return b"\x01" + u24(len(body)) + u16(msg_seq) + u24(0) + u24(len(body)) + body
    return b"\x01" + u24(len(body)) + body


def hs_header_len(dtls: bool) -> int:
    return 12 if dtls else 4


def wrap_records(hs: bytes, rec_cuts=(), rec_vers=(), default_ver=(3, 1)) -> bytes:
    """Split a TLS handshake message across TLS records at absolute offsets `rec_cuts`."""
    pts = sorted({c for c in rec_cuts if 0 < c < len(hs)}) + [len(hs)]
    out = bytearray()
    pos = 0
    for i, end in enumerate(pts):
        frag = hs[pos:end]
        v = rec_vers[i] if i < len(rec_vers) else default_ver
        # a fragment longer than 2^14 would be illegal; split further
        while len(frag) > 16384:
            out += b"\x16" + bytes(v) + u16(16384) + frag[:16384]
            frag = frag[16384:]
        out += b"\x16" + bytes(v) + u16(len(frag)) + frag
        pos = end
    return bytes(out)


def wrap_dtls_record(hs: bytes, ver=(0xFE, 0xFD), epoch=0, seq=0) -> bytes:
    return b"\x16" + bytes(ver) + u16(epoch) + seq.to_bytes(6, "big") + u16(len(hs)) + hs


def record_headers(wire: bytes):
    """Offsets of the TLS record headers in a well-framed wire string."""
    out = []
    pos = 0
    while pos + 5 <= len(wire):
        out.append(pos)
        pos += 5 + int.from_bytes(wire[pos + 3:pos + 5], "big")
    return out


def unwrap_records(wire: bytes) -> bytes:
    """Concatenate the fragments of well-framed handshake records (used on the output of a real TLS stack)."""
    out = bytearray()
    pos = 0
    while pos < len(wire):
        if len(wire) < pos + 5 or wire[pos] != 22:
            raise Malformed("not a handshake record")
        n = int.from_bytes(wire[pos + 3:pos + 5], "big")
        if len(wire) < pos + 5 + n:
            raise Malformed("short record")
        out += wire[pos + 5:pos + 5 + n]
        pos += 5 + n
    return bytes(out)


# ---------------------------------------------------------------------------
# parser
# ---------------------------------------------------------------------------
class _Rd:
    def __init__(self, data: bytes, base: int = 0):
        self.d = data
        self.p = 0
        self.base = base

    def left(self):
        return len(self.d) - self.p

    def take(self, n, what):
        if n < 0 or self.p + n > len(self.d):
            raise Malformed(f"truncated {what}")
        b = self.d[self.p:self.p + n]
        self.p += n
        return b

    def num(self, size, what):
        return int.from_bytes(self.take(size, what), "big")

    def off(self):
        return self.base + self.p


class Hello:
    __slots__ = ("version", "random", "session_id", "cookie", "ciphers", "compression", "extensions",
                 "has_extensions", "sni_state", "sni", "sni_names", "alpn_state", "alpn", "dup_ext", "fields")

    def summary(self):
        return {"sni": self.sni if self.sni_state == "conformant" else None, "sni_state": self.sni_state,
                "alpn": list(self.alpn), "ciphers": list(self.ciphers),
                "extensions": [(t, b) for t, b in self.extensions]}


def parse_body(body: bytes, dtls: bool = False) -> Hello:
    """Strict parse of a ClientHello body (without handshake header).  Raises Malformed."""
    rd = _Rd(body)
    h = Hello()
    h.fields = []
    h.version = tuple(rd.take(2, "version"))
    h.random = rd.take(32, "random")
    h.fields.append(("session_id", rd.off(), 1))
    n = rd.num(1, "session_id length")
    if n > 32:
        raise Malformed("session_id longer than 32")
    h.session_id = rd.take(n, "session_id")
    h.cookie = None
    if dtls:
        h.fields.append(("cookie", rd.off(), 1))
        h.cookie = rd.take(rd.num(1, "cookie length"), "cookie")
    h.fields.append(("cipher_suites", rd.off(), 2))
    n = rd.num(2, "cipher_suites length")
    if n < 2 or n % 2:
        raise Malformed("cipher_suites length")
    cs = rd.take(n, "cipher_suites")
    h.ciphers = [int.from_bytes(cs[i:i + 2], "big") for i in range(0, n, 2)]
    h.fields.append(("compression", rd.off(), 1))
    n = rd.num(1, "compression length")
    if n < 1:
        raise Malformed("compression methods empty")
    h.compression = rd.take(n, "compression")
    h.extensions = []
    h.has_extensions = False
    h.sni_state, h.sni, h.sni_names = "absent", None, []
    h.alpn_state, h.alpn = "absent", []
    h.dup_ext = False
    if rd.left() == 0:
        return h
    h.has_extensions = True
    h.fields.append(("extensions", rd.off(), 2))
    n = rd.num(2, "extensions length")
    if n != rd.left():
        raise Malformed("extensions length does not cover the rest of the message")
    seen = set()
    while rd.left():
        t = rd.num(2, "extension type")
        h.fields.append((f"ext_{t}", rd.off(), 2))
        n = rd.num(2, "extension length")
        if t in (EXT_SNI, EXT_ALPN) and n >= 2:
            h.fields.append((f"ext_{t}_list", rd.off(), 2))
        b = rd.take(n, "extension body")
        if t in seen:
            h.dup_ext = True
        seen.add(t)
        h.extensions.append((t, b))
    for t, b in h.extensions:
        if t == EXT_SNI:
            names = _parse_sni(b)
            if h.sni_state != "absent":
                h.sni_state = "nonconformant"
                continue
            h.sni_names = names
            if len(names) == 1 and names[0][0] == 0 and conformant_host_name(names[0][1]):
                h.sni_state, h.sni = "conformant", names[0][1].decode("ascii")
            else:
                h.sni_state = "nonconformant"
        elif t == EXT_ALPN:
            protos = _parse_alpn(b)
            if h.alpn_state != "absent":
                h.alpn_state = "ambiguous"
                continue
            h.alpn_state, h.alpn = "present", protos
    return h


def _parse_sni(b: bytes):
    rd = _Rd(b)
    n = rd.num(2, "server_name_list length")
    if n != rd.left():
        raise Malformed("server_name_list length")
    if n == 0:
        raise Malformed("empty server_name_list")
    names = []
    while rd.left():
        t = rd.num(1, "name_type")
        names.append((t, rd.take(rd.num(2, "name length"), "name")))
    return names


def _parse_alpn(b: bytes):
    rd = _Rd(b)
    n = rd.num(2, "protocol_name_list length")
    if n != rd.left():
        raise Malformed("protocol_name_list length")
    if n == 0:
        raise Malformed("empty protocol_name_list")
    out = []
    while rd.left():
        k = rd.num(1, "protocol name length")
        if k == 0:
            raise Malformed("empty protocol name")
        out.append(rd.take(k, "protocol name"))
    return out


def reassemble_tls(wire: bytes):
    """Independent record-layer reading of a first flight.

    Returns (state, handshake_bytes): state is "complete" (a whole handshake message is available,
    handshake_bytes = header + body, exactly), "incomplete" or "invalid" (framing violates RFC 8446 5.1:
    content type not handshake, zero-length handshake fragment, record longer than 2^14 + 256)."""
    buf = bytearray()
    pos = 0
    while True:
        if len(buf) >= 4:
            need = 4 + int.from_bytes(buf[1:4], "big")
            if len(buf) >= need:
                return "complete", bytes(buf[:need])
        if len(wire) < pos + 5:
            return "incomplete", bytes(buf)
        if wire[pos] != 22 or wire[pos + 1] != 3:
            return "invalid", bytes(buf)
        n = int.from_bytes(wire[pos + 3:pos + 5], "big")
        if n == 0 or n > 16384 + 256:
            return "invalid", bytes(buf)
        if len(wire) < pos + 5 + n:
            return "incomplete", bytes(buf)
        buf += wire[pos + 5:pos + 5 + n]
        pos += 5 + n


def reassemble_dtls(datagram: bytes):
    """First DTLS record of a datagram carrying an unfragmented ClientHello."""
    if len(datagram) < 13:
        return "incomplete", b""
    if datagram[0] != 22 or datagram[1] != 0xFE:
        return "invalid", b""
    n = int.from_bytes(datagram[11:13], "big")
    if n == 0:
        return "invalid", b""
    if len(datagram) < 13 + n:
        return "incomplete", b""
    frag = datagram[13:13 + n]
    if len(frag) < 12:
        return "incomplete", frag
    total = int.from_bytes(frag[1:4], "big")
    off = int.from_bytes(frag[6:9], "big")
    flen = int.from_bytes(frag[9:12], "big")
    if off != 0 or flen != total:
        return "fragmented", frag
    if len(frag) < 12 + total:
        return "incomplete", frag
    return "complete", frag[:12 + total]


def reference(wire: bytes, dtls: bool = False):
    """What an independent reader makes of a first flight: (state, Hello | None).

    state: complete_wellformed (Hello given), complete_malformed, incomplete, invalid, fragmented."""
    st, hs = (reassemble_dtls if dtls else reassemble_tls)(wire)
    if st != "complete":
        return st, None
    if hs[0] != 1:
        return "complete_malformed", None
    try:
        return "complete_wellformed", parse_body(hs[hs_header_len(dtls):], dtls)
    except Malformed:
        return "complete_malformed", None
