"""Executor for raw TCP / raw UDP histories through the real proxy (property C29).

A scenario is ONE timeline of operations by three actors -- the client peer, the
origin peer and an addon/user that injects messages -- plus ``rules`` for the
``tcp_message`` / ``udp_message`` hook (latency, content edits).  The peers are
scripted (they never react to what they receive), so every interleaving of
sends, half-closes, closes and injections relative to pending hooks is reachable
by choosing gaps.

Nothing here knows what mitmproxy *should* do: the module only drives the world
and records what happened (``Obs``); the oracle lives in ``props/c29.py``.
"""
from __future__ import annotations

import asyncio

from simkit import world as W
from simkit.net import ConnectPlan, oserror


def B(s) -> bytes:
    return s.encode("latin-1") if isinstance(s, str) else bytes(s)


def S(b) -> str:
    return bytes(b).decode("latin-1")


INJ_PREFIX = b"<inj#"  # peers never send "<": a recorded message starting like this was injected


def apply_edit(content: bytes, e: dict) -> bytes:
    k = e["k"]
    if k == "reverse":      # keeps the length
        return content[::-1]
    if k == "xor":          # keeps the length
        return bytes(b ^ 0x20 for b in content)
    if k == "append":
        return content + B(e.get("v", "+tail"))
    if k == "truncate":
        return content[: len(content) // 2]
    if k == "empty":
        return b""
    if k == "replace":
        return B(e.get("v", "REPLACED"))
    raise ValueError(k)


class PeerView:
    """Frozen copy of what one peer saw / did, taken at quiescence (before the world is torn down)."""

    def __init__(self, conn, proto):
        self.kind = conn.kind
        self.rx_log = list(conn.rx_log)
        self.tx_log = list(conn.tx_log)
        self.received = b"".join(d for _, d in self.rx_log)
        self.sent = b"".join(d for _, d in self.tx_log)
        self.proxy_closed = conn.proxy_closed
        self.opened_at = conn.opened_at
        self.fin_at = getattr(conn, "fin_at", None)
        self.rst_at = getattr(conn, "rst_at", None)
        self.closed_at = getattr(conn, "closed_at", None)
        if proto == "tcp":
            self.rx_eof = conn.rx_eof
            self.eof_time = conn.eof_time
            self.close_time = conn.close_time
            self.peer_eof = conn.peer_eof
            self.peer_reset = conn.peer_reset
            self.write_after_close = conn.write_after_close
            self.dropped_bytes = conn.dropped_bytes
        else:
            self.peer_closed = conn.peer_closed


class Obs:
    def __init__(self):
        self.world = None
        self.frozen = False
        self.notes: list = []
        self.delivered: list = []   # "open_completed" / "closed_client" / "closed_server" events that reached the layers
        self.client = None
        self.server = None
        self.seq = 0
        self.events: list = []      # (seq, t, kind, ...): hook / write / close, in exact order
        self.hooks: list = []       # (seq, t, name, fid, n_messages, (from_client, content)|None, error)
        self.orig: dict = {}        # (fid, index) -> content before any edit of ours
        self.recorded_at: dict = {}  # (fid, index) -> (seq, t) when the message hook reached the first addon
        self.flows: dict = {}       # fid -> live flow object
        self.op_log: list = []      # (i, t, who, op, status)
        self.applied: list = []     # (hook, nth, latency, edit kind)
        self.pending_at_close: int = 0   # closes performed by a peer while a message hook was pending
        self.handler_done = None
        self.sim_s = 0.0
        self.pending_hooks: list = []

    def ev(self, *item):
        if self.frozen:
            return self.seq
        self.seq += 1
        self.events.append((self.seq, round(self.world.loop.time(), 6)) + item)
        return self.seq


def run(sc, *, keep_log=False) -> Obs:
    obs = Obs()
    proto = sc["proto"]
    msg_hook = f"{proto}_message"
    flow_hooks = {f"{proto}_start", f"{proto}_message", f"{proto}_end", f"{proto}_error"}
    rules = [dict(r) for r in sc.get("rules", [])]
    counters: dict = {}
    connect = sc.get("connect") or {}

    async def body(w):
        obs.world = w
        loop = w.loop
        server_ready = asyncio.Event()
        pending_msg_hooks = {"n": 0}

        # ---- addon behaviour: runs inside the FIRST addon --------------------------------
        LATENCY_HOOKS = (f"{proto}_start", "server_connect", "server_connected")

        def policy(name, data):
            if name in LATENCY_HOOKS:
                # rules may make these hooks slow (an async addon); nothing is edited here
                n = counters.get(name, 0)
                counters[name] = n + 1
                rule = next((r for r in rules if r.get("hook") == name and r.get("nth", 0) == n), None)
                lat = (rule.get("latency", 0) or 0) if rule else 0
                if lat <= 0:
                    return None
                obs.applied.append((name, n, lat, None))

                async def slow():
                    pending_msg_hooks["n"] += 1
                    try:
                        await asyncio.sleep(lat)
                    finally:
                        pending_msg_hooks["n"] -= 1
                return slow()
            if name != msg_hook:
                return None
            f = data
            idx = len(f.messages) - 1
            obs.orig[(f.id, idx)] = bytes(f.messages[idx].content)
            obs.recorded_at[(f.id, idx)] = (obs.ev("recorded", idx), w.loop.time())
            n = counters.get(name, 0)
            counters[name] = n + 1
            rule = None
            for r in rules:
                if r.get("hook", msg_hook) == name and r.get("nth") == n:
                    rule = r
                    break
            if rule is None:
                return None
            lat = rule.get("latency", 0) or 0
            edit = rule.get("edit")
            obs.applied.append((name, n, lat, edit["k"] if edit else None))
            msg = f.messages[idx]

            def do_edit():
                if edit:
                    msg.content = apply_edit(bytes(msg.content), edit)

            if lat > 0 and rule.get("intercept"):
                # the message is intercepted (as the Intercept addon / a user would) and resumed after `lat`
                f.intercept()
                pending_msg_hooks["n"] += 1

                def resume():
                    pending_msg_hooks["n"] -= 1
                    do_edit()
                    f.resume()
                loop.call_later(lat, resume)
                return None
            if lat > 0:
                async def later():
                    pending_msg_hooks["n"] += 1
                    try:
                        await asyncio.sleep(lat)
                    finally:
                        pending_msg_hooks["n"] -= 1
                    do_edit()
                return later()
            do_edit()
            return None
        w.policy = policy

        # ---- observation: runs inside the LAST addon -------------------------------------
        def on_hook(t, name, data):
            if obs.frozen:
                return
            if name in flow_hooks:
                f = data
                obs.flows.setdefault(f.id, f)
                last = None
                if name == msg_hook and f.messages:
                    m = f.messages[-1]
                    last = (bool(m.from_client), bytes(m.content))
                s = obs.ev("hook", name, len(f.messages), last, f.error.msg if f.error else None)
                obs.hooks.append((s, t, name, f.id, len(f.messages), last, f.error.msg if f.error else None))
            elif name in ("client_connected", "client_disconnected", "server_connected", "server_disconnected",
                          "server_connect_error"):
                obs.ev("hook", name)
        w.hook_listeners.append(on_hook)

        def on_event(handler, event):
            # which events actually reached the layer stack (for violation keys only)
            if obs.frozen:
                return
            n = type(event).__name__
            if n == "OpenConnectionCompleted":
                obs.delivered.append("open_completed")
            elif n == "ConnectionClosed":
                obs.delivered.append("closed_" + ("client" if event.connection is handler.client else "server"))
        w.event_listeners.append(on_event)

        def on_write(conn, data):
            obs.ev("write", conn.kind, bytes(data))
        w.net.write_hooks.append(on_write)

        def on_close(conn):
            obs.ev("close", conn.kind)
        w.net.close_hooks.append(on_close)

        # ---- upstream ------------------------------------------------------------------------
        def planner(host, port, n, proto_):
            if connect.get("error"):
                return ConnectPlan(delay=connect.get("delay", 0.0), error=oserror(connect["error"]))

            def accept(conn):
                if obs.server is None:
                    obs.server = conn
                    server_ready.set()
            return ConnectPlan(delay=connect.get("delay", 0.0), accept=accept)
        w.net.connect_planner = planner

        od = sc.get("original_dst")
        c = w.connect_client(mode=None, peername=("192.168.1.7", 50123),
                             original_dst=tuple(od) if od else None, udp=(proto == "udp"))
        obs.client = c

        def the_flow():
            for f in obs.flows.values():
                return f
            return None

        # ---- the timeline ----------------------------------------------------------------------
        for i, op in enumerate(sc.get("ops", [])):
            g = op.get("gap", 0) or 0
            if g > 0:
                await asyncio.sleep(g)
            who, what = op["who"], op["op"]
            status = "ok"
            if who == "idle":
                obs.ev("idle_start")
                await asyncio.sleep(op.get("t", 21.0))
                obs.op_log.append((i, round(loop.time(), 6), who, what, status))
                continue
            if who == "addon":
                f = the_flow()
                if f is None:
                    status = "noflow"
                else:
                    cmd = "inject.tcp" if proto == "tcp" else "inject.udp"
                    w.master.commands.call(cmd, f, bool(op["to_client"]), B(op["data"]))
                obs.op_log.append((i, round(loop.time(), 6), who, what, status))
                continue
            if who == "server":
                if obs.server is None:
                    try:
                        await asyncio.wait_for(server_ready.wait(), 3.0)
                    except asyncio.TimeoutError:
                        pass
                conn = obs.server
                if conn is None:
                    obs.op_log.append((i, round(loop.time(), 6), who, what, "noserver"))
                    continue
            else:
                conn = c
            if proto == "tcp":
                if what == "send":
                    if conn.peer_eof or conn.peer_reset:
                        status = "closed"
                    else:
                        obs.ev("peer_send", conn.kind, len(op["data"]))
                        conn.feed(B(op["data"]))
                elif what == "fin":
                    if conn.peer_eof or conn.peer_reset:
                        status = "closed"
                    else:
                        if pending_msg_hooks["n"]:
                            obs.pending_at_close += 1
                        conn.send_eof()
                        conn.fin_at = (obs.ev("peer_fin", conn.kind), loop.time())
                elif what == "rst":
                    if conn.peer_reset:
                        status = "closed"
                    else:
                        conn.reset()
                        conn.rst_at = (obs.ev("peer_rst", conn.kind), loop.time())
                else:
                    raise ValueError(what)
            else:
                if what == "send":
                    if conn.peer_closed or conn._closing:
                        status = "closed"
                    else:
                        fault = op.get("fault")
                        copies = 0 if fault == "loss" else (2 if fault == "dup" else 1)
                        if fault:
                            w.net.fired("udp_" + fault)
                        for _ in range(copies):
                            obs.ev("peer_send", conn.kind, len(op["data"]))
                            conn.feed(B(op["data"]))
                elif what == "close":
                    if conn.peer_closed or conn._closing:
                        status = "closed"
                    else:
                        if pending_msg_hooks["n"]:
                            obs.pending_at_close += 1
                        conn.peer_close()
                        conn.closed_at = (obs.ev("peer_close", conn.kind), loop.time())
                else:
                    raise ValueError(what)
            obs.op_log.append((i, round(loop.time(), 6), who, what, status))

        await asyncio.sleep(sc.get("settle", 30.0))
        # freeze the observation here: what follows is the teardown of the world, not part of the history
        obs.frozen = True
        obs.client = PeerView(c, proto)
        obs.server = PeerView(obs.server, proto) if obs.server is not None else None
        obs.notes = list(w.net.notes)
        obs.final = {fid: [(bool(m.from_client), bytes(m.content)) for m in f.messages] for fid, f in obs.flows.items()}
        obs.handler_done = c.task.done()
        obs.pending_hooks = [s[1] for s in w.hook_spans if s[3] is None]
        obs.sim_s = loop.time()
        return obs

    _, w = W.run_world(body, eager=sc.get("eager", False), seed=sc.get("seed", 0),
                       options=dict(sc.get("options", {})), modes=sc.get("modes"), keep_log=keep_log,
                       max_iterations=sc.get("max_iterations", 400_000))
    obs.world = w
    return obs
