"""WebSocket peers + executor for property C28 (messages relayed exactly once, exact content).

* The client and the origin are ``wsproto`` endpoints (HTTP/1.1 Upgrade handshake incl.
  permessage-deflate negotiation, frame serialisation, compression).  They are scripted:
  after the handshake each follows its own timeline of operations and never reacts.
* What each peer RECEIVES is decoded by ``FrameReader`` below -- an independent RFC 6455
  frame parser + RFC 7692 inflater written for this check (the peer's wsproto object is
  fed as well, as a cross-check for protocol errors).
* A third timeline injects messages through the ``inject.websocket`` command; ``rules``
  drive the ``websocket_message`` hook (latency, edits, drops).

The module only drives and records; the oracle is in ``props/c28.py``.
"""
from __future__ import annotations

import asyncio
import struct
import zlib

from wsproto import ConnectionType, WSConnection
from wsproto import events as wsev
from wsproto.extensions import PerMessageDeflate
from wsproto.frame_protocol import CloseReason, Opcode

from simkit import world as W
from simkit.net import ConnectPlan


def B(s) -> bytes:
    return s.encode("latin-1") if isinstance(s, str) else bytes(s)


def S(b) -> str:
    return bytes(b).decode("latin-1")


# -------------------------------------------------------------------------------------------
# independent receiver
# -------------------------------------------------------------------------------------------
class FrameReader:
    """RFC 6455 section 5.2 frame parser, message reassembly and RFC 7692 decompression."""

    def __init__(self, expect_masked: bool, deflate: bool):
        self.buf = bytearray()
        self.expect_masked = expect_masked
        self.deflate = deflate
        self.inflater = zlib.decompressobj(-15) if deflate else None
        self.items: list = []    # ("msg", kind, content, frag_lens, compressed, t) | ("ping"|"pong", payload, t) | ("close", code, reason, t)
        self.cur = None          # [kind, [fragments], compressed]
        self.errors: list = []
        self.closed = False

    def feed(self, data: bytes, t: float):
        self.buf += data
        while True:
            fr = self._frame()
            if fr is None:
                return
            self._on_frame(*fr, t)

    def _frame(self):
        b = self.buf
        if len(b) < 2:
            return None
        fin, rsv1, rsv23, opcode = b[0] >> 7, (b[0] >> 6) & 1, (b[0] >> 4) & 3, b[0] & 0x0F
        masked, ln = b[1] >> 7, b[1] & 0x7F
        pos = 2
        if ln == 126:
            if len(b) < 4:
                return None
            ln = struct.unpack("!H", b[2:4])[0]
            pos = 4
        elif ln == 127:
            if len(b) < 10:
                return None
            ln = struct.unpack("!Q", b[2:10])[0]
            pos = 10
        key = None
        if masked:
            if len(b) < pos + 4:
                return None
            key = bytes(b[pos:pos + 4])
            pos += 4
        if len(b) < pos + ln:
            return None
        payload = bytes(b[pos:pos + ln])
        del b[:pos + ln]
        if key is not None:
            payload = bytes(x ^ key[i & 3] for i, x in enumerate(payload))
        if bool(masked) != self.expect_masked:
            self.errors.append("masking")
        if rsv23:
            self.errors.append("rsv23")
        return fin, rsv1, opcode, payload

    def _on_frame(self, fin, rsv1, opcode, payload, t):
        if self.closed:
            self.errors.append("frame_after_close")
        if opcode >= 8:
            if not fin or len(payload) > 125 or rsv1:
                self.errors.append("bad_control_frame")
            if opcode == 9:
                self.items.append(("ping", payload, t))
            elif opcode == 10:
                self.items.append(("pong", payload, t))
            elif opcode == 8:
                self.closed = True
                if len(payload) >= 2:
                    self.items.append(("close", struct.unpack("!H", payload[:2])[0], payload[2:], t))
                else:
                    self.items.append(("close", None, b"", t))
            else:
                self.errors.append("unknown_opcode")
            return
        if opcode in (1, 2):
            if self.cur is not None:
                self.errors.append("new_message_inside_message")
            if rsv1 and not self.deflate:
                self.errors.append("rsv1_without_extension")
            self.cur = ["text" if opcode == 1 else "binary", [], bool(rsv1)]
        elif opcode == 0:
            if self.cur is None:
                self.errors.append("continuation_without_message")
                return
            if rsv1:
                self.errors.append("rsv1_on_continuation")
        else:
            self.errors.append("unknown_opcode")
            return
        if self.cur[2]:
            try:
                out = self.inflater.decompress(payload)
                if fin:
                    out += self.inflater.decompress(b"\x00\x00\xff\xff")
            except zlib.error:
                self.errors.append("inflate")
                out = b""
        else:
            out = payload
        self.cur[1].append(out)
        if fin:
            kind, frags, comp = self.cur
            self.cur = None
            content = b"".join(frags)
            if kind == "text":
                try:
                    content.decode("utf-8")
                except UnicodeDecodeError:
                    self.errors.append("invalid_utf8_text")
            self.items.append(("msg", kind, content, [len(f) for f in frags], comp, t))


def split_http(log):
    """[(t, bytes)] -> (head bytes, [(t, bytes)] after the blank line)."""
    acc = b""
    for i, (t, d) in enumerate(log):
        acc += d
        k = acc.find(b"\r\n\r\n")
        if k >= 0:
            rest = acc[k + 4:]
            out = [(t, rest)] if rest else []
            out += list(log[i + 1:])
            return acc[:k + 4], out
    return acc, []


# -------------------------------------------------------------------------------------------
# edits an addon may make
# -------------------------------------------------------------------------------------------
def apply_edit(kind: str, content: bytes, e: dict) -> bytes:
    k = e["k"]
    if kind == "text":
        # (surrogateescape: if mitmproxy handed us a text message that is not UTF-8 we keep its bytes as they are)
        s = content.decode("utf-8", "surrogateescape")
        if k == "swapcase":              # ASCII only: keeps every byte position
            return "".join(ch.swapcase() if ch.isascii() else ch for ch in s).encode("utf-8", "surrogateescape")
        if k == "rotate":                # same characters, same total byte length, shifted char boundaries
            n = e.get("n", 1) % len(s) if s else 0
            return (s[n:] + s[:n]).encode("utf-8", "surrogateescape")
        if k == "append":
            return (s + e.get("v", "+é世\U0001f600")).encode("utf-8", "surrogateescape")
        if k == "truncate":
            return s[: len(s) // 2].encode("utf-8", "surrogateescape")
        if k == "empty":
            return b""
        if k == "replace":
            return B(e["v"])           # valid UTF-8 bytes (latin-1 armoured) chosen by the generator
        raise ValueError(k)
    if k in ("swapcase", "rotate"):
        n = e.get("n", 1) % len(content) if content else 0
        return content[n:] + content[:n]
    if k == "append":
        return content + b"+tail\x00\xff"
    if k == "truncate":
        return content[: len(content) // 2]
    if k == "empty":
        return b""
    if k == "replace":
        return B(e["v"])
    raise ValueError(k)


class Obs:
    def __init__(self):
        self.world = None
        self.frozen = False
        self.seq = 0
        self.events: list = []     # abstract log: (t, what, ...)
        self.sent = {"client": [], "server": []}   # what each peer put on the wire, in order
        self.rx = {"client": None, "server": None}  # FrameReader per peer (filled at quiescence)
        self.peer_errors: list = []
        self.hooks: list = []      # (seq, t, name, n_messages)
        self.first_sight: dict = {}  # message index -> (kind, from_client, content, injected, t) as first seen by an addon
        self.applied: list = []
        self.injected: list = []   # (t, to_client, is_text, data, status)
        self.recorded: list = []   # final flow.websocket.messages
        self.close_info = None
        self.closers: list = []    # (t, who, "close"|"fin", code, reason)
        self.flow = None
        self.deflate = False
        self.ext_params = None
        self.handshake_ok = False
        self.sim_s = 0.0
        self.pending_hooks: list = []
        self.conn = {}

    def ev(self, *item):
        if self.frozen:
            return
        self.seq += 1
        self.events.append((round(self.world.loop.time(), 6),) + item)


def _pmd(spec):
    if not spec:
        return []
    return [PerMessageDeflate(client_no_context_takeover=bool(spec.get("cnct")),
                              client_max_window_bits=spec.get("cbits"),
                              server_no_context_takeover=bool(spec.get("snct")),
                              server_max_window_bits=spec.get("sbits"))]


def run(sc, *, keep_log=False) -> Obs:
    obs = Obs()
    rules = [dict(r) for r in sc.get("rules", [])]
    hs = sc.get("handshake", {})

    async def body(w):
        obs.world = w
        loop = w.loop
        counters = {"n": 0}
        server_up = asyncio.Event()
        state = {"flow": None}

        # ---- addon behaviour (first addon) -------------------------------------------------------
        def policy(name, data):
            if name != "websocket_message":
                return None
            f = data
            idx = len(f.websocket.messages) - 1
            m = f.websocket.messages[idx]
            kind = "text" if m.type == Opcode.TEXT else "binary"
            obs.first_sight[idx] = (kind, bool(m.from_client), bytes(m.content), bool(m.injected), loop.time())
            n = counters["n"]
            counters["n"] += 1
            rule = next((r for r in rules if r.get("nth") == n), None)
            if rule is None:
                return None
            lat = rule.get("latency", 0) or 0
            act = rule.get("action", "pass")
            obs.applied.append((n, lat, act, (rule.get("edit") or {}).get("k")))

            def do():
                if act == "drop":
                    m.drop()
                elif act == "edit" and rule.get("edit"):
                    m.content = apply_edit(kind, bytes(m.content), rule["edit"])

            if lat > 0:
                async def later():
                    await asyncio.sleep(lat)
                    do()
                return later()
            do()
            return None
        w.policy = policy

        def on_hook(t, name, data):
            if obs.frozen:
                return
            if name in ("websocket_start", "websocket_message", "websocket_end"):
                if name == "websocket_start":
                    state["flow"] = data
                    obs.flow = data
                n = len(data.websocket.messages) if data.websocket else -1
                obs.seq += 1
                obs.hooks.append((obs.seq, t, name, n))
                obs.ev("hook", name, n)
        w.hook_listeners.append(on_hook)

        # ---- origin ------------------------------------------------------------------------------
        ws_s = WSConnection(ConnectionType.SERVER)

        async def origin(conn):
            buf_seen = 0
            while True:
                d = conn.take()
                if d:
                    ws_s.receive_data(d)
                    got = [e for e in ws_s.events()]
                    req = next((e for e in got if isinstance(e, wsev.Request)), None)
                    if req is not None:
                        break
                if conn.rx_eof:
                    return
                await conn.wait_change(30.0)
            out = ws_s.send(wsev.AcceptConnection(extensions=_pmd(hs.get("server_deflate"))))
            await conn.send(out, cuts=hs.get("resp_cuts", ()), gaps=hs.get("resp_gaps", ()))
            obs.conn["server"] = conn
            server_up.set()
            await actor("server", conn, ws_s, sc.get("server", {}).get("ops", []))

        def planner(host, port, n, proto):
            def accept(conn):
                t = loop.create_task(origin(conn), name=f"sim-origin-{conn.id}")
                conn.peer_task = t
                obs.origin_task = t
            return ConnectPlan(delay=hs.get("connect_delay", 0.0), accept=accept)
        w.net.connect_planner = planner

        # ---- sending -----------------------------------------------------------------------------
        async def actor(who, conn, ws, ops):
            proto = ws.connection._proto
            for op in ops:
                g = op.get("gap", 0) or 0
                if g > 0:
                    await asyncio.sleep(g)
                if conn.peer_eof or conn.peer_reset or ws.connection.state.name != "OPEN":
                    break
                what = op["op"]
                if what == "msg":
                    kind = op["kind"]
                    data = B(op["data"])
                    lens = []
                    rest = len(data)
                    for ln in op.get("frames", []):
                        ln = max(0, min(int(ln), rest))
                        lens.append(ln)
                        rest -= ln
                    lens.append(rest)
                    wire = b""
                    off = 0
                    ping_after = op.get("ping_after")
                    for i, ln in enumerate(lens):
                        opcode = (Opcode.TEXT if kind == "text" else Opcode.BINARY) if i == 0 else Opcode.CONTINUATION
                        wire += bytes(proto._serialize_frame(opcode, data[off:off + ln], i == len(lens) - 1))
                        off += ln
                        if ping_after is not None and ping_after == i and i < len(lens) - 1:
                            pl = B(op.get("ping_data", "mid"))
                            wire += bytes(proto.ping(pl))
                            obs.sent[who].append({"what": "ping", "data": pl, "t0": loop.time(), "t1": None})
                    rec = {"what": "msg", "kind": kind, "data": data, "lens": lens, "t0": loop.time(), "t1": None,
                           "ping_inside": ping_after is not None and ping_after < len(lens) - 1}
                    obs.sent[who].append(rec)
                    obs.ev("send", who, "msg", kind, len(data), tuple(lens))
                    await conn.send(wire, cuts=op.get("cuts", ()), gaps=op.get("seg_gaps", ()))
                    t1 = loop.time()
                    for r_ in obs.sent[who]:
                        if r_["t1"] is None:
                            r_["t1"] = t1
                elif what in ("ping", "pong"):
                    pl = B(op.get("data", ""))
                    wire = bytes(proto.ping(pl) if what == "ping" else proto.pong(pl))
                    rec = {"what": what, "data": pl, "t0": loop.time(), "t1": None}
                    obs.sent[who].append(rec)
                    obs.ev("send", who, what, len(pl))
                    await conn.send(wire, cuts=op.get("cuts", ()), gaps=op.get("seg_gaps", ()))
                    rec["t1"] = loop.time()
                elif what == "close":
                    code = op.get("code")
                    reason = B(op.get("reason", "")).decode("utf-8") if op.get("reason") else None
                    # (wsproto recognises "no status" only by enum identity)
                    wire = ws.connection.send(wsev.CloseConnection(code=code if code is not None else CloseReason.NO_STATUS_RCVD,
                                                                   reason=reason if code is not None else None))
                    obs.closers.append((loop.time(), who, "close", code, (reason or "") if code is not None else ""))
                    obs.sent[who].append({"what": "close", "code": code, "reason": (reason or "").encode(),
                                          "t0": loop.time(), "t1": None})
                    obs.ev("send", who, "close", code, len(reason or ""))
                    await conn.send(wire, cuts=op.get("cuts", ()), gaps=op.get("seg_gaps", ()))
                    obs.sent[who][-1]["t1"] = loop.time()
                    if op.get("then_fin"):
                        conn.send_eof()
                    break
                elif what == "fin":
                    obs.closers.append((loop.time(), who, "fin", None, ""))
                    obs.ev("send", who, "fin")
                    conn.send_eof()
                    break
                else:
                    raise ValueError(what)

        async def injector(ops):
            for op in ops:
                g = op.get("gap", 0) or 0
                if g > 0:
                    await asyncio.sleep(g)
                f = state["flow"]
                status = "ok"
                if f is None:
                    status = "noflow"
                else:
                    w.master.commands.call("inject.websocket", f, bool(op["to_client"]), B(op["data"]),
                                           bool(op.get("is_text", True)))
                obs.injected.append((loop.time(), bool(op["to_client"]), bool(op.get("is_text", True)), B(op["data"]), status))
                obs.ev("inject", bool(op["to_client"]), bool(op.get("is_text", True)), len(op["data"]), status)

        # ---- client ------------------------------------------------------------------------------
        mode = (sc.get("modes") or ["regular"])[0]
        target = "http://o.test/ws" if mode == "regular" else "/ws"
        ws_c = WSConnection(ConnectionType.CLIENT)
        req = ws_c.send(wsev.Request(host="o.test", target=target, extensions=_pmd(hs.get("client_deflate"))))
        c = w.connect_client(mode=None, peername=("192.168.1.7", 50123))
        obs.conn["client"] = c
        await c.send(req, cuts=hs.get("req_cuts", ()), gaps=hs.get("req_gaps", ()))
        accepted = None
        pending_after_head = b""
        head = b""
        for _ in range(400):
            d = c.take()
            if d:
                head += d
                k = head.find(b"\r\n\r\n")
                if k >= 0:
                    ws_c.receive_data(head[:k + 4])
                    pending_after_head = head[k + 4:]
                    for e in ws_c.events():
                        if isinstance(e, wsev.AcceptConnection):
                            accepted = e
                        elif isinstance(e, wsev.RejectConnection):
                            raise W.HarnessError(f"handshake rejected: {e.status_code}")
                    break
            if c.rx_eof:
                break
            await c.wait_change(30.0)
        if accepted is None:
            raise W.HarnessError(f"websocket handshake did not complete: {bytes(head)[:200]!r}")
        obs.handshake_ok = True
        obs.deflate = any(isinstance(x, PerMessageDeflate) for x in accepted.extensions)
        obs.ev("handshake", obs.deflate)

        tasks = [loop.create_task(actor("client", c, ws_c, sc.get("client", {}).get("ops", [])), name="sim-ws-client"),
                 loop.create_task(injector(sc.get("addon", {}).get("ops", [])), name="sim-ws-injector")]
        await server_up.wait()
        tasks.append(obs.origin_task)
        done, pending = await asyncio.wait(tasks, timeout=sc.get("max_time", 300.0))
        for t in done:
            if t.exception():
                raise t.exception()
        if pending:
            raise W.HarnessError("a peer timeline did not finish")
        await asyncio.sleep(sc.get("settle", 10.0))

        # ---- freeze ------------------------------------------------------------------------------
        obs.frozen = True
        f = state["flow"]
        if f is not None and f.websocket is not None:
            wsd = f.websocket
            obs.recorded = [("text" if m.type == Opcode.TEXT else "binary", bool(m.from_client), bytes(m.content),
                             bool(m.injected), bool(m.dropped)) for m in wsd.messages]
            obs.close_info = {"closed_by_client": wsd.closed_by_client, "code": wsd.close_code, "reason": wsd.close_reason,
                              "timestamp_end": wsd.timestamp_end is not None}
        s = obs.conn.get("server")
        for who, conn, peer_ws in (("client", c, ws_c), ("server", s, ws_s)):
            if conn is None:
                continue
            _, frames_log = split_http(list(conn.rx_log))
            fr = FrameReader(expect_masked=(who == "server"), deflate=obs.deflate)
            for t, d in frames_log:
                fr.feed(d, t)
            fr.tcp_eof = conn.rx_eof
            fr.proxy_closed = conn.proxy_closed
            obs.rx[who] = fr
            # cross-check with the peer's own wsproto object
            try:
                for t, d in frames_log:
                    if peer_ws.connection.state.name in ("OPEN", "LOCAL_CLOSING"):
                        peer_ws.receive_data(d)
                        for e in peer_ws.events():
                            # a Close event that is not a Close frame on the wire = wsproto's own parse failure
                            if isinstance(e, wsev.CloseConnection) and not any(
                                    it[0] == "close" and (it[1] if it[1] is not None else 1005) == int(e.code) for it in fr.items):
                                obs.peer_errors.append((who, f"wsproto parse failure {int(e.code)}: {e.reason}"))
            except Exception as e:  # RemoteProtocolError etc.
                obs.peer_errors.append((who, f"{type(e).__name__}: {e}"))
        obs.pending_hooks = [sp[1] for sp in w.hook_spans if sp[3] is None]
        obs.handler_done = c.task.done()
        obs.sim_s = loop.time()
        return obs

    from mitmproxy.proxy.layers import websocket as mws
    old = mws.Fragmentizer.FRAGMENT_SIZE
    mws.Fragmentizer.FRAGMENT_SIZE = int(sc.get("fragment_size", old))
    try:
        _, w = W.run_world(body, eager=sc.get("eager", False), seed=sc.get("seed", 0),
                           options=dict(sc.get("options", {})), modes=sc.get("modes"), keep_log=keep_log,
                           max_iterations=sc.get("max_iterations", 400_000))
    finally:
        mws.Fragmentizer.FRAGMENT_SIZE = old
    obs.world = w
    return obs
