"""debug helper: run a replay's scenario and print wire bytes + oracle verdicts."""
import sys, json
sys.path.insert(0, '/verif')
from simkit import h1world as H, runner
d = json.load(open(sys.argv[1])); sc = d['scenario']
mod = runner.load_prop(d['property'])
print("VIOLATION:", d['violation']['class'], d['violation']['key'], d['violation']['msg'][:600])
print("cfg:", json.dumps({k: sc.get(k) for k in ('modes', 'eager', 'options', 'policy', 'faults')}))
for c in sc['clients']:
    for s in c['steps']:
        print("  step", json.dumps(s)[:700])
for k, r in sc['origins']['*'].get('replies', {}).items():
    print("  reply", k, json.dumps(r)[:500])
obs = H.run(sc, keep_log=True)
for l in obs.world.log:
    if l[1] in ('ERROR', 'WARNING', 'TRACEBACK') or 'crash' in l[2]:
        print("  log", round(l[0], 6), l[1], l[2][:1500])
print("hooks:", [(round(t, 4), n) for t, n, k, s in obs.hooks])
for c in obs.clients:
    print("client got:", c.received[:1500], "closed" if c.proxy_closed else "open")
for c in obs.servers:
    print("server", c.address, "got:", c.received[:1500])
for f in obs.flow_objs.values():
    print("flow", f.request.method, f.request.path[:40], "resp", f.response.status_code if f.response else None, "err", f.error)
