"""debug helper: run a replay file with full logging (not a registered check)."""
import sys, json
sys.path.insert(0, '/verif')
from simkit import h1world as H
from simkit import runner
d = json.load(open(sys.argv[1])); sc = d['scenario']
mod = runner.load_prop(d['property'])
print("violation:", d['violation'])
print(json.dumps({k: sc.get(k) for k in ('modes', 'eager', 'options', 'policy', 'faults')}))
for c in sc['clients']:
    print("client steps:", json.dumps(c['steps'])[:1200])
print("origins:", json.dumps(sc['origins'])[:1200])
obs = H.run(sc, keep_log=True, monitors=(mod.monitor,) if hasattr(mod, 'monitor') else ())
for l in obs.world.log:
    print("  log", round(l[0], 6), l[1], l[2][:3000])
print("hooks:", [(round(t, 6), n) for t, n, k, s in obs.hooks])
print("policy applied:", obs.policy.applied)
for c in obs.clients:
    print("client", c.id, "handler_done", c.handler_done, "proxy_closed", c.proxy_closed, "rx", c.received[:300])
for c in obs.servers:
    print("server", c.id, c.address, "proxy_closed", c.proxy_closed, "rx", c.received[:300])
print("pending hooks:", obs.pending_hooks, "leaked:", obs.leaked)
