"""Sensitivity self-test: apply every mutants/<ID>-*.patch (and seeded/<ID>-*/patch.diff) to a scratch worktree of
/repo and run the property's check against it (VERIF_REPO).  A mutant counts as caught when the check exits 1 with a
VIOLATION line (violations matched by known findings do not count).  Writes mutants/RESULTS.json.
usage: tools_sensitivity.py [ID ...] [--runs N] [--seeded]"""
import glob
import json
import os
import subprocess
import sys

ROOT = os.path.dirname(os.path.abspath(__file__))
SCRATCH = "/var/tmp/verif-sens-wt"


def sh(cmd, **kw):
    return subprocess.run(cmd, shell=True, capture_output=True, text=True, **kw)


def main():
    args = [a for a in sys.argv[1:] if not a.startswith("--")]
    runs = None
    if "--runs" in sys.argv:
        runs = sys.argv[sys.argv.index("--runs") + 1]
        args = [a for a in args if a != runs]
    seeded = "--seeded" in sys.argv
    patches = []
    if seeded:
        for d in sorted(glob.glob(os.path.join(ROOT, "seeded", "*"))):
            p = os.path.join(d, "patch.diff")
            if os.path.exists(p):
                meta = json.load(open(os.path.join(d, "meta.json")))
                patches.append((meta["property"], os.path.basename(d), p))
    else:
        for p in sorted(glob.glob(os.path.join(ROOT, "mutants", "*.patch"))):
            name = os.path.basename(p)[:-6]
            patches.append((name.split("-")[0], name, p))
    if args:
        patches = [x for x in patches if x[0] in args or x[1] in args]
    results_path = os.path.join(ROOT, "seeded" if seeded else "mutants", "RESULTS.json")
    results = json.load(open(results_path)) if os.path.exists(results_path) else {}
    sh(f"git -C /repo worktree remove --force {SCRATCH}")
    r = sh(f"git -C /repo worktree add --detach {SCRATCH} HEAD")
    if r.returncode:
        print(r.stderr)
        sys.exit(2)
    try:
        for pid, name, patch in patches:
            sh(f"git -C {SCRATCH} reset -q --hard && git -C {SCRATCH} clean -fdq")
            a = sh(f"git -C {SCRATCH} apply {patch}")
            if a.returncode:
                a = sh(f"git -C {SCRATCH} apply --3way {patch}")
                if a.returncode:
                    sh(f"git -C {SCRATCH} reset -q --hard")
            if a.returncode:
                results[name] = {"property": pid, "status": "patch_does_not_apply", "detail": a.stderr[-300:]}
                print(f"{name:60s} DOES-NOT-APPLY")
                continue
            env = dict(os.environ, VERIF_REPO=SCRATCH, VERIF_SHRINK_S="5", VERIF_EVIDENCE_DIR="/var/tmp/verif-sens-evidence")
            cmd = [os.path.join(ROOT, "vcheck"), pid, "--jobs", os.environ.get("JOBS", "12")]
            if runs:
                cmd += ["--runs", runs]
            c = subprocess.run(cmd, env=env, capture_output=True, text=True, cwd=ROOT)
            classes = sorted({l.split("class=")[1].split(" ")[0] for l in c.stdout.splitlines() if "class=" in l})
            status = {0: "MISSED", 1: "caught", 2: "harness_error"}.get(c.returncode, f"exit{c.returncode}")
            results[name] = {"property": pid, "status": status, "classes": classes[:6]}
            if c.returncode not in (0, 1):
                results[name]["detail"] = (c.stdout[-600:] + c.stderr[-600:])
            print(f"{name:60s} {status:8s} {classes[:4]}")
            for f in glob.glob(os.path.join(ROOT, "replays", f"{pid}-*.json")):
                os.remove(f)
            json.dump(results, open(results_path, "w"), indent=1, sort_keys=True)
    finally:
        sh(f"git -C /repo worktree remove --force {SCRATCH}")
    # evidence files were rewritten against mutants: they must be regenerated against /repo before committing
    print("NOTE: evidence/*.json of the touched properties now describe mutant runs; rerun the real checks.")


if __name__ == "__main__":
    main()
