"""Coordinator helper: turn replays/known/<ID>-*.json that are not referenced yet into known_findings.json entries.
A replay that still fails becomes an 'open' entry whose match is the exact violation key; one that passes becomes a
'fixed' regression entry (commit to be filled in by hand).  Never run by a check."""
import glob
import json
import os
import subprocess
import sys

ROOT = os.path.dirname(os.path.abspath(__file__))
sys.path.insert(0, ROOT)
from simkit import runner  # noqa: E402


def main():
    path = os.path.join(ROOT, "known_findings.json")
    kf = json.load(open(path))
    have = {e.get("replay") for e in kf["findings"]}
    head = subprocess.run(["git", "-C", "/repo", "rev-parse", "--short", "HEAD"], capture_output=True, text=True).stdout.strip()
    n = 0
    for pid in sys.argv[1:]:
        mod = runner.load_prop(pid)
        for f in sorted(glob.glob(os.path.join(ROOT, "replays", "known", f"{pid}-*.json"))):
            rel = os.path.relpath(f, ROOT)
            if rel in have:
                continue
            doc = json.load(open(f))
            res, herr = runner.execute_guarded(mod, doc["scenario"])
            if herr:
                print("HARNESS", rel, herr[-300:])
                continue
            want = (doc.get("violation") or {}).get("class")
            vs = res.get("violations", [])
            name = os.path.basename(f)[len(pid) + 1:-5]
            hit = [v for v in vs if want is None or v["class"] == want] or vs
            if not hit:
                kf["findings"].append({"status": "fixed", "property": pid, "id": f"{pid}-{name}", "commit": head,
                                       "class": want or "?", "replay": rel,
                                       "what": f"{name.replace('-', ' ')} (no longer reproduces at {head})"})
                print("fixed ", rel)
            else:
                seen = set()
                for v in hit:
                    sig = json.dumps(v.get("key", {}), sort_keys=True)
                    if sig in seen:
                        continue
                    seen.add(sig)
                    kf["findings"].append({"status": "open", "property": pid, "id": f"{pid}-{name}" + ("" if len(seen) == 1 else f"-{len(seen)}"),
                                           "class": v["class"], "match": v.get("key") or {"_any": None}, "replay": rel,
                                           "what": f"{name.replace('-', ' ')}: {v.get('msg', '')[:400]}"})
                    print("open  ", rel, v["class"], sig)
            n += 1
    json.dump(kf, open(path, "w"), indent=1)
    print("added", n)


if __name__ == "__main__":
    main()
