"""Run the pinned baseline suite (guard off) and compare with /root/.vp/BASELINE.json stable_pass."""
import json, subprocess, sys, os, xml.etree.ElementTree as ET
out = sys.argv[1] if len(sys.argv) > 1 else "/var/tmp/verif-baseline.junit.xml"
env = dict(os.environ); env.pop("MITMPROXY_VERIF", None)
subprocess.run(f"cd /repo && /venv/bin/python -m pytest -ra -q -p no:cacheprovider --timeout=900 --continue-on-collection-errors --junitxml={out}",
               shell=True, env=env, stdout=subprocess.DEVNULL, stderr=subprocess.DEVNULL)
base = set(json.load(open("/root/.vp/BASELINE.json"))["stable_pass"])
passed = set()
for tc in ET.parse(out).getroot().iter("testcase"):
    name = f"{tc.get('classname')}::{tc.get('name')}"
    if not any(c.tag in ("failure", "error", "skipped") for c in tc):
        passed.add(name)
missing = sorted(base - passed)
print(f"baseline stable_pass={len(base)} passed_now={len(passed)} missing={len(missing)}")
for m in missing[:20]:
    print("  MISSING", m)
sys.exit(1 if missing else 0)
