"""Coordinator tool: take an independently authored breaking change from /tmp/mut-<ID>/out, verify it (demo passes on the
unchanged tree, fails with the patch; pinned baseline suite still passes with the patch), store it as
/verif/seeded/<name>/ and run the property's check against it.  usage: tools_seeded.py <ID> [<name>] [--checks "C03 C09"]"""
import json
import os
import shutil
import subprocess
import sys
import xml.etree.ElementTree as ET

ROOT = os.path.dirname(os.path.abspath(__file__))
WT = "/var/tmp/verif-seeded-wt"


def sh(cmd, **kw):
    return subprocess.run(cmd, shell=True, capture_output=True, text=True, **kw)


def pytest_ok(tree, path):
    r = sh(f"cd {tree} && PYTHONPATH={tree} /venv/bin/python -m pytest -q -p no:cacheprovider -c {tree}/pyproject.toml --rootdir {tree} --timeout=600 {path}")
    tail = (r.stdout.strip().splitlines() or ["?"])[-1]
    return r.returncode == 0, tail


def baseline_missing(tree):
    out = "/var/tmp/verif-seeded-junit.xml"
    sh(f"cd {tree} && PYTHONPATH={tree} /venv/bin/python -m pytest -ra -q -p no:cacheprovider --timeout=900 "
       f"--continue-on-collection-errors --junitxml={out}")
    base = set(json.load(open("/root/.vp/BASELINE.json"))["stable_pass"])
    passed = set()
    for tc in ET.parse(out).getroot().iter("testcase"):
        if not any(c.tag in ("failure", "error", "skipped") for c in tc):
            passed.add(f"{tc.get('classname')}::{tc.get('name')}")
    return sorted(base - passed)


def main():
    pid = sys.argv[1]
    name = sys.argv[2] if len(sys.argv) > 2 and not sys.argv[2].startswith("--") else f"{pid}-a"
    checks = [pid]
    if "--checks" in sys.argv:
        checks = sys.argv[sys.argv.index("--checks") + 1].split()
    tag = pid if name.endswith("-a") else name.replace("-", "")
    src = f"/tmp/mut-{tag}/out"
    dst = os.path.join(ROOT, "seeded", name)
    os.makedirs(dst, exist_ok=True)
    if os.path.isdir(src):
        for f in ("patch.diff", "demo_test.py", "meta.json"):
            shutil.copy(os.path.join(src, f), os.path.join(dst, f))
    meta = json.load(open(os.path.join(dst, "meta.json")))
    sh(f"git -C /repo worktree remove --force {WT}")
    r = sh(f"git -C /repo worktree add --detach {WT} HEAD")
    assert r.returncode == 0, r.stderr
    try:
        ok_clean, t1 = pytest_ok(WT, os.path.join(dst, "demo_test.py"))
        a = sh(f"git -C {WT} apply {dst}/patch.diff")
        assert a.returncode == 0, a.stderr
        ok_mut, t2 = pytest_ok(WT, os.path.join(dst, "demo_test.py"))
        missing = baseline_missing(WT)
        ver = {"repo_rev": sh("git -C /repo rev-parse --short HEAD").stdout.strip(),
               "demo_on_unchanged_tree": "pass" if ok_clean else f"FAIL ({t1})",
               "demo_with_patch": "fail" if not ok_mut else f"PASSES ({t2})",
               "baseline_stable_tests_missing_with_patch": missing[:5], "baseline_ok": not missing}
        results = {}
        for c in checks:
            env = dict(os.environ, VERIF_REPO=WT, VERIF_SHRINK_S="5", VERIF_EVIDENCE_DIR="/var/tmp/verif-sens-evidence")
            p = subprocess.run([os.path.join(ROOT, "vcheck"), c, "--jobs", os.environ.get("JOBS", "12")], env=env,
                               capture_output=True, text=True, cwd=ROOT)
            classes = sorted({l.split("class=")[1].split(" ")[0] for l in p.stdout.splitlines() if "class=" in l})
            results[c] = {"exit": p.returncode, "classes": classes[:6]}
            for f in os.listdir(os.path.join(ROOT, "replays")):
                if f.startswith(c + "-") and f.endswith(".json"):
                    os.remove(os.path.join(ROOT, "replays", f))
        ver["checks_run"] = {c: ("caught" if v["exit"] == 1 else "MISSED" if v["exit"] == 0 else "harness_error") + f" {v['classes']}"
                             for c, v in results.items()}
        meta["coordinator_verification"] = ver
        json.dump(meta, open(os.path.join(dst, "meta.json"), "w"), indent=1)
        print(name, json.dumps(ver, indent=1))
    finally:
        sh(f"git -C /repo worktree remove --force {WT}")
        sh(f"git -C /repo worktree remove --force /tmp/mut-{tag}")


if __name__ == "__main__":
    main()
