"""Coordinator helper (not a check): apply a reviewed repair from /var/tmp/fixes/<name>.patch to /repo as one `fix:` commit.
usage: tools_applyfix.py <patch-name> <finding-id>[,<finding-id>...]
Steps: git apply --check; apply; run the pinned baseline (tools_baseline.py); replay the findings' known replays (must no
longer show their violation class); commit with the message in <patch-name>.msg; mark the findings fixed in
known_findings.json.  On any failure the patch is reverted and nothing is recorded."""
import json
import os
import subprocess
import sys

ROOT = os.path.dirname(os.path.abspath(__file__))
FIXES = "/var/tmp/fixes"


def sh(cmd, **kw):
    return subprocess.run(cmd, shell=True, capture_output=True, text=True, **kw)


def main():
    name = sys.argv[1]
    ids = sys.argv[2].split(",") if len(sys.argv) > 2 else [name]
    patch = os.path.join(FIXES, name + ".patch")
    msg = open(os.path.join(FIXES, name + ".msg")).read().strip()
    assert msg.startswith("fix:"), msg[:40]
    st = sh("git -C /repo status --porcelain").stdout.strip()
    assert not st, "repo dirty: " + st
    a = sh(f"git -C /repo apply --check {patch}")
    if a.returncode:
        print("DOES NOT APPLY", a.stderr[-400:])
        sys.exit(1)
    sh(f"git -C /repo apply {patch}")
    ok = True
    if os.environ.get("SKIP_BASELINE"):
        # the caller runs tools_baseline.py once after a batch of patches that were tested together by their author
        last = "baseline skipped (batch mode)"
    else:
        b = sh(f"/venv/bin/python {ROOT}/tools_baseline.py")
        last = b.stdout.strip().splitlines()[-1] if b.stdout.strip() else b.stderr[-300:]
        if "missing=0" not in last:
            ok = False
    print(last)
    kf = json.load(open(os.path.join(ROOT, "known_findings.json")))
    todo = [e for e in kf["findings"] if e["id"] in ids and e["status"] == "open"]
    if ok:
        for e in todo:
            r = sh(f"{ROOT}/vcheck replay {ROOT}/{e['replay']}", cwd=ROOT)
            classes = e["class"] if isinstance(e["class"], list) else [e["class"]]
            still = [c for c in classes if f"violation class={c} " in r.stdout]
            print(e["property"], e["id"], "still:" if still else "gone", still, r.stdout.strip().splitlines()[-1][:160])
            if still:
                ok = False
    if not ok:
        sh("git -C /repo checkout -- . && git -C /repo clean -fdq")
        print("REVERTED")
        sys.exit(1)
    with open("/var/tmp/fixes/.commitmsg", "w") as f:
        f.write(msg + "\n")
    c = sh("git -C /repo commit -qa -F /var/tmp/fixes/.commitmsg")
    assert c.returncode == 0, c.stderr
    h = sh("git -C /repo rev-parse --short HEAD").stdout.strip()
    for e in todo:
        e["status"] = "fixed"
        e["commit"] = h
        e.pop("match", None)
    with open(os.path.join(ROOT, "known_findings.json"), "w") as f:
        json.dump(kf, f, indent=1, ensure_ascii=False)
        f.write("\n")
    print("COMMITTED", h, [e["id"] for e in todo])


if __name__ == "__main__":
    main()
