"""Coordinator helper: summarise seeded/<id>/meta.json into seeded/RESULTS.json and a markdown table (stdout).
Not a check."""
import glob
import json
import os

ROOT = os.path.dirname(os.path.abspath(__file__))


def main():
    rows = []
    for d in sorted(glob.glob(os.path.join(ROOT, "seeded", "*", "meta.json"))):
        m = json.load(open(d))
        name = os.path.basename(os.path.dirname(d))
        cv = m.get("coordinator_verification", {})
        rows.append({"id": name, "property": m.get("property"), "summary": m.get("summary", ""), "needs": m.get("needs", ""),
                     "files_changed": m.get("files_changed"), "repo_rev": cv.get("repo_rev"),
                     "demo_on_unchanged_tree": cv.get("demo_on_unchanged_tree"), "demo_with_patch": cv.get("demo_with_patch"),
                     "baseline_ok": cv.get("baseline_ok"), "checks_run": cv.get("checks_run", {}),
                     "note": m.get("coordinator_note")})
    json.dump(rows, open(os.path.join(ROOT, "seeded", "RESULTS.json"), "w"), indent=1)
    print("| seeded change | what was changed (author's summary, shortened) | caught by |")
    print("|---|---|---|")
    for r in rows:
        s = r["summary"].replace("|", "/").replace("\n", " ")
        s = s if len(s) < 230 else s[:227] + "..."
        c = "; ".join(f"{k}: {v}" for k, v in r["checks_run"].items()).replace("|", "/")
        print(f"| {r['id']} | {s} | {c} |")


if __name__ == "__main__":
    main()
