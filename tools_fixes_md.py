"""Coordinator helper (not a check): write FIXES.md = every `fix:` commit in /repo with the known findings it repaired,
followed by the findings that are still open."""
import json
import os
import subprocess

ROOT = os.path.dirname(os.path.abspath(__file__))
log = subprocess.run("git -C /repo log --reverse --format='%h %s'", shell=True, capture_output=True, text=True).stdout.splitlines()
fixes = [l.split(" ", 1) for l in log if l.split(" ", 1)[1].startswith("fix:")]
kf = json.load(open(os.path.join(ROOT, "known_findings.json")))["findings"]
by_commit = {}
for e in kf:
    if e["status"] == "fixed":
        for h in str(e.get("commit", "")).split():
            by_commit.setdefault(h[:9], []).append(f"{e['property']}/{e['id']}")
out = ["# Repairs made in /repo", "",
       f"{len(fixes)} `fix:` commits on top of the pinned tree; each is minimal, unguarded, and the pinned 2000-test suite passes "
       "with it (`tools_baseline.py`).  The second column lists the recorded findings (property/id in `known_findings.json`, "
       "each with a replay under `replays/known/` that reproduced before the commit and must not reproduce now).", "",
       "| commit | subject | findings repaired |", "|---|---|---|"]
for h, s in fixes:
    ids = sorted(set(by_commit.get(h[:9], [])))
    out.append(f"| {h} | {s[5:].strip()} | {', '.join(ids)} |")
op = [e for e in kf if e["status"] == "open"]
out += ["", f"# Findings still open ({len(op)})", "",
        "Genuine defects that were recorded rather than repaired (the repair is not small, needs a dependency to change, or "
        "an existing test pins the current behaviour).  Each check prints `KNOWN-FINDING` for them and exits 0.", "",
        "| property | id | what fails |", "|---|---|---|"]
for e in op:
    out.append(f"| {e['property']} | {e['id']} | {e['what'][:300].replace('|', '/').replace(chr(10), ' ')} |")
open(os.path.join(ROOT, "FIXES.md"), "w").write("\n".join(out) + "\n")
print(len(fixes), "fix commits,", len(op), "open")
