"""Seeded batch runner: search, known findings, shrinking, replay, evidence."""
from __future__ import annotations

import concurrent.futures as cf
import copy
import faulthandler
import importlib
import json
import multiprocessing
import os
import signal
import subprocess
import sys
import time
import traceback

from . import rng as _rng

ROOT = os.path.dirname(os.path.dirname(os.path.abspath(__file__)))
REAL_PERF = time.perf_counter
PER_RUN_WALL_S = 60


class RunTimeout(BaseException):
    pass


def _alarm(signum, frame):
    raise RunTimeout()


def load_prop(pid: str):
    return importlib.import_module(f"props.{pid.lower()}")


def repo_rev() -> str:
    try:
        r = subprocess.run(["git", "-C", os.environ.get("VERIF_REPO", "/repo"), "rev-parse", "--short", "HEAD"],
                           capture_output=True, text=True, timeout=20).stdout.strip()
        d = subprocess.run(["git", "-C", os.environ.get("VERIF_REPO", "/repo"), "status", "--porcelain", "--untracked-files=no"],
                           capture_output=True, text=True, timeout=20).stdout.strip()
        return r + ("+dirty" if d else "")
    except Exception:
        return "unknown"


# ---------------------------------------------------------------------------
# known findings
# ---------------------------------------------------------------------------
def load_findings(pid: str):
    path = os.path.join(ROOT, "known_findings.json")
    if not os.path.exists(path):
        return []
    data = json.load(open(path))
    out = []
    for e in data.get("findings", []):
        if e.get("property") != pid:
            continue
        if e.get("status") == "open" and not e.get("match"):
            raise SystemExit(f"HARNESS-ERROR known_findings entry without match predicate: {e}")
        out.append(e)
    return out


def _match_value(pat, val):
    if isinstance(pat, dict) and "re" in pat:
        import re
        return isinstance(val, str) and re.search(pat["re"], val) is not None
    if isinstance(pat, dict) and "in" in pat:
        return val in pat["in"]
    return pat == val


def _class_match(entry, cls):
    c = entry.get("class")
    return cls in c if isinstance(c, list) else c == cls


def finding_for(violation: dict, findings: list):
    for e in findings:
        if e.get("status") != "open":
            continue
        if not _class_match(e, violation.get("class")):
            continue
        key = violation.get("key", {})
        if all(_match_value(p, key.get(k)) for k, p in e["match"].items()):
            return e
    return None


# ---------------------------------------------------------------------------
# single execution (with wall-clock guard)
# ---------------------------------------------------------------------------
def execute_guarded(mod, scenario):
    """Returns (result | None, harness_error | None)."""
    old = signal.signal(signal.SIGALRM, _alarm)
    signal.setitimer(signal.ITIMER_REAL, PER_RUN_WALL_S)
    try:
        res = mod.execute(scenario)
        return res, None
    except RunTimeout:
        if getattr(mod, "TIMEOUT_IS_VIOLATION", False):
            return {"violations": [{"class": "hang", "key": {}, "msg": f"no result within {PER_RUN_WALL_S}s wall"}],
                    "digest": "hang", "nontrivial": False}, None
        return None, f"run exceeded {PER_RUN_WALL_S}s wall clock"
    except Exception:
        return None, traceback.format_exc()
    finally:
        signal.setitimer(signal.ITIMER_REAL, 0)
        signal.signal(signal.SIGALRM, old)


def _worker_chunk(args):
    pid, master_seed, tier, start, stop, want_digests = args
    sys.setrecursionlimit(10000)
    mod = load_prop(pid)
    agg = {"n": 0, "digests": set(), "nontrivial": set(), "faults": {}, "probes": {}, "sim_s": 0.0,
           "violations": [], "harness": [], "samples": [], "states": set(), "fault_free": 0,
           "by_index": {}, "families": {}, "sig_counts": {}}
    for i in range(start, stop):
        seed = _rng.run_seed(master_seed, pid, i)
        try:
            sc = mod.generate(_rng.KeyedRng(seed), tier)
        except Exception:
            agg["harness"].append({"index": i, "seed": seed, "error": "generate: " + traceback.format_exc()})
            continue
        sc.setdefault("seed", seed)
        res, herr = execute_guarded(mod, sc)
        if herr is not None:
            agg["harness"].append({"index": i, "seed": seed, "error": herr, "scenario": sc})
            if len(agg["harness"]) > 5:
                break
            continue
        agg["n"] += 1
        d = res.get("digest", "")
        agg["digests"].add(d)
        if res.get("nontrivial"):
            agg["nontrivial"].add(d)
        if want_digests:
            agg["by_index"][i] = d
        ff = res.get("faults", {})
        if not ff:
            agg["fault_free"] += 1
        for k, v in ff.items():
            agg["faults"][k] = agg["faults"].get(k, 0) + v
        for k, v in res.get("probes", {}).items():
            agg["probes"][k] = agg["probes"].get(k, 0) + v
        fam = sc.get("family")
        if fam:
            agg["families"][fam] = agg["families"].get(fam, 0) + 1
        agg["sim_s"] += res.get("sim_s", 0.0)
        st = res.get("states")
        if st:
            agg["states"].update(st)
        if len(agg["samples"]) < 1 and res.get("nontrivial"):
            agg["samples"].append(sc)
        for v in res.get("violations", []):
            sig = v.get("class", "") + "|" + json.dumps(v.get("key", {}), sort_keys=True)
            agg["sig_counts"][sig] = agg["sig_counts"].get(sig, 0) + 1
            # keep a few witnesses per signature; all occurrences are counted
            if agg["sig_counts"][sig] <= 2 and len(agg["violations"]) < 60:
                agg["violations"].append({"index": i, "seed": seed, "scenario": sc, "violation": v})
    return agg


# ---------------------------------------------------------------------------
# shrinking
# ---------------------------------------------------------------------------
SHRINK_LIST_KEYS = {"steps", "faults", "policy", "requests", "messages", "ops", "actors", "cuts", "gaps",
                    "streams", "frames", "headers", "flows", "rules", "clients", "events", "origin_cuts",
                    "extra_headers", "replies", "datagrams", "records", "chunks", "edits"}
ZERO_KEYS = {"gap", "latency", "delay", "after", "connect_delay", "think", "jitter"}


def _paths(obj, path=()):
    if isinstance(obj, dict):
        for k, v in obj.items():
            yield from _paths(v, path + (k,))
    elif isinstance(obj, list):
        yield path, obj
        for i, v in enumerate(obj):
            yield from _paths(v, path + (i,))


def _get(obj, path):
    for p in path:
        obj = obj[p]
    return obj


def _set(obj, path, val):
    for p in path[:-1]:
        obj = obj[p]
    obj[path[-1]] = val


def generic_candidates(sc):
    # 1. drop list elements (largest chunks first)
    for path, lst in list(_paths(sc)):
        if not path or not isinstance(path[-1], str) or path[-1] not in SHRINK_LIST_KEYS:
            continue
        n = len(lst)
        if n == 0:
            continue
        size = n
        while size >= 1:
            for s in range(0, n, size):
                c = copy.deepcopy(sc)
                l2 = _get(c, path)
                del l2[s:s + size]
                yield c
            size //= 2
    # 2. zero scalar timing knobs
    def scal(obj, path=()):
        if isinstance(obj, dict):
            for k, v in obj.items():
                if k in ZERO_KEYS and isinstance(v, (int, float)) and v != 0:
                    yield path + (k,)
                else:
                    yield from scal(v, path + (k,))
        elif isinstance(obj, list):
            for i, v in enumerate(obj):
                yield from scal(v, path + (i,))
    for p in list(scal(sc)):
        c = copy.deepcopy(sc)
        _set(c, p, 0)
        yield c


def shrink(mod, scenario, vclass, budget_s=90, max_execs=400, vkey=None):
    def fails(sc):
        res, herr = execute_guarded(mod, sc)
        if herr is not None or res is None:
            return None
        for v in res.get("violations", []):
            if v.get("class") == vclass and (vkey is None or v.get("key", {}) == vkey):
                return v
        return None

    best = scenario
    t0 = REAL_PERF()
    execs = 0
    improved = True
    while improved and REAL_PERF() - t0 < budget_s and execs < max_execs:
        improved = False
        gens = []
        if hasattr(mod, "shrink_candidates"):
            gens.append(mod.shrink_candidates(best))
        gens.append(generic_candidates(best))
        for g in gens:
            for cand in g:
                if REAL_PERF() - t0 > budget_s or execs >= max_execs:
                    break
                if cand == best:
                    continue
                execs += 1
                if fails(cand) is not None:
                    best = cand
                    improved = True
                    break
            if improved:
                break
    return best, execs


# ---------------------------------------------------------------------------
# replay files
# ---------------------------------------------------------------------------
def write_replay(pid, item, minimized, tag=None):
    os.makedirs(os.path.join(ROOT, "replays"), exist_ok=True)
    v = item["violation"]
    name = f"{pid}-{v['class']}-{item['seed']}.json" if tag is None else tag
    path = os.path.join(ROOT, "replays", name)
    doc = {"format": 1, "property": pid, "seed": item["seed"], "index": item.get("index"),
           "violation": v, "repo_rev": repo_rev(), "scenario": minimized,
           "original_scenario": item["scenario"] if minimized != item["scenario"] else None}
    with open(path, "w") as f:
        json.dump(doc, f, indent=1, sort_keys=True, default=_json_default)
    return os.path.relpath(path, ROOT)


def _json_default(o):
    if isinstance(o, (bytes, bytearray)):
        return {"__bytes__": bytes(o).decode("latin1")}
    if isinstance(o, set):
        return sorted(o)
    return repr(o)


def replay(path):
    doc = json.load(open(path))
    pid = doc["property"]
    mod = load_prop(pid)
    res, herr = execute_guarded(mod, doc["scenario"])
    if herr:
        print("HARNESS-ERROR during replay:\n" + herr)
        return 2
    want = doc.get("violation", {}).get("class")
    wkey = doc.get("violation", {}).get("key")
    got = [v for v in res.get("violations", [])]
    rev = repo_rev()
    if doc.get("repo_rev") and doc["repo_rev"] != rev:
        print(f"NOTE: replay recorded at repo {doc['repo_rev']}, running on {rev}")
    print(f"digest={res.get('digest')}")
    for v in got:
        print(f"  violation class={v['class']} key={json.dumps(v.get('key', {}), sort_keys=True)} :: {v.get('msg', '')}")
    if any(v["class"] == want and (wkey is None or v.get("key", {}) == wkey) for v in got) or (want is None and got):
        print(f"REPRODUCED class={want}")
        print(f"VIOLATION property={pid} replay={path}")
        return 1
    print(f"NOT-REPRODUCED (wanted class={want}; got {[v['class'] for v in got]})")
    return 0


# ---------------------------------------------------------------------------
# main check
# ---------------------------------------------------------------------------
def _pool(jobs):
    ctx = multiprocessing.get_context("fork")
    return cf.ProcessPoolExecutor(max_workers=jobs, mp_context=ctx)


def run_batch(pid, master_seed, tier, n_runs, budget_s, jobs, want_digests=False, chunk=None):
    """Run indices [0, n_runs) (stopping early when budget_s is exhausted)."""
    mod = load_prop(pid)
    chunk = chunk or getattr(mod, "CHUNK", 100)
    t0 = REAL_PERF()
    total = {"n": 0, "digests": set(), "nontrivial": set(), "faults": {}, "probes": {}, "sim_s": 0.0,
             "violations": [], "harness": [], "samples": [], "states": set(), "fault_free": 0,
             "by_index": {}, "families": {}, "planned": n_runs, "sig_counts": {}}
    next_start = 0
    pending = set()
    with _pool(jobs) as ex:
        def submit():
            nonlocal next_start
            while len(pending) < jobs * 2 and next_start < n_runs and REAL_PERF() - t0 < budget_s:
                stop = min(n_runs, next_start + chunk)
                pending.add(ex.submit(_worker_chunk, (pid, master_seed, tier, next_start, stop, want_digests)))
                next_start = stop
        submit()
        while pending:
            done, _ = cf.wait(pending, timeout=PER_RUN_WALL_S * 3 + 600, return_when=cf.FIRST_COMPLETED)
            if not done:
                total["harness"].append({"error": "worker pool stalled"})
                for p in pending:
                    p.cancel()
                break
            for f in done:
                pending.discard(f)
                try:
                    a = f.result()
                except Exception:
                    total["harness"].append({"error": "worker died: " + traceback.format_exc()})
                    continue
                total["n"] += a["n"]
                total["digests"] |= a["digests"]
                total["nontrivial"] |= a["nontrivial"]
                total["states"] |= a["states"]
                total["sim_s"] += a["sim_s"]
                total["fault_free"] += a["fault_free"]
                for k, v in a["faults"].items():
                    total["faults"][k] = total["faults"].get(k, 0) + v
                for k, v in a["probes"].items():
                    total["probes"][k] = total["probes"].get(k, 0) + v
                for k, v in a["families"].items():
                    total["families"][k] = total["families"].get(k, 0) + v
                for k, v in a["sig_counts"].items():
                    total["sig_counts"][k] = total["sig_counts"].get(k, 0) + v
                if len(total["violations"]) < 3000:
                    total["violations"].extend(a["violations"])
                total["harness"].extend(a["harness"])
                total["by_index"].update(a["by_index"])
                if len(total["samples"]) < 3:
                    total["samples"].extend(a["samples"][: 3 - len(total["samples"])])
            if total["harness"] and len(total["harness"]) > 20:
                break
            submit()
    total["wall_s"] = REAL_PERF() - t0
    total["completed_range"] = next_start
    return total


def _trim(obj, limit=400):
    if isinstance(obj, str):
        return obj if len(obj) <= limit else obj[:limit] + f"...(+{len(obj) - limit})"
    if isinstance(obj, (bytes, bytearray)):
        return _trim(bytes(obj).decode("latin1"), limit)
    if isinstance(obj, dict):
        return {k: _trim(v, limit) for k, v in obj.items()}
    if isinstance(obj, (list, tuple)):
        if len(obj) > 40:
            return [_trim(v, limit) for v in obj[:40]] + [f"...(+{len(obj) - 40} items)"]
        return [_trim(v, limit) for v in obj]
    return obj


def write_evidence(pid, mod, tier, seed, total, violations_new, known_hit, extra=None):
    cov = {
        "evaluations": total["n"],
        "distinct_nontrivial": len(total["nontrivial"]),
        "rule": getattr(mod, "RULE", ""),
        "samples": [_trim(s) for s in total["samples"][:3]] or ["(no non-trivial sample recorded)"],
        "distinct_event_log_digests": len(total["digests"]),
        "distinct_states": len(total["states"]),
        "runs_per_hour": int(total["n"] / max(total["wall_s"], 1e-9) * 3600),
        "seeds": {"master": seed, "first_index": 0, "last_index": total.get("completed_range", 0) - 1,
                  "derivation": "blake2b(master, property, index)"},
        "simulated_seconds": round(total["sim_s"], 3),
        "faults_fired": dict(sorted(total["faults"].items())),
        "fault_free_runs": total["fault_free"],
        "families": dict(sorted(total["families"].items())),
        "probes": dict(sorted(total["probes"].items())),
        "probes_stuck_at_zero": sorted(k for k in getattr(mod, "EXPECTED_PROBES", []) if not total["probes"].get(k)),
        "components_real": getattr(mod, "COMPONENTS_REAL", []),
        "components_stub": getattr(mod, "COMPONENTS_STUB", []),
        "known_findings_hit": known_hit,
        "harness_errors": len(total["harness"]),
        "repo_rev": repo_rev(),
        "jobs": total.get("jobs"),
    }
    if extra:
        cov.update(extra)
    ev = {
        "property_id": pid, "tier": tier, "seed": seed, "level": getattr(mod, "LEVEL", "exploration"),
        "coverage": cov,
        "assumptions": getattr(mod, "ASSUMPTIONS", []),
        "wall_s": round(total["wall_s"], 2),
        "violations": violations_new,
    }
    # (the sensitivity self-test points this elsewhere so that runs against mutants never overwrite real evidence)
    evdir = os.environ.get("VERIF_EVIDENCE_DIR") or os.path.join(ROOT, "evidence")
    os.makedirs(evdir, exist_ok=True)
    path = os.path.join(evdir, f"{pid}.json")
    tmp = path + ".tmp"
    with open(tmp, "w") as f:
        json.dump(ev, f, indent=1, sort_keys=True, default=_json_default)
    os.replace(tmp, path)
    return path


def check(pid, tier, seed, jobs, budget_s=None, n_runs=None):
    mod = load_prop(pid)
    findings = load_findings(pid)
    t_start = REAL_PERF()
    if tier == "quick":
        n = n_runs or getattr(mod, "QUICK_RUNS", 5000)
        budget = budget_s or getattr(mod, "QUICK_BUDGET_S", 150)
    else:
        budget = budget_s or float(os.environ.get("VERIF_BUDGET_S", getattr(mod, "THOROUGH_BUDGET_S", 900)))
        n = n_runs or getattr(mod, "THOROUGH_RUNS", 50_000_000)
    print(f"[{pid}] tier={tier} seed={seed} jobs={jobs} planned_runs={n} budget_s={budget} repo={repo_rev()}", flush=True)

    exit_code = 0
    known_hit: dict[str, int] = {}
    new_violations = 0

    # --- directed replays of recorded findings -----------------------------------
    for e in findings:
        rp = e.get("replay")
        if not rp:
            continue
        doc = json.load(open(os.path.join(ROOT, rp)))
        res, herr = execute_guarded(mod, doc["scenario"])
        if herr:
            print(f"HARNESS-ERROR directed replay {rp}:\n{herr}")
            return 2
        hit = [v for v in res.get("violations", []) if _class_match(e, v["class"])]
        if e["status"] == "open":
            if hit:
                print(f"KNOWN-FINDING: property={pid} {e['what']} (replay={rp})")
                known_hit[e.get("id", e["class"])] = known_hit.get(e.get("id", e["class"]), 0) + 1
            else:
                print(f"NOTE: recorded finding no longer reproduces: {e['what']} (replay={rp})")
            other = [v for v in res.get("violations", []) if finding_for(v, findings) is None]
        else:  # fixed: must pass
            other = res.get("violations", [])
        for v in other:
            new_violations += 1
            exit_code = 1
            print(f"  {v['class']} {json.dumps(v.get('key', {}), sort_keys=True)} :: {v.get('msg', '')}")
            print(f"VIOLATION property={pid} replay={rp}")

    # --- seeded search ----------------------------------------------------------------
    total = run_batch(pid, seed, tier, n, budget, jobs)
    total["jobs"] = jobs
    if total["harness"]:
        for h in total["harness"][:3]:
            print("HARNESS-ERROR " + json.dumps({k: h.get(k) for k in ("index", "seed")}) + "\n" + str(h.get("error")))
            if h.get("scenario") is not None:
                os.makedirs(os.path.join(ROOT, "replays"), exist_ok=True)
                p = os.path.join(ROOT, "replays", f"{pid}-harness-{h.get('seed')}.json")
                json.dump({"format": 1, "property": pid, "seed": h.get("seed"), "scenario": h["scenario"],
                           "violation": {"class": "harness"}}, open(p, "w"), indent=1, default=_json_default)
                print(f"  scenario saved to {p}")
        write_evidence(pid, mod, tier, seed, total, new_violations, known_hit)
        return 2

    by_class: dict[str, list] = {}
    counted = set()
    for item in total["violations"]:
        e = finding_for(item["violation"], findings)
        sig = item["violation"]["class"] + "|" + json.dumps(item["violation"].get("key", {}), sort_keys=True)
        if e is not None:
            k = e.get("id") or str(e["class"])
            if sig not in counted:
                counted.add(sig)
                known_hit[k] = known_hit.get(k, 0) + total["sig_counts"].get(sig, 1)
            continue
        by_class.setdefault(sig, []).append(item)

    for sig, items in sorted(by_class.items())[:8]:
        item = min(items, key=lambda it: len(json.dumps(it["scenario"], default=_json_default)))
        v = item["violation"]
        new_violations += total["sig_counts"].get(sig, len(items))
        exit_code = 1
        try:
            minimized, execs = shrink(mod, item["scenario"], v["class"], vkey=v.get("key", {}),
                                      budget_s=float(os.environ.get("VERIF_SHRINK_S", 60)))
        except Exception:
            minimized, execs = item["scenario"], 0
        path = write_replay(pid, item, minimized)
        print(f"  class={v['class']} key={json.dumps(v.get('key', {}), sort_keys=True)} occurrences={total['sig_counts'].get(sig, len(items))} "
              f"seed={item['seed']} index={item['index']} shrink_execs={execs}\n    {v.get('msg', '')}")
        print(f"VIOLATION property={pid} replay={path}")
    if len(by_class) > 8:
        print(f"  (+{len(by_class) - 8} further violation signatures not minimised)")

    # open findings that the search met get their line too (once), if not already printed
    printed = set()
    for e in findings:
        k = e.get("id", e["class"])
        if e["status"] == "open" and known_hit.get(k) and not e.get("replay") and k not in printed:
            printed.add(k)
            print(f"KNOWN-FINDING: property={pid} {e['what']} (met {known_hit[k]}x in search)")

    path = write_evidence(pid, mod, tier, seed, total, new_violations, known_hit)
    rate = total["n"] / max(total["wall_s"], 1e-9)
    print(f"[{pid}] runs={total['n']} distinct={len(total['digests'])} nontrivial_distinct={len(total['nontrivial'])} "
          f"faults={sum(total['faults'].values())} sim_s={total['sim_s']:.0f} wall={total['wall_s']:.1f}s "
          f"({rate:.0f}/s) new_violations={new_violations} known_hit={known_hit} evidence={os.path.relpath(path, ROOT)}")
    stuck = sorted(k for k in getattr(mod, "EXPECTED_PROBES", []) if not total["probes"].get(k))
    if stuck:
        print(f"WARNING probes stuck at zero: {stuck}")
    if total["n"] == 0:
        print("HARNESS-ERROR no runs completed")
        return 2
    return exit_code


def digests(pid, tier, seed, n, jobs):
    total = run_batch(pid, seed, tier, n, 10**9, jobs, want_digests=True)
    if total["harness"]:
        print("HARNESS-ERROR", total["harness"][0].get("error"))
        return None
    return total["by_index"]


def selftest_determinism(pid, tier, seed, n, jobs):
    a = digests(pid, tier, seed, n, jobs)
    if a is None:
        return 2
    env = dict(os.environ)
    env["PYTHONHASHSEED"] = "4242"
    env["VERIF_NO_REEXEC"] = "1"
    out = subprocess.run([sys.executable, os.path.join(ROOT, "vcheck"), "digests", pid, "--n", str(n), "--jobs", "3",
                          "--seed", str(seed), "--tier", tier], env=env, capture_output=True, text=True)
    try:
        b = {int(k): v for k, v in json.loads(out.stdout.strip().splitlines()[-1]).items()}
    except Exception:
        print("HARNESS-ERROR cannot parse second run:", out.stdout[-2000:], out.stderr[-2000:])
        return 2
    diff = [i for i in a if a[i] != b.get(i)]
    print(f"[{pid}] determinism: {len(a)} seeds, jobs={jobs} vs fresh interpreter PYTHONHASHSEED=4242 jobs=3: "
          f"{len(diff)} differing digests, {len(set(a.values()))} distinct")
    if diff:
        print("  differing indices:", diff[:20])
        return 2
    return 0
