"""SimNet: in-process replacement for the kernel's TCP/UDP as seen by mitmproxy.

TCP pipes are reliable and ordered (no loss / duplication / reordering is ever
injected there); UDP streams may lose, duplicate and reorder.
"""
from __future__ import annotations

import asyncio
import errno as _errno
from typing import Any, Callable


class SimWriter(asyncio.StreamWriter):
    """What the proxy holds as the `writer` of a connection.  Subclasses
    StreamWriter only to satisfy isinstance assertions; no real transport."""

    def __init__(self, conn: "SimConn"):  # noqa (no super().__init__ on purpose)
        self.conn = conn
        self._closing = False
        self._eof_written = False

    def __del__(self, *a):  # StreamWriter.__del__ touches a transport we do not have
        pass

    @property
    def transport(self):
        return self

    # -- transport-ish -------------------------------------------------------
    def get_extra_info(self, name, default=None):
        return self.conn.extra.get(name, default)

    def is_closing(self):
        return self._closing

    def can_write_eof(self):
        return True

    def write(self, data):
        c = self.conn
        data = bytes(data)
        if self._closing or self._eof_written:
            c.net.note("write_after_close", c)
            c.write_after_close += len(data)
            return
        c.net.on_proxy_write(c, data)
        if c.peer_reset or c.drop_writes:
            c.dropped_bytes += len(data)
            return
        c.rx += data
        c.rx_log.append((c.net.now(), data))
        c.rx_total += len(data)
        c.wake()

    def writelines(self, lines):
        for l in lines:
            self.write(l)

    async def drain(self):
        c = self.conn
        f = c.drain_fault
        if f is not None and c.rx_total + c.dropped_bytes >= f[0]:
            c.net.fired("drain_error")
            c.drain_fault = None
            c.drop_writes = True
            raise f[1]
        if c.peer_reset and not self._closing:
            c.net.fired("drain_after_reset")
            raise ConnectionResetError(_errno.ECONNRESET, "Connection reset by peer")
        if c.stall_until is not None and c.net.now() < c.stall_until:
            c.net.fired("backpressure")
            await asyncio.sleep(c.stall_until - c.net.now())

    def write_eof(self):
        c = self.conn
        if c.write_eof_fault is not None:
            e, c.write_eof_fault = c.write_eof_fault, None
            c.net.fired("write_eof_error")
            raise e
        if self._eof_written:
            return
        self._eof_written = True
        c.rx_eof = True
        c.eof_time = c.net.now()
        c.wake()

    def close(self):
        c = self.conn
        if self._closing:
            return
        self._closing = True
        c.rx_eof = True
        c.proxy_closed = True
        c.close_time = c.net.now()
        c.net.on_proxy_close(c)
        if c.close_fault is not None:
            e, c.close_fault = c.close_fault, None
            c.wake()
            c.net.fired("close_error")
            raise e
        c.wake()

    async def wait_closed(self):
        return

    def abort(self):
        self.close()


class SimConn:
    """One TCP connection between the proxy and a simulated peer."""

    def __init__(self, net: "SimNet", kind: str, ident: str, extra: dict, address=None):
        self.net = net
        self.kind = kind  # "client" | "server"
        self.id = ident
        self.address = address
        self.extra = extra
        self.reader = asyncio.StreamReader(limit=2**24, loop=net.loop)
        self.writer = SimWriter(self)
        # bytes the proxy wrote, as seen by the peer
        self.rx = bytearray()
        self.rx_log: list[tuple[float, bytes]] = []
        self.rx_total = 0
        self.rx_eof = False
        self.proxy_closed = False
        self.eof_time: float | None = None
        self.close_time: float | None = None
        # bytes the peer sent
        self.tx_log: list[tuple[float, bytes]] = []
        self.tx_total = 0
        self.peer_eof = False
        self.peer_reset = False
        self.peer_closed_at: float | None = None
        self.write_after_close = 0
        self.dropped_bytes = 0
        self.drop_writes = False
        # faults
        self.drain_fault: tuple[int, OSError] | None = None
        self.write_eof_fault: OSError | None = None
        self.close_fault: OSError | None = None
        self.stall_until: float | None = None
        self._waiters: list[asyncio.Future] = []
        self.opened_at = net.now()

    # -- peer side -------------------------------------------------------------
    def wake(self):
        ws, self._waiters = self._waiters, []
        for w in ws:
            if not w.done():
                w.set_result(None)

    async def wait_change(self, timeout: float | None = None) -> bool:
        """Wait until the proxy writes/closes something on this connection."""
        fut = self.net.loop.create_future()
        self._waiters.append(fut)
        if timeout is None:
            await fut
            return True
        try:
            await asyncio.wait_for(fut, timeout)
            return True
        except asyncio.TimeoutError:
            return False

    def feed(self, data: bytes):
        if self.peer_eof or self.peer_reset:
            return
        if not data:
            return
        self.tx_log.append((self.net.now(), bytes(data)))
        self.tx_total += len(data)
        self.reader.feed_data(bytes(data))

    async def send(self, data: bytes, cuts=(), gaps=(), default_gap: float = 0.0):
        """Send `data` split at absolute offsets `cuts`, sleeping gaps[i] before segment i."""
        pos = 0
        pts = sorted({c for c in cuts if 0 < c < len(data)}) + [len(data)]
        for i, end in enumerate(pts):
            g = gaps[i] if i < len(gaps) else default_gap
            if g > 0 or i > 0:
                await asyncio.sleep(max(g, 0.0))
            self.feed(data[pos:end])
            pos = end

    def send_eof(self):
        if self.peer_eof or self.peer_reset:
            return
        self.peer_eof = True
        self.peer_closed_at = self.net.now()
        self.net.fired(f"{self.kind}_fin")
        self.reader.feed_eof()

    def reset(self):
        if self.peer_reset:
            return
        self.peer_reset = True
        if self.peer_closed_at is None:
            self.peer_closed_at = self.net.now()
        self.net.fired(f"{self.kind}_rst")
        if not self.peer_eof:
            self.reader.set_exception(
                ConnectionResetError(_errno.ECONNRESET, "Connection reset by peer")
            )
        self.peer_eof = True

    def take(self) -> bytes:
        d = bytes(self.rx)
        del self.rx[:]
        return d

    @property
    def received(self) -> bytes:
        return b"".join(d for _, d in self.rx_log)

    @property
    def sent(self) -> bytes:
        return b"".join(d for _, d in self.tx_log)


class SimDatagramStream:
    """The `mitmproxy_rs.Stream` surface the connection handler uses, for UDP."""

    def __init__(self, net: "SimNet", kind: str, ident: str, extra: dict, address=None):
        self.net = net
        self.kind = kind
        self.id = ident
        self.address = address
        self.extra = dict(extra)
        self.extra.setdefault("transport_protocol", "udp")
        self._q: list[bytes] = []
        self._waiter: asyncio.Future | None = None
        self._closing = False
        self.peer_closed = False
        self.rx_log: list[tuple[float, bytes]] = []  # datagrams the proxy wrote
        self.tx_log: list[tuple[float, bytes]] = []  # datagrams the peer sent
        self.proxy_closed = False
        self._waiters: list[asyncio.Future] = []
        self.conn = self
        self.opened_at = net.now()

    # proxy side
    async def read(self, n: int) -> bytes:
        while not self._q:
            if self.peer_closed or self._closing:
                return b""
            self._waiter = self.net.loop.create_future()
            try:
                await self._waiter
            finally:
                self._waiter = None
        return self._q.pop(0)

    def write(self, data):
        data = bytes(data)
        if self._closing:
            self.net.note("write_after_close", self)
            return
        self.net.on_proxy_write(self, data)
        self.rx_log.append((self.net.now(), data))
        self.wake()

    async def drain(self):
        return

    def write_eof(self):
        return

    def can_write_eof(self):
        return False

    def close(self):
        if self._closing:
            return
        self._closing = True
        self.proxy_closed = True
        self.net.on_proxy_close(self)
        if self._waiter and not self._waiter.done():
            self._waiter.set_result(None)
        self.wake()

    def is_closing(self):
        return self._closing

    async def wait_closed(self):
        return

    def get_extra_info(self, name, default=None):
        return self.extra.get(name, default)

    # peer side
    def wake(self):
        ws, self._waiters = self._waiters, []
        for w in ws:
            if not w.done():
                w.set_result(None)

    async def wait_change(self, timeout=None) -> bool:
        fut = self.net.loop.create_future()
        self._waiters.append(fut)
        if timeout is None:
            await fut
            return True
        try:
            await asyncio.wait_for(fut, timeout)
            return True
        except asyncio.TimeoutError:
            return False

    def feed(self, data: bytes):
        if self.peer_closed or self._closing:
            return
        self.tx_log.append((self.net.now(), bytes(data)))
        self._q.append(bytes(data))
        if self._waiter and not self._waiter.done():
            self._waiter.set_result(None)

    def peer_close(self):
        self.peer_closed = True
        if self._waiter and not self._waiter.done():
            self._waiter.set_result(None)


class _FakeSock:
    def __init__(self, name, original_dst=None):
        self._name = name
        self.original_dst = original_dst

    def getsockname(self):
        return self._name


class FakeServer:
    """What asyncio.start_server / mitmproxy_rs.udp.start_udp_server return."""

    def __init__(self, net, host, port, cb, proto):
        self.net, self.host, self.port, self.cb, self.proto = net, host, port, cb, proto
        name = (host or ("0.0.0.0" if proto == "tcp" else "0.0.0.0"), port)
        self.sockets = [_FakeSock(name)]
        self.closed = False

    def getsockname(self):
        return self.sockets[0].getsockname()

    def close(self):
        self.closed = True
        self.net.listeners.pop((self.proto, self.host, self.port), None)

    async def wait_closed(self):
        return

    def is_serving(self):
        return not self.closed


class ConnectPlan:
    __slots__ = ("delay", "error", "accept", "peername", "sockname")

    def __init__(self, delay=0.0, error=None, accept=None, peername=None, sockname=None):
        self.delay, self.error, self.accept = delay, error, accept
        self.peername, self.sockname = peername, sockname


class SimNet:
    def __init__(self, loop):
        self.loop = loop
        self.conns: list[Any] = []
        self.listeners: dict[tuple, FakeServer] = {}
        self.connect_attempts: list[dict] = []
        self.connect_planner: Callable[[str, int, int, str], ConnectPlan] | None = None
        self.faults_fired: dict[str, int] = {}
        self.notes: list[tuple] = []
        self.open_server: dict[tuple, int] = {}
        self.max_open_server: dict[tuple, int] = {}
        self.write_hooks: list[Callable] = []
        self.close_hooks: list[Callable] = []
        self._n = 0

    def now(self) -> float:
        return self.loop.time()

    def fired(self, kind: str, n: int = 1):
        self.faults_fired[kind] = self.faults_fired.get(kind, 0) + n

    def note(self, what, conn):
        self.notes.append((self.now(), what, getattr(conn, "id", None)))

    def on_proxy_write(self, conn, data):
        for h in self.write_hooks:
            h(conn, data)

    def on_proxy_close(self, conn):
        if conn.kind == "server":
            k = tuple(conn.address)
            self.open_server[k] = self.open_server.get(k, 0) - 1
        for h in self.close_hooks:
            h(conn)

    def _ident(self, prefix):
        self._n += 1
        return f"{prefix}{self._n}"

    # -- seams ---------------------------------------------------------------
    async def start_server(self, cb, host=None, port=None, **kw):
        srv = FakeServer(self, host, port, cb, "tcp")
        if ("tcp", host, port) in self.listeners:
            raise OSError(_errno.EADDRINUSE, "Address already in use")
        self.listeners[("tcp", host, port)] = srv
        return srv

    async def start_udp_server(self, host, port, cb):
        srv = FakeServer(self, host, port, cb, "udp")
        if ("udp", host, port) in self.listeners:
            raise OSError(_errno.EADDRINUSE, "Address already in use")
        self.listeners[("udp", host, port)] = srv
        return srv

    async def open_connection(self, host=None, port=None, *, local_addr=None, **kw):
        return await self._open(host, port, local_addr, "tcp")

    async def open_udp_connection(self, host, port, *, local_addr=None, **kw):
        s = await self._open(host, port, local_addr, "udp")
        return s

    async def _open(self, host, port, local_addr, proto):
        n = len(self.connect_attempts)
        rec = {"n": n, "host": host, "port": port, "proto": proto, "t": self.now(),
               "local_addr": local_addr, "result": "pending"}
        self.connect_attempts.append(rec)
        plan = self.connect_planner(host, port, n, proto) if self.connect_planner else ConnectPlan(
            error=OSError(_errno.ECONNREFUSED, "Connect call failed"))
        try:
            # a real connect() never completes without at least one trip through the selector
            await asyncio.sleep(plan.delay if plan.delay > 0 else 0)
        except asyncio.CancelledError:
            rec["result"] = "cancelled"
            self.fired("connect_cancelled")
            raise
        if proto == "tcp" and isinstance(host, str):
            # socket.getaddrinfo() encodes a str host with the idna codec before it resolves anything: a name with an
            # empty or over-long label makes the real loop's connect raise UnicodeError (which is NOT an OSError)
            try:
                host.encode("idna")
            except UnicodeError:
                rec["result"] = "error"
                self.fired("resolve_unicode_error")
                raise
        if plan.error is not None:
            rec["result"] = "error"
            self.fired("connect_error")
            raise plan.error
        rec["result"] = "ok"
        peername = plan.peername or (host, port)
        sockname = plan.sockname or (local_addr[0] if local_addr else "10.9.8.7", 40000 + n)
        extra = {"peername": peername, "sockname": sockname}
        if proto == "tcp":
            conn = SimConn(self, "server", self._ident("s"), extra, address=(host, port))
        else:
            conn = SimDatagramStream(self, "server", self._ident("u"), extra, address=(host, port))
        conn.attempt = n
        self.conns.append(conn)
        k = (host, port)
        self.open_server[k] = self.open_server.get(k, 0) + 1
        self.max_open_server[k] = max(self.max_open_server.get(k, 0), self.open_server[k])
        if plan.accept is not None:
            plan.accept(conn)
        if proto == "tcp":
            return conn.reader, conn.writer
        return conn

    # -- client entry ------------------------------------------------------------
    def client_conn(self, peername, sockname, original_dst=None, extra=None) -> SimConn:
        ex = {"peername": tuple(peername), "sockname": tuple(sockname),
              "socket": _FakeSock(tuple(sockname), original_dst)}
        if extra:
            ex.update(extra)
        conn = SimConn(self, "client", self._ident("c"), ex)
        self.conns.append(conn)
        return conn

    def client_dgram(self, peername, sockname, extra=None) -> SimDatagramStream:
        ex = {"peername": tuple(peername), "sockname": tuple(sockname)}
        if extra:
            ex.update(extra)
        conn = SimDatagramStream(self, "client", self._ident("d"), ex)
        self.conns.append(conn)
        return conn


def oserror(kind: str, msg: str | None = None) -> OSError:
    table = {
        "refused": (ConnectionRefusedError, _errno.ECONNREFUSED, "Connect call failed"),
        "unreachable": (OSError, _errno.ENETUNREACH, "Network is unreachable"),
        "timeout": (TimeoutError, _errno.ETIMEDOUT, "Connection timed out"),
        "dns": (OSError, -2, "Name or service not known"),
        "reset": (ConnectionResetError, _errno.ECONNRESET, "Connection reset by peer"),
        "pipe": (BrokenPipeError, _errno.EPIPE, "Broken pipe"),
    }
    cls, no, text = table[kind]
    return cls(no, msg if msg is not None else text)
