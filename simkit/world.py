"""Proxy world: the real Master / AddonManager / addons / ProxyConnectionHandler /
layers, on a VLoop with SimNet underneath."""
from __future__ import annotations

import asyncio
import contextlib
import hashlib
import logging
import os
import random
import sys
import time as _time
import uuid as _uuid

from . import vloop
from .net import ConnectPlan, SimNet, oserror

CONFDIR = os.path.join(os.path.dirname(os.path.dirname(os.path.abspath(__file__))), "data", "confdir")
REAL_TIME = _time.time
REAL_PERF = _time.perf_counter

ALL_HOOKS = [
    "client_connected", "client_disconnected", "server_connect", "server_connected",
    "server_connect_error", "server_disconnected",
    "requestheaders", "request", "responseheaders", "response", "error",
    "http_connect", "http_connected", "http_connect_upstream", "http_connect_error",
    "websocket_start", "websocket_message", "websocket_end",
    "tcp_start", "tcp_message", "tcp_end", "tcp_error",
    "udp_start", "udp_message", "udp_end", "udp_error",
    "dns_request", "dns_response", "dns_error",
    "tls_clienthello", "tls_start_client", "tls_start_server",
    "tls_established_client", "tls_established_server",
    "tls_failed_client", "tls_failed_server",
    "socks5_auth", "next_layer",
]

CRASH_MARKERS = (
    "mitmproxy has crashed",
    "connection handler has crashed",
    "Client replay has crashed",
    "Unhandled error in task",
    "Unhandled asyncio error",
    "Addon error",
)


class HarnessError(RuntimeError):
    pass


class _CrashHandler(logging.Handler):
    def __init__(self, world):
        super().__init__(level=logging.DEBUG)
        self.world = world

    def emit(self, record):
        try:
            msg = record.getMessage()
        except Exception:  # pragma: no cover
            msg = str(record.msg)
        w = self.world
        if w.keep_log:
            w.log.append((w.loop.time(), record.levelname, msg))
        if record.levelno >= logging.ERROR or any(m in msg for m in CRASH_MARKERS):
            if any(m in msg for m in CRASH_MARKERS):
                tb = ""
                if record.exc_info and record.exc_info[1] is not None:
                    e = record.exc_info[1]
                    tb = f"{type(e).__name__}: {e}"
                    # innermost frame, for finding identification
                    t = e.__traceback__
                    last = None
                    while t is not None:
                        last = t
                        t = t.tb_next
                    if last is not None:
                        co = last.tb_frame.f_code
                        tb += f" @ {os.path.basename(co.co_filename)}:{co.co_name}"
                w.crashes.append((w.loop.time(), msg.split("\n")[0][:200], tb))
                if w.keep_log and record.exc_info:
                    import traceback as _tb
                    w.log.append((w.loop.time(), "TRACEBACK", "".join(_tb.format_exception(*record.exc_info))))
            else:
                w.errors.append((w.loop.time(), msg.split("\n")[0][:300]))


def _make_recorder(world):
    class Recorder:
        pass

    def mk(name):
        def hook(self, data):
            world.on_hook(name, data)
        hook.__name__ = name
        return hook

    for h in ALL_HOOKS:
        setattr(Recorder, h, mk(h))
    return Recorder()


def _make_policy(world):
    class Policy:
        pass

    def mk(name):
        async def hook(self, data):
            # "fired": the hook reached the first addon (an async addon cancelled mid-hook hides it from later ones)
            world.hooks_fired.append((world.loop.time(), name, data))
            p = world.policy
            if p is not None:
                r = p(name, data)
                if r is not None:
                    await r
        hook.__name__ = name
        return hook

    for h in ALL_HOOKS:
        setattr(Policy, h, mk(h))
    return Policy()


class ProxyWorld:
    """Builds and owns one simulated mitmproxy process."""

    def __init__(self, loop, *, options=None, seed=0, extra_addons=(), with_addons=None,
                 keep_log=False, modes=None, confdir=None):
        self.loop = loop
        self.seed = seed
        self.opts_in = dict(options or {})
        self.modes = modes
        self.extra_addons = list(extra_addons)
        self.with_addons = with_addons
        self.keep_log = keep_log
        self.confdir = confdir
        self.net = SimNet(loop)
        self.epoch = float(int(REAL_TIME()))
        self.log: list = []
        self.crashes: list = []
        self.errors: list = []
        self.hooks: list = []  # (t, name, key, data)
        self.hooks_fired: list = []  # (t, name, data) as seen by the FIRST addon
        self.hook_listeners: list = []
        self.hook_done_listeners: list = []  # called when a hook (incl. interception) has completed
        self.timeouts: list = []  # (t, handler, hooks pending for that handler) at every idle-watchdog firing
        self.pending_by_handler: dict = {}
        self._seq = 0
        self.policy = None  # callable(name, data) -> awaitable | None
        self.pending_hooks = 0
        self.hook_spans: list = []
        self.event_listeners: list = []
        self.handlers: list = []
        self._stack = contextlib.ExitStack()
        self.master = None
        self.ps = None
        self._uuid_rng = random.Random(seed ^ 0x5EED)
        self.client_tasks: list = []

    # -- observation -----------------------------------------------------------
    def next_seq(self) -> int:
        """Global event sequence number: orders observations that share one virtual instant."""
        self._seq += 1
        return self._seq

    def on_hook(self, name, data):
        t = self.loop.time()
        self.hooks.append((t, name, data))
        for l in self.hook_listeners:
            l(t, name, data)

    def wall(self):
        return self.epoch + self.loop.time()

    # -- lifecycle ----------------------------------------------------------------
    async def start(self):
        import mitmproxy_rs
        from mitmproxy import master as mmaster, options as moptions, platform
        from mitmproxy.addons import (anticache, anticomp, block, blocklist, clientplayback, core,
                                      disable_h2c, intercept, mapremote, modifybody, modifyheaders,
                                      next_layer, proxyauth, proxyserver, serverplayback, stickyauth,
                                      stickycookie, strip_dns_https_records, tlsconfig, update_alt_svc,
                                      upstream_auth)
        from mitmproxy.proxy import mode_servers, server as pserver
        from mitmproxy.net import tls as net_tls
        from mitmproxy.net import encoding as net_encoding

        st = self._stack
        world = self
        net = self.net

        # ---- seams -----------------------------------------------------------
        def patch(obj, name, value):
            old = getattr(obj, name)
            setattr(obj, name, value)
            st.callback(setattr, obj, name, old)

        patch(asyncio, "open_connection", net.open_connection)
        patch(asyncio, "start_server", net.start_server)
        patch(mitmproxy_rs.udp, "open_udp_connection", net.open_udp_connection)
        patch(mitmproxy_rs.udp, "start_udp_server", net.start_udp_server)
        patch(_time, "time", self.wall)
        patch(platform, "original_addr", lambda s: s.original_dst)

        def uuid4():
            return _uuid.UUID(int=self._uuid_rng.getrandbits(128), version=4)
        patch(_uuid, "uuid4", uuid4)

        # memoise CA private-key parsing per worker (27 ms of RSA key validation per run otherwise)
        from mitmproxy import certs as mcerts
        if not hasattr(mcerts.load_pem_private_key, "_sim_memo"):
            _orig_load = mcerts.load_pem_private_key
            _memo = {}

            def load_pem_private_key(data, password):
                k = (bytes(data), password)
                if k not in _memo:
                    _memo[k] = _orig_load(data, password)
                return _memo[k]
            load_pem_private_key._sim_memo = True
            mcerts.load_pem_private_key = load_pem_private_key

        # ---- per-run resets ---------------------------------------------------
        for fn in (net_tls.create_proxy_server_context, net_tls.create_client_proxy_context):
            fn.cache_clear()
        net_encoding._cache = net_encoding.CachedDecode(None, None, None, None)

        # ---- observation wrappers (no extra suspension points) ---------------------
        orig_handle_hook = mode_servers.ProxyConnectionHandler.handle_hook
        orig_server_event = pserver.ConnectionHandler.server_event
        orig_init = mode_servers.ProxyConnectionHandler.__init__

        async def handle_hook(self_, hook):
            world.pending_hooks += 1
            world.pending_by_handler[id(self_)] = world.pending_by_handler.get(id(self_), 0) + 1
            t0 = world.loop.time()
            span = [self_, hook.name, t0, None, world.next_seq(), None]
            world.hook_spans.append(span)
            try:
                return await orig_handle_hook(self_, hook)
            finally:
                world.pending_hooks -= 1
                world.pending_by_handler[id(self_)] -= 1
                span[3] = world.loop.time()
                span[5] = world.next_seq()
                for l in world.hook_done_listeners:
                    l(hook.name, hook.args()[0])

        async def server_event(self_, event):
            r = await orig_server_event(self_, event)
            for l in world.event_listeners:
                l(self_, event)
            return r

        def init(self_, *a, **kw):
            orig_init(self_, *a, **kw)
            world.handlers.append(self_)

        orig_on_timeout = pserver.ConnectionHandler.on_timeout

        async def on_timeout(self_):
            # the instant the idle watchdog decides to close the connection
            world.timeouts.append((world.loop.time(), self_, world.pending_by_handler.get(id(self_), 0),
                                   world.next_seq()))
            return await orig_on_timeout(self_)
        patch(pserver.ConnectionHandler, "on_timeout", on_timeout)

        patch(mode_servers.ProxyConnectionHandler, "handle_hook", handle_hook)
        patch(pserver.ConnectionHandler, "server_event", server_event)
        patch(mode_servers.ProxyConnectionHandler, "__init__", init)

        # ---- logging ------------------------------------------------------------
        self._lh = _CrashHandler(self)
        root = logging.getLogger()
        root.addHandler(self._lh)
        old_level = root.level
        root.setLevel(logging.DEBUG if self.keep_log else logging.INFO)
        st.callback(root.setLevel, old_level)
        st.callback(root.removeHandler, self._lh)

        def exc_handler(loop, context):
            exc = context.get("exception")
            world.crashes.append((loop.time(), "loop exception handler: " + str(context.get("message")),
                                  f"{type(exc).__name__}: {exc}" if exc else ""))
        self.loop.set_exception_handler(exc_handler)

        # ---- the real master ------------------------------------------------------
        opts = moptions.Options()
        m = mmaster.Master(opts, event_loop=self.loop)
        self.master = m
        st.callback(m._legacy_log_events.uninstall)
        self.ps = proxyserver.Proxyserver()
        self.policy_addon = _make_policy(self)
        self.recorder = _make_recorder(self)
        if self.with_addons is not None:
            addons = self.with_addons(self)
        else:
            addons = [
                core.Core(), block.Block(), strip_dns_https_records.StripDnsHttpsRecords(),
                blocklist.BlockList(), anticache.AntiCache(), anticomp.AntiComp(),
                clientplayback.ClientPlayback(), disable_h2c.DisableH2C(), proxyauth.ProxyAuth(),
                self.ps, next_layer.NextLayer(), serverplayback.ServerPlayback(),
                mapremote.MapRemote(), modifybody.ModifyBody(), modifyheaders.ModifyHeaders(),
                stickyauth.StickyAuth(), stickycookie.StickyCookie(), tlsconfig.TlsConfig(),
                upstream_auth.UpstreamAuth(), update_alt_svc.UpdateAltSvc(), intercept.Intercept(),
            ]
        m.addons.add(self.policy_addon, *addons, *self.extra_addons, self.recorder)
        o = {"listen_host": "10.0.0.1", "listen_port": 8080, "block_global": False,
             "mode": list(self.modes or ["regular"])}
        o["confdir"] = self.confdir or CONFDIR
        o.update(self.opts_in)
        opts.update(**o)
        ok = await self.ps.setup_servers()
        if not ok:
            raise HarnessError(f"setup_servers failed: {self.errors}")
        await m.running()
        return self

    async def stop(self):
        try:
            if self.master is not None:
                await self.master.done()
        finally:
            self._stack.close()

    # -- client entry ----------------------------------------------------------------
    def instance(self, mode=None):
        from mitmproxy.proxy import mode_specs
        insts = list(self.ps.servers)
        if mode is None:
            return insts[0]
        return self.ps.servers[mode_specs.ProxyMode.parse(mode)]

    def connect_client(self, mode=None, peername=("192.168.1.7", 50123), sockname=None,
                       original_dst=None, udp=False):
        inst = self.instance(mode)
        if sockname is None:
            la = inst.listen_addrs
            sockname = la[0][:2] if la else ("10.0.0.1", 8080)
        if udp:
            conn = self.net.client_dgram(peername, sockname)
            coro = inst.handle_stream(conn, conn)
        else:
            conn = self.net.client_conn(peername, sockname, original_dst=original_dst)
            coro = inst.handle_stream(conn.reader, conn.writer)
        task = self.loop.create_task(coro, name=f"sim-client-{conn.id}")
        conn.task = task
        conn.handler_done_at = None  # virtual time at which handle_client (incl. its teardown) returned

        def _done(_t, conn=conn):
            conn.handler_done_at = self.loop.time()
        task.add_done_callback(_done)
        self.client_tasks.append(task)
        return conn

    # -- end-of-run resource census ------------------------------------------------------
    def leaked_tasks(self, ignore=()):
        from mitmproxy.utils import asyncio_utils
        out = []
        cur = asyncio.current_task(self.loop)
        for t in asyncio.all_tasks(self.loop):
            if t.done() or t is cur:
                continue
            n = t.get_name()
            if n.startswith("sim-") and not n.startswith("sim-client"):
                continue
            if any(n.startswith(i) for i in ignore):
                continue
            out.append(n)
        return sorted(out), len(asyncio_utils._KEEP_ALIVE)


def run_world(body, *, eager=False, seed=0, max_iterations=400_000, **kw):
    """Run ``await body(world)`` in a fresh loop+world; always tears down."""
    result = {}

    async def main(loop):
        w = ProxyWorld(loop, seed=seed, **kw)
        try:
            await w.start()
            result["value"] = await body(w)
        finally:
            await w.stop()
        return w

    w = vloop.run(main, eager=eager, max_iterations=max_iterations)
    return result.get("value"), w


def digest(items) -> str:
    h = hashlib.blake2b(digest_size=12)
    for it in items:
        h.update(repr(it).encode())
        h.update(b"\n")
    return h.hexdigest()
