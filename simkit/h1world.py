"""HTTP/1 proxy-world family: scenario executor shared by C01-C03, C07-C12, C20, C23, C24.

A scenario is plain JSON (bytes are latin-1 strings).  The executor runs the
real proxy on the simulator, with scripted client(s), reactive origin peers that
answer when the independent reader `P` has parsed a complete request, a policy
addon and injected faults, and returns the observations the oracles need.
"""
from __future__ import annotations

import asyncio
import re

from peers import h1 as P
from . import world as W
from .net import ConnectPlan, oserror

TOK_RE = re.compile(rb"/r(\d+)")


def B(s) -> bytes:
    return s.encode("latin1") if isinstance(s, str) else bytes(s)


def S(b) -> str:
    return bytes(b).decode("latin1")


# ---------------------------------------------------------------------------
# flow snapshots ("what mitmproxy recorded")
# ---------------------------------------------------------------------------
def snap_msg(m):
    if m is None:
        return None
    d = {
        "version": m.data.http_version,
        "headers": tuple(m.headers.fields),
        "content": m.raw_content,
        "trailers": tuple(m.trailers.fields) if m.trailers is not None else None,
        "stream": bool(m.stream),
    }
    return d


def snap_http(f):
    rq = f.request
    d = {
        "id": f.id,
        "live": f.live,
        "intercepted": f.intercepted,
        "error": f.error.msg if f.error else None,
        "request": None,
        "response": None,
        "server": (f.server_conn.id, f.server_conn.address, f.server_conn.tls, f.server_conn.via,
                   f.server_conn.transport_protocol),
        "websocket": f.websocket is not None,
    }
    if rq is not None:
        r = snap_msg(rq)
        r.update(method=rq.data.method, scheme=rq.data.scheme, authority=rq.data.authority,
                 path=rq.data.path, host=rq.data.host, port=rq.data.port)
        d["request"] = r
    if f.response is not None:
        r = snap_msg(f.response)
        r.update(status=f.response.data.status_code, reason=f.response.data.reason)
        d["response"] = r
    return d


HTTP_FLOW_HOOKS = {"requestheaders", "request", "responseheaders", "response", "error",
                   "http_connect", "http_connected", "http_connect_error", "http_connect_upstream"}
CONN_HOOKS = {"client_connected", "client_disconnected", "server_connect", "server_connected",
              "server_connect_error", "server_disconnected"}


# ---------------------------------------------------------------------------
# policy addon behaviour
# ---------------------------------------------------------------------------
STREAM_FNS = {
    "upper": lambda d: d.upper(),
    "drop": lambda d: b"",
    "double": lambda d: [d, d] if d else b"",
    "split": lambda d: [d[: len(d) // 2], d[len(d) // 2:]] if d else b"",
    "tag": lambda d: (b"<" + d + b">") if d else b"",
    "ident": lambda d: d,
}


class Policy:
    def __init__(self, world, rules):
        self.w = world
        self.rules = rules or []
        self.counts: dict[str, int] = {}
        self.applied: list = []
        self.stream_log: list = []  # (flow id, "request"|"response", chunk in, chunk(s) out) per stream-callable call
        self.poke_log: list = []  # (t, hook, attr, connection was open, assignment raised)
        # (t, hook, attr, mitmproxy's state flag said open, assignment raised, (host, port) the socket goes to)
        self.conn_poke_log: list = []
        self.by_hook: dict[str, list] = {}
        for r in self.rules:
            self.by_hook.setdefault(r["hook"], []).append(r)

    def __call__(self, name, data):
        n = self.counts.get(name, 0)
        self.counts[name] = n + 1
        rs = self.by_hook.get(name)
        if not rs:
            return None
        todo = [r for r in rs if r.get("nth", 0) == n or r.get("nth") == "*"]
        if not todo:
            return None
        return self._run(name, n, data, todo)

    async def _run(self, name, n, data, todo):
        for r in todo:
            lat = r.get("latency", 0)
            if lat and lat > 0:
                self.w.net.fired("hook_latency")
                await asyncio.sleep(lat)
            self.apply(name, n, data, r)
            if r.get("action") == "intercept" and r.get("then") == "kill_in_hook" and name not in CONN_HOOKS:
                # an addon later in the chain (or this one, after more work) kills the flow while the hook that
                # intercepted it is still running, i.e. before the proxy has started to wait for a resume
                after = r.get("after", 0.0)
                if after and after > 0:
                    await asyncio.sleep(after)
                self.applied.append((self.w.loop.time(), name, n, "then_kill_in_hook", getattr(data, "id", None)))
                if data.killable:
                    data.kill()

    def apply(self, name, n, data, r):
        from mitmproxy import http
        act = r.get("action", "pass")
        self.applied.append((self.w.loop.time(), name, n, act, getattr(data, "id", None)))
        if act == "pass":
            return
        self.w.net.fired("policy_" + act)
        if name in CONN_HOOKS:
            if act == "set_error":
                conn = data if name.startswith("client") else data.server
                conn.error = r.get("msg", "killed by policy")
            elif act == "poke_server_conn" and name.startswith("server"):
                # an addon trying to re-point the server connection from inside a connection hook.  Whether the
                # connection counts as open is for the oracle to decide from the hook name and the simulated
                # sockets; mitmproxy's own state flag is recorded only as information.
                from mitmproxy.connection import ConnectionState
                sc_ = data.server
                flag_open = sc_.state is ConnectionState.OPEN
                target = tuple(sc_.via[1]) if sc_.via else (tuple(sc_.address) if sc_.address else None)
                for attr, val in (("address", ("evil.test", 6666)), ("via", ("http", ("evil.test", 3128)))):
                    before = getattr(sc_, attr)
                    try:
                        setattr(sc_, attr, val)
                        raised = False
                        # undo through the backdoor so the run can go on; the oracle has its witness
                        sc_.__dict__[attr] = before
                    except RuntimeError:
                        raised = True
                    self.conn_poke_log.append((self.w.loop.time(), name, attr, flag_open, raised, target))
            return
        f = data
        if act == "kill":
            if f.killable:
                f.kill()
        elif act == "respond":
            f.response = http.Response.make(r.get("status", 200), B(r.get("body", "policy")),
                                            {"X-Policy": "1"})
        elif act == "stream":
            which = r.get("which", "request" if name in ("requestheaders",) else "response")
            fn = r.get("fn")
            val = True
            if fn:
                base = STREAM_FNS[fn]
                log = self.stream_log

                def val(d, base=base, fid=f.id, which=which):
                    out = base(d)
                    # what mitmproxy handed to the callable and what it got back, in call order
                    log.append((fid, which, bytes(d), out if isinstance(out, bytes) else [bytes(x) for x in out]))
                    return out
            m = f.request if which == "request" else f.response
            if m is not None:
                m.stream = val
        elif act == "edit":
            self._edit(f, r)
        elif act == "poke_server_conn":
            # an addon trying to re-point a server connection: must raise while the connection is open
            sc_ = f.server_conn
            from mitmproxy.connection import ConnectionState
            was_open = sc_.state is ConnectionState.OPEN
            for attr, val in (("address", ("evil.test", 6666)), ("via", ("http", ("evil.test", 3128)))):
                before = getattr(sc_, attr)
                try:
                    setattr(sc_, attr, val)
                    raised = False
                    if was_open:
                        # undo through the backdoor so the run can go on; the oracle has its witness
                        sc_.__dict__[attr] = before
                    else:
                        setattr(sc_, attr, before)
                except RuntimeError:
                    raised = True
                self.poke_log.append((self.w.loop.time(), name, attr, was_open, raised))
        elif act == "intercept":
            f.intercept()
            then = r.get("then", "resume")
            after = r.get("after", 0.0)

            def later():
                self.applied.append((self.w.loop.time(), name, n, "then_" + then, getattr(data, "id", None)))
                if then == "kill":
                    if f.killable:
                        f.kill()
                        # what the UI does after killing: nothing else.
                    else:
                        f.resume()  # cannot be killed any more (e.g. another rule did already): just let it go
                elif then == "kill_resume":
                    if f.killable:
                        f.kill()
                    f.resume()
                elif then == "edit_resume":
                    if f.intercepted:  # a user can only edit a flow that is still held
                        self._edit(f, r)
                    f.resume()
                elif then == "never":
                    pass
                else:
                    f.resume()
            if then not in ("never", "kill_in_hook"):
                self.w.loop.call_later(after, later)

    def _edit(self, f, r):
        which = r.get("which", "request")
        m = f.request if which == "request" else f.response
        if m is None:
            return
        def bodiless(status):
            return 100 <= status <= 199 or status in (204, 304)
        for e in r.get("edits", []):
            k = e["k"]
            # an addon that gives a body to a message that cannot have one (or flips HEAD-ness) breaks framing
            # by itself; that is not mitmproxy's defect, so the policy never does it.
            if which == "response" and k == "content" and (bodiless(m.status_code) or f.request.method.upper() == "HEAD"):
                continue
            if which == "response" and k == "status" and (bodiless(m.status_code) or bodiless(e["value"])):
                continue
            if k == "method" and (e["value"].upper() in ("HEAD", "CONNECT") or f.request.method.upper() in ("HEAD", "CONNECT")):
                continue
            if k == "content" and m.stream:
                continue  # documented: streamed bodies cannot be modified through .content
            if k == "set_header":
                m.headers[e["name"]] = e["value"]
            elif k == "add_header":
                m.headers.add(e["name"], e["value"])
            elif k == "del_header":
                m.headers.pop(e["name"], None)
            elif k == "content":
                if m.raw_content is not None:
                    m.content = B(e["value"])
            elif k == "raw_content":
                m.raw_content = B(e["value"])
            elif k == "path" and which == "request":
                m.path = e["value"]
            elif k == "host" and which == "request":
                m.host = e["value"]
            elif k == "port" and which == "request":
                m.port = e["value"]
            elif k == "scheme" and which == "request":
                m.scheme = e["value"]
            elif k == "method" and which == "request":
                m.method = e["value"]
            elif k == "status" and which == "response":
                m.status_code = e["value"]
            elif k == "via":
                f.server_conn.via = (e["value"][0], tuple(e["value"][1])) if e["value"] else None
            elif k == "replace_server_conn":
                # the documented way to re-route when the current server connection may already be open
                # (examples/contrib/change_upstream_proxy.py): put a fresh Server object on the flow
                from mitmproxy.connection import Server
                new = Server(address=f.server_conn.address)
                new.via = (e["value"][0], tuple(e["value"][1])) if e["value"] else None
                f.server_conn = new


# ---------------------------------------------------------------------------
# observations
# ---------------------------------------------------------------------------
class Obs:
    def __init__(self):
        self.hooks: list = []  # (t, name, key, snap)
        self.clients: list = []
        self.servers: list = []
        self.world = None
        self.policy = None
        self.sim_s = 0.0
        self.leaked = ([], 0)
        self.states: set = set()
        self.origin_log: list = []
        self.client_log: list = []
        self.buf_max: dict = {}
        self.monitor_violations: list = []
        self.flow_objs: dict = {}  # flow id -> live flow object, in order of first hook
        self.done_snaps: dict = {}  # (flow id, hook name) -> snapshot when that hook completed

    def flow_hooks(self):
        out: dict = {}
        for t, name, key, snap in self.hooks:
            if name in HTTP_FLOW_HOOKS:
                out.setdefault(key, []).append((t, name, snap))
        return out

    def event_log(self):
        """Abstract, content-free log used for the run digest."""
        ev = []
        for t, name, key, snap in self.hooks:
            ev.append((round(t, 6), "hook", name))
        for c in self.clients + self.servers:
            for t, d in c.rx_log:
                ev.append((round(t, 6), c.kind, "w", len(d)))
            for t, d in c.tx_log:
                ev.append((round(t, 6), c.kind, "r", len(d)))
            ev.append((c.kind, "closed", c.proxy_closed, round(c.close_time or -1, 6)))
        ev.sort(key=repr)
        return ev


# ---------------------------------------------------------------------------
# origin peer
# ---------------------------------------------------------------------------
def default_reply(tok: int, method: bytes) -> dict:
    body = b"tok%d" % tok
    return {"data": S(b"HTTP/1.1 200 OK\r\nContent-Length: %d\r\nX-Tok: %d\r\n\r\n%s" % (len(body), tok, body))}


async def origin_h1(world, obs, conn, spec):
    """Answers each complete request (as read by P) with its scripted reply."""
    replies = spec.get("replies", {})
    consumed = 0
    served = 0
    early_done: set = set()
    idle = spec.get("idle_close", 30.0)
    greeting = spec.get("greeting")
    if greeting:
        await conn.send(B(greeting["data"]), greeting.get("cuts", ()), greeting.get("gaps", ()))
    while True:
        data = bytes(conn.rx)
        progressed = False
        if len(data) > consumed:
            try:
                m = P.parse_request(data, consumed)
            except P.Ambiguous as e:
                obs.origin_log.append((world.loop.time(), conn.id, "ambiguous", e.reason))
                m = None
                # an origin that cannot frame the stream gives up on the connection
                await asyncio.sleep(spec.get("ambiguous_close_after", 1.0))
                conn.send_eof()
                return
            except P.IncompleteBody as e:
                m = None
                # a server may answer before it has read the whole request body
                tm = TOK_RE.search(e.msg.target)
                tok = int(tm.group(1)) if tm else -1
                r = replies.get(str(tok))
                if r is not None and r.get("early") and tok not in early_done:
                    early_done.add(tok)
                    obs.origin_log.append((world.loop.time(), conn.id, "early_reply", tok))
                    world.net.fired("early_reply")
                    if r.get("data"):
                        await conn.send(B(r["data"]), r.get("cuts", ()), r.get("gaps", ()))
                    continue
            except P.Incomplete:
                m = None
            if m is not None:
                consumed = m.end
                progressed = True
                if m.method.upper() == b"CONNECT" and spec.get("accept_connect", True):
                    # behave like an HTTP proxy: open the tunnel, then serve the tunnelled requests on this pipe
                    conn.tunnel_to = m.target
                    obs.origin_log.append((world.loop.time(), conn.id, "connect", m.target.decode("latin1")))
                    st = spec.get("connect_status", 200)
                    conn.feed(b"HTTP/1.1 %d %s\r\n\r\n" % (st, b"Connection established" if st == 200 else b"Refused"))
                    if st != 200:
                        conn.send_eof()
                        return
                    continue
                tm = TOK_RE.search(m.target)
                tok = int(tm.group(1)) if tm else -1
                r = replies.get(str(tok))
                if r is None:
                    r = spec.get("default_reply") or default_reply(tok, m.method)
                obs.origin_log.append((world.loop.time(), conn.id, "request", tok))
                if tok in early_done:
                    # already answered before the body was complete
                    served += 1
                    then = r.get("then", "keep")
                    if then == "fin":
                        conn.send_eof()
                        await _drain_until_closed(conn, idle)
                        return
                    continue
                if spec.get("continue_on_expect") and (m.get(b"expect") or b"").strip().lower() == b"100-continue":
                    # an RFC 9110 10.1.1 origin: a request that still carries the expectation is answered with an
                    # interim 100 first (mitmproxy answers the client's expectation itself and strips the field)
                    obs.origin_log.append((world.loop.time(), conn.id, "expect_continue", tok))
                    world.net.fired("origin_100_continue")
                    conn.feed(b"HTTP/1.1 100 Continue\r\n\r\n")
                if r.get("delay"):
                    await asyncio.sleep(r["delay"])
                if r.get("data"):
                    await conn.send(B(r["data"]), r.get("cuts", ()), r.get("gaps", ()))
                served += 1
                then = r.get("then", "keep")
                if then == "fin":
                    conn.send_eof()
                    await _drain_until_closed(conn, idle)
                    return
                if then == "rst":
                    conn.reset()
                    return
                if then == "tunnel":
                    await origin_tunnel(world, obs, conn, spec, r, consumed)
                    return
        if progressed:
            continue
        if conn.rx_eof:
            if not conn.peer_eof:
                conn.send_eof()
            return
        if not await conn.wait_change(idle):
            conn.send_eof()
            return


async def _drain_until_closed(conn, idle):
    while not conn.rx_eof:
        if not await conn.wait_change(idle):
            return


async def origin_tunnel(world, obs, conn, spec, r, start=0):
    """After a 2xx to CONNECT (upstream proxy peer) or a 101: echo-style opaque peer.

    `start` = offset in conn.rx where the opaque stream begins (end of the request that opened the tunnel).
    With r["echo"] set, every opaque byte received (including what arrived glued to the request) is sent back
    verbatim, after the scripted `inner` steps, until the proxy closes its side."""
    inner = r.get("inner")
    if inner:
        for step in inner:
            if step["op"] == "send":
                await conn.send(B(step["data"]), step.get("cuts", ()), step.get("gaps", ()))
            elif step["op"] == "sleep":
                await asyncio.sleep(step["t"])
            elif step["op"] == "fin":
                conn.send_eof()
    if r.get("echo"):
        pos = start
        idle = spec.get("idle_close", 30.0)
        while not conn.peer_eof:
            data = bytes(conn.rx)
            if len(data) > pos:
                obs.origin_log.append((world.loop.time(), conn.id, "echo", len(data) - pos))
                conn.feed(data[pos:])
                pos = len(data)
                continue
            if conn.rx_eof or not await conn.wait_change(idle):
                break
    await _drain_until_closed(conn, spec.get("idle_close", 30.0))
    if not conn.peer_eof:
        conn.send_eof()


# ---------------------------------------------------------------------------
# client peer
# ---------------------------------------------------------------------------
def count_final_responses(data: bytes, methods, eof) -> int:
    p = P.parse_responses(data, methods, eof)
    return sum(1 for m in p.msgs if not (100 <= m.status <= 199 and m.status != 101))


async def client_h1(world, obs, conn, cspec):
    methods = [B(m) for m in cspec.get("methods", [])]
    for step in cspec.get("steps", []):
        op = step["op"]
        if conn.proxy_closed and op in ("send",):
            obs.client_log.append((world.loop.time(), conn.id, "skip_send_closed"))
            continue
        if op == "send":
            await conn.send(B(step["data"]), step.get("cuts", ()), step.get("gaps", ()), step.get("gap", 0.0))
        elif op == "sleep":
            await asyncio.sleep(step["t"])
        elif op == "await":
            # wait until n final responses have been received, the proxy closed, or timeout
            deadline = world.loop.time() + step.get("timeout", 30.0)
            while True:
                if conn.proxy_closed or conn.rx_eof:
                    break
                n = count_final_responses(bytes(conn.received), methods, False)
                if n >= step["n"]:
                    break
                left = deadline - world.loop.time()
                if left <= 0:
                    obs.client_log.append((world.loop.time(), conn.id, "await_timeout", step["n"]))
                    break
                await conn.wait_change(left)
        elif op == "await_bytes":
            deadline = world.loop.time() + step.get("timeout", 30.0)
            while conn.rx_total < step["n"] and not conn.proxy_closed:
                left = deadline - world.loop.time()
                if left <= 0:
                    break
                await conn.wait_change(left)
        elif op == "await_marker":
            # wait until the given byte string has shown up in what the proxy wrote (opaque streams after an upgrade)
            deadline = world.loop.time() + step.get("timeout", 30.0)
            marker = B(step["marker"])
            while marker not in bytes(conn.received) and not (conn.proxy_closed or conn.rx_eof):
                left = deadline - world.loop.time()
                if left <= 0:
                    obs.client_log.append((world.loop.time(), conn.id, "await_timeout", step["marker"]))
                    break
                await conn.wait_change(left)
        elif op == "fin":
            conn.send_eof()
        elif op == "rst":
            conn.reset()
        elif op == "await_close":
            deadline = world.loop.time() + step.get("timeout", 60.0)
            while not conn.proxy_closed:
                left = deadline - world.loop.time()
                if left <= 0:
                    break
                await conn.wait_change(left)


# ---------------------------------------------------------------------------
# run
# ---------------------------------------------------------------------------
def apply_conn_faults(world, conn, faults, role, nth):
    for f in faults:
        if f.get("conn") != role or f.get("nth", 0) != nth:
            continue
        k = f["kind"]
        if k == "drain_error":
            conn.drain_fault = (f.get("at_bytes", 0), oserror(f.get("err", "reset")))
        elif k == "write_eof_error":
            conn.write_eof_fault = oserror("pipe")
        elif k == "close_error":
            conn.close_fault = oserror("reset")
        elif k == "stall":
            conn.stall_until = f.get("until", 1.0)
        elif k in ("rst_at", "fin_at"):
            # peer closes once the proxy has written `at_bytes` bytes on this connection
            at = f.get("at_bytes", 0)

            def hook(c, data, conn=conn, at=at, k=k, f=f):
                if c is conn and not f.get("_done") and c.rx_total + len(data) >= at:
                    f["_done"] = True
                    world.loop.call_soon(conn.reset if k == "rst_at" else conn.send_eof)
            world.net.write_hooks.append(hook)
        elif k in ("rst_time", "fin_time"):
            world.loop.call_later(f.get("t", 0.0), conn.reset if k == "rst_time" else conn.send_eof)


def run(sc, *, keep_log=False, monitors=(), extra_addons=(), with_addons=None, settle=None):
    obs = Obs()
    faults = [dict(f) for f in sc.get("faults", [])]
    origins = sc.get("origins", {})
    server_ord = {"n": 0}
    attempts: dict = {}

    async def body(w):
        obs.world = w
        pol = Policy(w, sc.get("policy"))
        obs.policy = pol
        w.policy = pol

        def on_hook(t, name, data):
            if name in HTTP_FLOW_HOOKS:
                obs.flow_objs.setdefault(data.id, data)
                obs.hooks.append((t, name, data.id, snap_http(data)))
            elif name in CONN_HOOKS:
                if name.startswith("client"):
                    obs.hooks.append((t, name, data.id, {"error": data.error, "peername": data.peername}))
                else:
                    obs.hooks.append((t, name, data.server.id,
                                      {"error": data.server.error, "address": data.server.address,
                                       "client": data.client.id}))
            else:
                obs.hooks.append((t, name, getattr(data, "id", None), None))
        w.hook_listeners.append(on_hook)

        def on_hook_done(name, data):
            # what the flow looked like when the hook (incl. interception and edits) completed:
            # this is the state mitmproxy goes on to forward
            if name in ("requestheaders", "request", "responseheaders", "response"):
                obs.done_snaps[(data.id, name)] = snap_http(data)
        w.hook_done_listeners.append(on_hook_done)
        for m in monitors:
            m(w, obs)

        def planner(host, port, n, proto):
            key = f"{host}:{port}"
            spec = origins.get(key) or origins.get("*")
            if spec is None:
                return ConnectPlan(error=oserror("refused"))
            k = attempts.get(key, 0)
            attempts[key] = k + 1
            cl = spec.get("connect") or [{}]
            c = cl[min(k, len(cl) - 1)]
            delay = c.get("delay", 0.0)
            if c.get("error"):
                return ConnectPlan(delay=delay, error=oserror(c["error"], c.get("errmsg")))

            def accept(conn):
                i = server_ord["n"]
                server_ord["n"] += 1
                obs.servers.append(conn)
                apply_conn_faults(w, conn, faults, "server", i)
                kind = spec.get("kind", "h1")
                if kind == "h1":
                    coro = origin_h1(w, obs, conn, spec)
                elif kind == "silent":
                    coro = _drain_until_closed(conn, spec.get("idle_close", 30.0))
                else:
                    coro = sc["_origin_factory"](w, obs, conn, spec)
                t = w.loop.create_task(coro, name=f"sim-origin-{conn.id}")
                conn.peer_task = t
            return ConnectPlan(delay=delay, accept=accept, peername=tuple(c["peername"]) if c.get("peername") else None)
        w.net.connect_planner = planner

        tasks = []
        for ci, cspec in enumerate(sc.get("clients", [])):
            async def one(ci=ci, cspec=cspec):
                if cspec.get("start"):
                    await asyncio.sleep(cspec["start"])
                conn = w.connect_client(mode=cspec.get("mode"),
                                        peername=tuple(cspec.get("peername", ("192.168.1.7", 50000 + ci))),
                                        original_dst=tuple(cspec["original_dst"]) if cspec.get("original_dst") else None)
                obs.clients.append(conn)
                apply_conn_faults(w, conn, faults, "client", ci)
                factory = cspec.get("_factory")
                if factory:
                    await factory(w, obs, conn, cspec)
                else:
                    await client_h1(w, obs, conn, cspec)
            tasks.append(w.loop.create_task(one(), name=f"sim-clientpeer-{ci}"))
        done, pending = await asyncio.wait(tasks, timeout=sc.get("max_time", 600.0))
        for t in done:
            if t.exception():
                raise t.exception()
        if pending:
            raise W.HarnessError("client peer did not finish within max_time")
        # quiescence: let everything settle for tcp_timeout + margin with no further input
        await asyncio.sleep(settle if settle is not None else sc.get("settle", 5.0))
        # origin peers must be done or idle; collect their exceptions
        for c in obs.servers:
            t = getattr(c, "peer_task", None)
            if t is not None and t.done() and not t.cancelled() and t.exception():
                raise t.exception()
        for c in obs.clients:
            c.handler_done = c.task.done()
        obs.pending_hooks = [s[1] for s in w.hook_spans if s[3] is None]
        # census of what each connection handler still holds (must be read before teardown cancels everything)
        obs.transport_census = [
            (h.client.peername, [(str(k), io.handler is not None and not io.handler.done(),
                                  io.writer is not None and not io.writer.is_closing())
                                 for k, io in h.transports.items()])
            for h in w.handlers]
        obs.leaked = w.leaked_tasks(ignore=("client playback",))
        obs.sim_s = w.loop.time()
        return obs

    opts = dict(sc.get("options", {}))
    _, w = W.run_world(body, eager=sc.get("eager", False), seed=sc.get("seed", 0),
                       options=opts, modes=sc.get("modes"), keep_log=keep_log,
                       extra_addons=extra_addons, with_addons=with_addons,
                       max_iterations=sc.get("max_iterations", 400_000))
    return obs


def crash_violations(sc, obs):
    """Crash monitor: only the first crash of a run is reported (later ones are usually
    consequences of a generator that died mid-way).  The key carries the context needed
    to tell findings apart."""
    w = obs.world
    if not w.crashes:
        return []
    t, msg, tb = w.crashes[0]
    async_cc = any(p["hook"] == "client_connected" and p.get("latency", 0) > 0 for p in sc.get("policy", []))
    key = {"where": tb.split(" @ ")[-1] if " @ " in tb else msg[:60], "exc": tb.split(":")[0],
           "eager": bool(sc.get("eager")), "async_client_connected": async_cc,
           "early_reply": bool(w.net.faults_fired.get("early_reply")),
           "request_streamed": bool(sc.get("options", {}).get("stream_large_bodies")) or any(
               p.get("action") == "stream" and p.get("which") == "request" for p in sc.get("policy", []))}
    return [{"class": "crash", "key": key, "msg": f"t={t:.6f} {msg} {tb}"}]
