"""Virtual-time asyncio event loop.

Only the clock and the I/O poll are replaced: Task / Future / Lock / Event /
StreamReader semantics are CPython's.  The ready queue is never reordered.
"""
from __future__ import annotations

import asyncio
from asyncio import base_events

TICK = 1e-6
RESOLUTION = 1e-6


class SimulatorEscape(RuntimeError):
    """Code under simulation tried to reach a real thread pool / socket / resolver."""


class SimDeadlock(RuntimeError):
    """Nothing is runnable and no timer is pending (the driver itself is stuck)."""


class SimLivelock(RuntimeError):
    pass


class _FakeSelector:
    def __init__(self, loop: "VLoop"):
        self.loop = loop

    def select(self, timeout):
        loop = self.loop
        loop.iterations += 1
        if loop.iterations > loop.max_iterations:
            raise SimLivelock(f"more than {loop.max_iterations} loop iterations")
        if timeout is None:
            raise SimDeadlock("event loop has nothing to run and no timer")
        if timeout > 0 and loop._scheduled:
            when = loop._scheduled[0]._when
            if when > loop._now:
                loop._now = when
        loop._now += TICK
        return ()

    def close(self):
        pass


class VLoop(base_events.BaseEventLoop):
    def __init__(self, max_iterations: int = 2_000_000):
        super().__init__()
        self._now = 0.0
        self._clock_resolution = RESOLUTION
        self._selector = _FakeSelector(self)
        self.iterations = 0
        self.max_iterations = max_iterations

    # --- clock -------------------------------------------------------------
    def time(self) -> float:
        return self._now

    # --- I/O poll ------------------------------------------------------------
    def _process_events(self, event_list):
        pass

    def _write_to_self(self):
        pass

    # --- escapes ---------------------------------------------------------------
    def _escape(self, name):
        raise SimulatorEscape(name)

    def run_in_executor(self, executor, func, *args):
        self._escape(f"run_in_executor({getattr(func, '__name__', func)!r})")

    async def getaddrinfo(self, *a, **kw):
        self._escape("getaddrinfo")

    async def getnameinfo(self, *a, **kw):
        self._escape("getnameinfo")

    async def create_connection(self, *a, **kw):
        self._escape("create_connection")

    async def create_server(self, *a, **kw):
        self._escape("create_server")

    async def create_datagram_endpoint(self, *a, **kw):
        self._escape("create_datagram_endpoint")

    async def create_unix_connection(self, *a, **kw):
        self._escape("create_unix_connection")

    async def subprocess_exec(self, *a, **kw):
        self._escape("subprocess_exec")

    async def subprocess_shell(self, *a, **kw):
        self._escape("subprocess_shell")

    def add_reader(self, *a, **kw):
        self._escape("add_reader")

    def add_writer(self, *a, **kw):
        self._escape("add_writer")

    def add_signal_handler(self, *a, **kw):
        self._escape("add_signal_handler")

    async def sock_recv(self, *a, **kw):
        self._escape("sock_recv")

    async def sock_sendall(self, *a, **kw):
        self._escape("sock_sendall")

    async def sock_connect(self, *a, **kw):
        self._escape("sock_connect")

    async def sock_accept(self, *a, **kw):
        self._escape("sock_accept")


def run(coro_fn, *, eager: bool = False, max_iterations: int = 2_000_000):
    """Run ``coro_fn(loop)`` to completion on a fresh VLoop and close it."""
    loop = VLoop(max_iterations=max_iterations)
    asyncio.set_event_loop(loop)
    if eager:
        loop.set_task_factory(asyncio.eager_task_factory)
    try:
        return loop.run_until_complete(coro_fn(loop))
    finally:
        try:
            pending = [t for t in asyncio.all_tasks(loop) if not t.done()]
            for t in pending:
                t.cancel()
            if pending:
                try:
                    loop.run_until_complete(
                        asyncio.gather(*pending, return_exceptions=True)
                    )
                except BaseException:
                    pass
        finally:
            asyncio.set_event_loop(None)
            loop.close()
