"""Keyed deterministic randomness: one integer decides everything."""
from __future__ import annotations

import hashlib
import random


def derive(seed: int, *parts) -> int:
    h = hashlib.blake2b(digest_size=8)
    h.update(str(seed).encode())
    for p in parts:
        h.update(b"\x00")
        h.update(str(p).encode())
    return int.from_bytes(h.digest(), "big")


class KeyedRng:
    """``rng.at("site")`` gives an independent ``random.Random`` per site name, so
    removing a step while shrinking does not shift unrelated draws."""

    def __init__(self, seed: int):
        self.seed = seed
        self._streams: dict[str, random.Random] = {}

    def at(self, site: str) -> random.Random:
        r = self._streams.get(site)
        if r is None:
            r = self._streams[site] = random.Random(derive(self.seed, site))
        return r

    def sub(self, *parts) -> "KeyedRng":
        return KeyedRng(derive(self.seed, *parts))


def run_seed(master: int, prop: str, index: int) -> int:
    return derive(master, prop, index)
