"""SimFS — simulated file system for the storage world.

In-memory files with a *durable image* (what the operating system has been handed
through raw ``write()`` calls) and a log of those raw calls.  ``SimFS.open`` puts a
**real** ``io.BufferedWriter`` / ``io.BufferedReader`` (and ``io.TextIOWrapper`` for text
modes) on top of a ``SimRawFile``, so Python-level buffering, flushing, short-write retry and
error propagation are CPython's own.

process crash  = ``SimFS.crash()``: every open buffered object is abandoned without flush
                 (bytes still sitting in a Python buffer are lost, later writes of the dead
                 process go nowhere) -> read ``SimFS.durable(path)``.
                 ``SimFS.durable(path)`` at any instant is exactly the image a crash at that
                 instant would leave behind, so "crash after every step" is a cheap probe.
process exit   = ``SimFS.exit_process()``: interpreter finalisation closes (and thereby tries
                 to flush) every file that is still open; errors are swallowed like at exit.

write faults (``SimFS(write_faults=[...])``; ``nth`` counts raw write() calls, 0-based, over
the whole file system unless the fault has a ``path``):
  {"kind": "short",  "nth": n, "keep": k}     the n-th write stores only k (>=1) bytes and returns k
  {"kind": "short",  "every": m, "keep": k}   every m-th write is short
  {"kind": "enospc", "nth": n, "partial": k}  disk full from the n-th write on: that write stores k
                                              bytes (k>0: short count, the *next* write raises),
                                              every later write raises ENOSPC until free_space()
  {"kind": "eio",    "nth": n, "partial": k}  the n-th write stores k bytes and raises EIO (one-shot)

image faults (pure function ``mutate_image(data, fault)`` / ``SimFS.corrupt(path, fault)``):
  {"kind": "truncate", "at": off}
  {"kind": "bitflip", "pos": off, "bit": 0..7}
  {"kind": "zero_tail", "from": off}                zero-filled tail (length preserved)
  {"kind": "zero_block", "start": off, "len": n}
  {"kind": "dup_block", "start": off, "len": n, "at": off2}   block inserted a second time at off2
  {"kind": "garbage_tail", "data": latin-1 str, "from": off|None}   tail replaced / appended
  {"kind": "garbage_block", "start": off, "data": latin-1 str}  overwrite in place
  {"kind": "replace", "data": latin-1 str}         arbitrary file contents
Offsets are reduced modulo the image length, so a fault stays applicable while a scenario shrinks.
"""
from __future__ import annotations

import contextlib
import errno
import io
import os
import posixpath
import weakref
from datetime import datetime, timedelta


# ---------------------------------------------------------------------------
# image faults
# ---------------------------------------------------------------------------
IMAGE_FAULT_KINDS = ("truncate", "bitflip", "zero_tail", "zero_block", "dup_block", "garbage_tail",
                     "garbage_block", "replace")


def _off(v, n, inclusive=False):
    n2 = n + 1 if inclusive else n
    if n2 <= 0:
        return 0
    return int(v) % n2


def mutate_image(data: bytes, fault: dict) -> bytes:
    """Apply one storage fault to a stored image (pure)."""
    kind = fault["kind"]
    n = len(data)
    if kind == "truncate":
        return data[:_off(fault["at"], n, True)]
    if kind == "bitflip":
        if n == 0:
            return data
        p = _off(fault["pos"], n)
        b = bytearray(data)
        b[p] ^= 1 << (int(fault.get("bit", 0)) & 7)
        return bytes(b)
    if kind == "zero_tail":
        p = _off(fault["from"], n, True)
        return data[:p] + b"\x00" * (n - p)
    if kind == "zero_block":
        p = _off(fault["start"], n, True)
        ln = min(int(fault["len"]), n - p)
        return data[:p] + b"\x00" * ln + data[p + ln:]
    if kind == "dup_block":
        p = _off(fault["start"], n, True)
        ln = min(int(fault["len"]), n - p)
        at = _off(fault.get("at", p + ln), n, True)
        return data[:at] + data[p:p + ln] + data[at:]
    if kind == "garbage_tail":
        g = fault["data"].encode("latin-1")
        frm = fault.get("from")
        if frm is None:
            return data + g
        return data[:_off(frm, n, True)] + g
    if kind == "garbage_block":
        g = fault["data"].encode("latin-1")
        p = _off(fault["start"], n, True)
        return data[:p] + g + data[p + len(g):]
    if kind == "replace":
        return fault["data"].encode("latin-1")
    raise ValueError(f"unknown image fault kind {kind!r}")


# ---------------------------------------------------------------------------
# files
# ---------------------------------------------------------------------------
class Inode:
    __slots__ = ("data", "nlink")

    def __init__(self):
        self.data = bytearray()
        self.nlink = 1


class SimRawFile(io.RawIOBase):
    """Unbuffered file: every ``write`` is one simulated write(2)."""

    def __init__(self, fs: "SimFS", path: str, inode: Inode, *, reading: bool, writing: bool, append: bool):
        super().__init__()
        self.fs = fs
        self.path = path
        self.name = path
        self.inode = inode
        self._r = reading
        self._w = writing
        self._append = append
        self._pos = len(inode.data) if append else 0
        self.dead = False  # owning process has crashed: writes go nowhere
        self.mode = ("rb+" if reading and writing else "ab" if append else "wb" if writing else "rb")

    # capabilities
    def readable(self):
        return self._r

    def writable(self):
        return self._w

    def seekable(self):
        return True

    def isatty(self):
        return False

    def fileno(self):
        raise io.UnsupportedOperation("SimRawFile has no file descriptor")

    # positioning
    def tell(self):
        return self._pos

    def seek(self, off, whence=os.SEEK_SET):
        if whence == os.SEEK_SET:
            p = off
        elif whence == os.SEEK_CUR:
            p = self._pos + off
        elif whence == os.SEEK_END:
            p = len(self.inode.data) + off
        else:
            raise ValueError("bad whence")
        if p < 0:
            raise OSError(errno.EINVAL, "Invalid argument")
        self._pos = p
        return p

    def truncate(self, size=None):
        if not self._w:
            raise io.UnsupportedOperation("truncate")
        if size is None:
            size = self._pos
        d = self.inode.data
        if size < len(d):
            del d[size:]
        else:
            d.extend(b"\x00" * (size - len(d)))
        self.fs._event("truncate", self.path, size=size)
        return size

    # I/O
    def readinto(self, b):
        if not self._r:
            raise io.UnsupportedOperation("read")
        d = self.inode.data
        n = max(0, min(len(b), len(d) - self._pos))
        b[:n] = d[self._pos:self._pos + n]
        self._pos += n
        return n

    def write(self, b):
        if self.closed:
            raise ValueError("write to closed file")
        if not self._w:
            raise io.UnsupportedOperation("write")
        mv = memoryview(b).cast("B")
        if self.dead:
            return len(mv)
        return self.fs._raw_write(self, bytes(mv))

    def _store(self, data: bytes):
        d = self.inode.data
        if self._append:
            self._pos = len(d)
        if self._pos > len(d):
            d.extend(b"\x00" * (self._pos - len(d)))
        d[self._pos:self._pos + len(data)] = data
        self._pos += len(data)

    def close(self):
        if not self.closed and not self.dead:
            self.fs._event("close", self.path)
            self.fs._forget(self)
        super().close()


class SimFS:
    def __init__(self, *, write_faults=(), clock=None, buffer_size: int | None = None, cwd: str = "/sim"):
        self.files: dict[str, Inode] = {}
        self.dirs: set[str] = {"/", cwd}
        self.cwd = cwd
        self.clock = clock  # callable -> seconds since the epoch (for strftime path rotation)
        self.buffer_size = buffer_size
        self.write_faults = [dict(f) for f in write_faults]
        self.full = False
        self.n_writes = 0
        self.write_log: list[dict] = []  # one entry per raw write() call
        self.events: list[tuple] = []  # (seq, what, path, info) open/close/truncate/mkdir/unlink
        self.fired: dict[str, int] = {}
        self.listeners: list = []  # callables(entry: dict) after every raw write
        self.event_listeners: list = []  # callables(what, path, info) on open/close/truncate/mkdir/unlink/crash/exit
        self._open: list = []  # (raw, top-level file object)
        self._seq = 0

    # -- helpers ----------------------------------------------------------------
    def norm(self, path) -> str:
        p = os.fspath(path)
        if not p.startswith("/"):
            p = posixpath.join(self.cwd, p)
        return posixpath.normpath(p)

    def _event(self, what, path, **info):
        self._seq += 1
        self.events.append((self._seq, what, path, info))
        for l in self.event_listeners:
            l(what, path, info)

    def _forget(self, raw):
        self._open = [(r, f) for r, f in self._open if r is not raw]

    def _fire(self, kind):
        self.fired[kind] = self.fired.get(kind, 0) + 1

    def _fault_for(self, raw, idx):
        for f in self.write_faults:
            if f.get("path") is not None and self.norm(f["path"]) != raw.path:
                continue
            if f.get("done"):
                continue
            if "nth" in f and f["nth"] == idx:
                return f
            if "every" in f and f["every"] > 0 and (idx + 1) % f["every"] == 0:
                return f
        return None

    def _raw_write(self, raw: SimRawFile, data: bytes) -> int:
        idx = self.n_writes
        self.n_writes += 1
        entry = {"i": idx, "path": raw.path, "offset": len(raw.inode.data) if raw._append else raw._pos,
                 "requested": len(data), "written": 0, "error": None}
        self.write_log.append(entry)
        try:
            if self.full:
                self._fire("enospc")
                entry["error"] = "ENOSPC"
                raise OSError(errno.ENOSPC, "No space left on device")
            f = self._fault_for(raw, idx) if data else None
            if f is not None:
                kind = f["kind"]
                if kind == "short":
                    k = max(1, min(int(f.get("keep", 1)), len(data)))
                    if k < len(data):
                        self._fire("short_write")
                    raw._store(data[:k])
                    entry["written"] = k
                    return k
                if kind == "enospc":
                    f["done"] = True
                    self.full = True
                    k = max(0, min(int(f.get("partial", 0)), len(data) - 1))
                    self._fire("enospc")
                    if k > 0:
                        raw._store(data[:k])
                        entry["written"] = k
                        return k
                    entry["error"] = "ENOSPC"
                    raise OSError(errno.ENOSPC, "No space left on device")
                if kind == "eio":
                    f["done"] = True
                    k = max(0, min(int(f.get("partial", 0)), len(data)))
                    raw._store(data[:k])
                    entry["written"] = k
                    entry["error"] = "EIO"
                    self._fire("eio")
                    raise OSError(errno.EIO, "Input/output error")
                raise ValueError(f"unknown write fault kind {kind!r}")
            raw._store(data)
            entry["written"] = len(data)
            return len(data)
        finally:
            for l in self.listeners:
                l(entry)

    def free_space(self):
        self.full = False

    # -- namespace ----------------------------------------------------------------
    def mkdir(self, path, parents=False, exist_ok=False):
        p = self.norm(path)
        if p in self.dirs:
            if exist_ok:
                return
            raise FileExistsError(errno.EEXIST, "File exists", p)
        if p in self.files:
            raise FileExistsError(errno.EEXIST, "File exists", p)
        parent = posixpath.dirname(p)
        if parent not in self.dirs:
            if not parents:
                raise FileNotFoundError(errno.ENOENT, "No such file or directory", p)
            self.mkdir(parent, parents=True, exist_ok=True)
        self.dirs.add(p)
        self._event("mkdir", p)

    def exists(self, path):
        p = self.norm(path)
        return p in self.files or p in self.dirs

    def isdir(self, path):
        return self.norm(path) in self.dirs

    def unlink(self, path):
        p = self.norm(path)
        if p not in self.files:
            raise FileNotFoundError(errno.ENOENT, "No such file or directory", p)
        del self.files[p]
        self._event("unlink", p)

    def listdir(self, path="/"):
        p = self.norm(path)
        pre = p.rstrip("/") + "/"
        out = set()
        for q in list(self.files) + list(self.dirs):
            if q != p and q.startswith(pre):
                out.add(q[len(pre):].split("/")[0])
        return sorted(out)

    def put(self, path, data: bytes):
        """Create/replace a file without going through write() (pre-existing content)."""
        p = self.norm(path)
        self.mkdir(posixpath.dirname(p), parents=True, exist_ok=True)
        ino = self.files.get(p)
        if ino is None:
            ino = self.files[p] = Inode()
        ino.data[:] = data

    # -- open ------------------------------------------------------------------------
    def open(self, path, mode="r", buffering=-1, encoding=None, errors=None, newline=None, **_kw):
        p = self.norm(path)
        m = set(mode)
        binary = "b" in m
        plus = "+" in m
        creating = "w" in m or "a" in m or "x" in m
        reading = "r" in m or plus
        writing = creating or plus
        if p in self.dirs:
            raise IsADirectoryError(errno.EISDIR, "Is a directory", p)
        if posixpath.dirname(p) not in self.dirs:
            raise FileNotFoundError(errno.ENOENT, "No such file or directory", p)
        ino = self.files.get(p)
        if ino is None:
            if not creating:
                raise FileNotFoundError(errno.ENOENT, "No such file or directory", p)
            ino = self.files[p] = Inode()
        elif "x" in m:
            raise FileExistsError(errno.EEXIST, "File exists", p)
        truncated = False
        if "w" in m:
            truncated = len(ino.data) > 0
            del ino.data[:]
        self._event("open", p, mode=mode, truncated=truncated)
        raw = SimRawFile(self, p, ino, reading=reading, writing=writing, append="a" in m)
        if buffering == 0:
            if not binary:
                raise ValueError("can't have unbuffered text I/O")
            self._open.append((raw, weakref.ref(raw)))
            return raw
        bs = buffering if buffering and buffering > 1 else (self.buffer_size or io.DEFAULT_BUFFER_SIZE)
        if reading and writing:
            buf = io.BufferedRandom(raw, buffer_size=bs)
        elif writing:
            buf = io.BufferedWriter(raw, buffer_size=bs)
        else:
            buf = io.BufferedReader(raw, buffer_size=bs)
        top = buf
        if not binary:
            top = io.TextIOWrapper(buf, encoding=encoding or "utf-8", errors=errors, newline=newline,
                                   line_buffering=(buffering == 1))
        # weak reference to the buffered object: like with a real file, dropping the last reference closes
        # (and flushes) it; only ``crash()`` makes buffered bytes disappear
        self._open.append((raw, weakref.ref(top)))
        return top

    # -- durable state -----------------------------------------------------------------
    def durable(self, path) -> bytes:
        """The image a process crash at this instant would leave behind."""
        ino = self.files.get(self.norm(path))
        return bytes(ino.data) if ino is not None else b""

    def images(self) -> dict[str, bytes]:
        return {p: bytes(i.data) for p, i in sorted(self.files.items())}

    def corrupt(self, path, fault: dict) -> bytes:
        p = self.norm(path)
        new = mutate_image(self.durable(p), fault)
        self.files[p].data[:] = new
        self._fire("image_" + fault["kind"])
        return new

    def open_paths(self):
        return sorted({r.path for r, _ in self._open})

    def crash(self) -> dict[str, bytes]:
        """Kill the simulated process: nothing that is still in a Python buffer reaches the image."""
        for raw, top in self._open:
            raw.dead = True
        self._open = []
        self._event("crash", "")
        return self.images()

    def exit_process(self) -> dict[str, bytes]:
        """Orderly interpreter exit: still-open files are closed (flush attempted, errors ignored)."""
        for raw, ref in list(self._open):
            top = ref()
            try:
                if top is not None:
                    top.close()
            except (OSError, ValueError):
                raw.dead = True
        self._open = []
        self._event("exit", "")
        return self.images()

    # -- seams -----------------------------------------------------------------------------
    def path_class(self):
        fs = self

        class SimPath:
            """The subset of pathlib.Path that mitmproxy's file-writing addons use."""

            def __init__(self, *parts):
                self._p = fs.norm(posixpath.join(*[os.fspath(x) for x in parts])) if parts else fs.cwd

            def __fspath__(self):
                return self._p

            def __str__(self):
                return self._p

            def __repr__(self):
                return f"SimPath({self._p!r})"

            def __eq__(self, other):
                return isinstance(other, SimPath) and other._p == self._p

            def __hash__(self):
                return hash(self._p)

            def __truediv__(self, other):
                return SimPath(self._p, other)

            @property
            def parent(self):
                return SimPath(posixpath.dirname(self._p))

            @property
            def name(self):
                return posixpath.basename(self._p)

            @property
            def suffix(self):
                return posixpath.splitext(self._p)[1]

            def expanduser(self):
                return self

            def absolute(self):
                return self

            def resolve(self):
                return self

            def exists(self):
                return fs.exists(self._p)

            def is_dir(self):
                return fs.isdir(self._p)

            def is_file(self):
                return self._p in fs.files

            def mkdir(self, mode=0o777, parents=False, exist_ok=False):
                fs.mkdir(self._p, parents=parents, exist_ok=exist_ok)

            def open(self, mode="r", buffering=-1, encoding=None, errors=None, newline=None):
                return fs.open(self._p, mode, buffering, encoding, errors, newline)

            def read_bytes(self):
                with self.open("rb") as f:
                    return f.read()

            def write_bytes(self, data):
                with self.open("wb") as f:
                    return f.write(data)

            def read_text(self, encoding=None, errors=None):
                with self.open("r", encoding=encoding, errors=errors) as f:
                    return f.read()

            def write_text(self, data, encoding=None, errors=None, newline=None):
                with self.open("w", encoding=encoding, errors=errors, newline=newline) as f:
                    return f.write(data)

            def unlink(self, missing_ok=False):
                try:
                    fs.unlink(self._p)
                except FileNotFoundError:
                    if not missing_ok:
                        raise

        return SimPath

    def datetime_class(self):
        """A ``datetime`` stand-in whose today()/now() follow the simulation clock (UTC, no tz database)."""
        fs = self

        class SimDateTime(datetime):
            @classmethod
            def today(cls):
                t = fs.clock() if fs.clock is not None else 0.0
                d = datetime(1970, 1, 1) + timedelta(seconds=t)
                return d

            @classmethod
            def now(cls, tz=None):
                return cls.today()

        return SimDateTime

    @contextlib.contextmanager
    def patch_save(self):
        """Route the file access of mitmproxy/addons/save.py (stream saving and ``save.file``) onto this SimFS."""
        from mitmproxy.addons import save as msave
        missing = object()
        old = {k: msave.__dict__.get(k, missing) for k in ("Path", "open", "datetime")}
        msave.Path = self.path_class()
        msave.open = self.open
        msave.datetime = self.datetime_class()
        try:
            yield self
        finally:
            for k, v in old.items():
                if v is missing:
                    msave.__dict__.pop(k, None)
                else:
                    setattr(msave, k, v)
