"""Seeded generator of HTTP/1 exchanges (DESIGN appendix C)."""
from __future__ import annotations

HOSTS = ["a.test", "b.test", "c.test"]
METHODS = ["GET", "GET", "POST", "PUT", "HEAD", "OPTIONS", "DELETE", "PATCH"]


def S(b):
    return b.decode("latin1") if isinstance(b, (bytes, bytearray)) else b


def rand_body(r, n, tok):
    base = (b"<%d>" % tok) + bytes(r.choice(b"abcdefghijklmnopqrstuvwxyz0123456789 \r\n:") for _ in range(n))
    return base[:n] if n else b""


def chunk_encode(r, body: bytes, adversarial=False, trailers=False, exts=False):
    out = bytearray()
    pos = 0
    n = len(body)
    while pos < n:
        size = min(n - pos, r.choice([1, 2, 3, 5, 8, 16, 64, 256, 1000]))
        line = b"%x" % size
        if adversarial:
            v = r.random()
            if v < 0.2:
                line = b"%X" % size
            elif v < 0.4:
                line = b"000" + line
        if exts and r.random() < 0.5:
            line += r.choice([b";x", b";a=b", b"; q=\"1\"", b";ext=1;y"])
        out += line + b"\r\n" + body[pos:pos + size] + b"\r\n"
        pos += size
    out += b"0"
    if exts and r.random() < 0.3:
        out += b";last"
    out += b"\r\n"
    if trailers:
        out += b"X-Trailer: t\r\n"
    out += b"\r\n"
    return bytes(out)


BAD_CL = ["+5", "0x5", " 5", "5 ", "5,5", "", "99999999999999999999", "-1", "5, 6", "05", "5\t", "five", "5;q=1"]
BAD_TE = ["chunked, chunked", "gzip", "gzip, chunked", "identity", "Chunked", "\x0bchunked", "chunked;q=1",
          "chunked, identity", "xchunked", "chunked ", " chunked", "chunked,", ",chunked", "CHUNKED", "deflate"]
BAD_NAMES = ["Name ", "Na me", "", "N\xe4me", "X" * 300, "Content-Length ", "Transfer-Encoding\t", "(bad)", "a/b"]


def gen_request(r, tok, *, form="absolute", host=None, port=80, profile=None):
    """Returns dict: data (bytes), method, tok, kind ('valid'|'adversarial'), host, port, body"""
    p = profile or {}
    adv = r.random() < p.get("adversarial", 0.0)
    method = r.choice(METHODS)
    if r.random() < p.get("odd_method", 0.0):
        method = r.choice(["get", "M-SEARCH", "FOO", "PROPFIND", "G\xe4T", "GE T"])
    host = host or r.choice(HOSTS)
    path = f"/r{tok}" + r.choice(["", "/x", "/p?q=1&z=%20", "/a%2Fb", "/;p", "/<b>x</b>", "/\"'&"])
    hp = host if port == 80 else f"{host}:{port}"
    if form == "absolute":
        target = f"http://{hp}{path}"
    else:
        target = path
    version = "HTTP/1.1"
    if r.random() < p.get("http10", 0.08):
        version = "HTTP/1.0"
    if adv and r.random() < 0.08:
        version = r.choice(["HTTP/0.9", "HTTP/2.0", "HTTP/1.10", "http/1.1", "HTTP/1", "JUNK"])
    headers = []
    if r.random() > p.get("no_host", 0.03):
        headers.append(["Host", hp if r.random() > p.get("host_mismatch", 0.0) else r.choice(HOSTS)])
    headers.append([f"X-F{tok}", f"v{tok}" + r.choice(["", " x", "\ty", ",z", "; q=\"a b\""])])
    if r.random() < 0.3:
        headers.append(["Cookie", f"a={tok}"])
        if r.random() < 0.3:
            headers.append(["Cookie", f"b={tok}"])
    if r.random() < 0.15:
        headers.append(["Connection", r.choice(["keep-alive", "close", "Keep-Alive", "x-foo"])])
    if r.random() < p.get("obs_fold", 0.05):
        headers.append(["X-Fold", "a\r\n b\r\n\tc"])
    body = b""
    te_chunked = False
    has_body = method in ("POST", "PUT", "PATCH") or r.random() < 0.1
    if has_body:
        n = r.choice(p.get("body_sizes", [0, 1, 5, 17, 100, 1000, 3000]))
        body = rand_body(r, n, tok)
        if version == "HTTP/1.1" and r.random() < p.get("chunked", 0.4):
            te_chunked = True
            headers.append(["Transfer-Encoding", "chunked"])
        else:
            headers.append(["Content-Length", str(len(body))])
    if r.random() < p.get("expect", 0.05) and has_body:
        headers.append(["Expect", "100-continue"])
    kind = "valid"
    wire_body = chunk_encode(r, body, exts=r.random() < 0.3,
                             trailers=r.random() < p.get("trailers", 0.0)) if te_chunked else body
    if adv:
        kind = "adversarial"
        for _ in range(r.choice([1, 1, 2])):
            v = r.random()
            if v < 0.2:
                headers.append(["Content-Length", r.choice(BAD_CL + [str(len(body)), str(len(body) + 1)])])
            elif v < 0.4:
                headers.append(["Transfer-Encoding", r.choice(BAD_TE + ["chunked"])])
            elif v < 0.5:
                headers.append([r.choice(BAD_NAMES), "x"])
            elif v < 0.6:
                headers.append(["X-Nul", r.choice(["a\x00b", "a\rb", "\x7f", "\xff\xfe"])])
            elif v < 0.7:
                # duplicate an existing framing header
                fr = [h for h in headers if h[0].lower() in ("content-length", "transfer-encoding")]
                if fr:
                    headers.append(list(r.choice(fr)))
            elif v < 0.8:
                wire_body = chunk_encode(r, body, adversarial=True, exts=True, trailers=r.random() < 0.3)
                if not te_chunked:
                    headers = [h for h in headers if h[0].lower() != "content-length"]
                    headers.append(["Transfer-Encoding", "chunked"])
            elif v < 0.9:
                r.shuffle(headers)
            else:
                headers.insert(0, [" X-Lead", "1"])
    eol = "\r\n"
    if r.random() < p.get("bare_lf", 0.02):
        eol = "\n"
    head = f"{method} {target} {version}{eol}" + "".join(f"{k}:{r.choice([' ', '', '  ', chr(9)]) if adv else ' '}{v}{eol}" for k, v in headers) + eol
    data = head.encode("latin1") + wire_body
    if adv and r.random() < 0.25:
        data = mutate(r, data)
    return {"data": data, "method": method, "tok": tok, "kind": kind, "host": host, "port": port,
            "body": body, "version": version}


def mutate(r, data: bytes) -> bytes:
    if len(data) < 4:
        return data
    v = r.random()
    i = r.randrange(len(data))
    j = min(len(data), i + r.choice([1, 2, 5, 20]))
    if v < 0.3:
        return data[:i] + data[j:]
    if v < 0.6:
        return data[:j] + data[i:j] + data[j:]
    if v < 0.8:
        return data[:i] + bytes([data[i] ^ (1 << r.randrange(8))]) + data[i + 1:]
    return data[:i] + r.choice([b"\r\n", b"\n", b"\r", b" ", b":", b"\x00"]) + data[i:]


def gen_reply(r, tok, method, profile=None):
    """Returns reply spec for the origin: {data, then, ...} plus meta."""
    p = profile or {}
    adv = r.random() < p.get("adversarial_reply", 0.0)
    status = r.choice([200, 200, 200, 201, 204, 304, 404, 500, 302])
    n = r.choice(p.get("reply_sizes", [0, 1, 7, 100, 1000, 3000]))
    body = rand_body(r, n, tok)
    headers = [[f"X-R{tok}", f"w{tok}"]]
    then = "keep"
    framing = r.choice(["cl", "cl", "chunked", "close"])
    version = "HTTP/1.1"
    if r.random() < 0.08:
        version = "HTTP/1.0"
        if framing == "chunked":
            framing = "close"
    nobody = method == "HEAD" or status in (204, 304)
    wire_body = body
    if nobody:
        wire_body = b""
        if r.random() < 0.5:
            headers.append(["Content-Length", str(len(body))])
        elif method == "HEAD" and r.random() < 0.3 and version == "HTTP/1.1":
            headers.append(["Transfer-Encoding", "chunked"])
    elif framing == "cl":
        headers.append(["Content-Length", str(len(body))])
    elif framing == "chunked":
        headers.append(["Transfer-Encoding", "chunked"])
        wire_body = chunk_encode(r, body, exts=r.random() < 0.3, trailers=r.random() < p.get("trailers", 0.0))
    else:
        then = "fin"
        if r.random() < 0.3:
            headers.append(["Connection", "close"])
    pre = b""
    if r.random() < p.get("interim", 0.05):
        pre = b"HTTP/1.1 100 Continue\r\n\r\n" if r.random() < 0.7 else b"HTTP/1.1 103 Early Hints\r\nLink: </x>\r\n\r\n"
    kind = "valid"
    if adv:
        kind = "adversarial"
        v = r.random()
        if v < 0.25:
            headers.append(["Content-Length", r.choice(BAD_CL + [str(len(body) + 3)])])
        elif v < 0.5:
            headers.append(["Transfer-Encoding", r.choice(BAD_TE)])
        elif v < 0.6:
            headers.append([r.choice(BAD_NAMES), "x"])
        elif v < 0.7:
            status = r.choice([99, 1000, 600, 0])
        elif v < 0.8:
            wire_body = chunk_encode(r, body, adversarial=True, exts=True, trailers=True)
            headers = [h for h in headers if h[0].lower() != "content-length"]
            headers.append(["Transfer-Encoding", "chunked"])
        elif v < 0.9:
            headers.append(["X-Markup", "<script>alert(1)</script>"])
        else:
            then = r.choice(["fin", "rst"])
    if r.random() < p.get("reply_close", 0.1) and then == "keep":
        then = "fin"
    reason = r.choice(["OK", "", "Fine & <dandy>", "Not Found"])
    sl = f"{version} {status}" + (f" {reason}" if reason or r.random() < 0.5 else "")
    head = sl + "\r\n" + "".join(f"{k}: {v}\r\n" for k, v in headers) + "\r\n"
    data = pre + head.encode("latin1") + wire_body
    if adv and r.random() < 0.2:
        data = mutate(r, data)
    if r.random() < p.get("tail", 0.0) and then == "keep" and framing != "close":
        # an unsolicited extra response glued behind a complete one on a keep-alive connection; its marker names a
        # token no request carries, so a proxy that hands it to the next request is caught by the marker check
        data += b"HTTP/1.1 200 OK\r\nX-R9%d: w9%d\r\nContent-Length: 8\r\n\r\nPOISONED" % (tok, tok)
        kind = "adversarial"
    spec = {"data": S(data), "then": then}
    return spec, {"status": status, "body": body, "kind": kind, "framing": framing, "nobody": nobody}


def gen_cuts(r, n, style=None):
    """Cut points for a byte string of length n."""
    if n <= 1:
        return []
    style = style or r.choice(["none", "none", "few", "many", "bytes", "head"])
    if style == "none":
        return []
    if style == "few":
        return sorted({r.randrange(1, n) for _ in range(r.choice([1, 2, 3]))})
    if style == "many":
        return sorted({r.randrange(1, n) for _ in range(min(n - 1, r.choice([5, 10, 20])))})
    if style == "bytes":
        lo = r.randrange(0, n)
        hi = min(n, lo + r.choice([4, 16, 64]))
        return list(range(max(1, lo), hi))
    if style == "head":
        return sorted({r.randrange(1, min(n, 80)) for _ in range(3)})
    return []


def gen_gaps(r, k):
    return [r.choice([0.0, 0.0, 0.001, 0.01, 0.2]) for _ in range(k + 1)]
