"""Regenerates MANIFEST.json from the property modules (run after adding a check)."""
import importlib
import json
import os
import sys

ROOT = os.path.dirname(os.path.abspath(__file__))
sys.path.insert(0, ROOT)

PURE = {
    "C25": "pure codec functions of one byte string/message (DNS wire encode/decode): no peer, schedule, clock or fault for a simulator to control; a property-based-testing target, not a simulation target",
    "C32": "pure function of (string, Content-Type): no schedule, clock, I/O or fault",
    "C33": "pure accessor algebra on one Request object: no schedule, clock, I/O or fault",
    "C34": "pure encode/decode of pair lists (query/cookie/form views): no schedule, clock, I/O or fault",
    "C35": "single-actor in-memory data structure (Headers): no time, I/O, failure or second party to interleave with",
    "C38": "pure migration function over fixed historical inputs: nothing to schedule or fail",
    "C40": "single-actor in-memory object algebra (backup/revert/copy): nothing to schedule or fail",
    "C41": "pure transformation pipeline (HAR export then import)",
    "C42": "parser/evaluator over expression trees (filter grammar): no execution environment to simulate",
    "C45": "pure lexer function (command-line quoting)",
    "C46": "route x method x credential enumeration of synchronous tornado handlers; tornado's socket server is outside the simulated system and there is no interleaving in the statement",
    "C47": "one synchronous handler call; the 'failure' is a field of the input document, not an injected fault",
    "C48": "pure string construction (needs a shell, not a simulator)",
    "C49": "pure rendering of a flow to text (mitmdump output)",
    "C50": "pure functions of (bytes, metadata) (content views)",
    "C51": "pure function (escaped binary text round trip)",
}

LEVEL_TEXT = {
    "exploration": "seeded search over scenario scripts (inputs x schedules x faults) executed by the real code under the deterministic simulator; sampling, not proof: a clean batch is evidence. ",
    "fault_enumeration": "seeded sampling of cases; inside each sampled case the fault axis (every truncation offset / every crash point) is enumerated completely. ",
}


def main():
    ids = [json.loads(l)["id"] for l in open(os.path.join(ROOT, "properties.jsonl"))]
    checks, na = [], []
    for pid in ids:
        path = os.path.join(ROOT, "props", pid.lower() + ".py")
        if pid in PURE:
            na.append({"property_id": pid, "reason": "not applicable under deterministic simulation: " + PURE[pid]})
            continue
        ready = set(open(os.path.join(ROOT, "READY")).read().split())
        if not os.path.exists(path) or pid not in ready:
            na.append({"property_id": pid, "reason": "simulation check designed (DESIGN.md section 7) but not built yet; no claim is made"})
            continue
        mod = importlib.import_module("props." + pid.lower())
        if getattr(mod, "NOT_CLAIMED", None):
            na.append({"property_id": pid, "reason": mod.NOT_CLAIMED})
            continue
        level = getattr(mod, "LEVEL", "exploration")
        checks.append({
            "property_id": pid,
            "engine": getattr(mod, "ENGINE", "simkit/proxy-world"),
            "quick_cmd": f"timeout 1500 ./vcheck {pid} --tier quick",
            "thorough_cmd": f"timeout 7200 ./vcheck {pid} --tier thorough",
            "replay_cmd_template": "./vcheck replay {path}",
            "evidence_file": f"evidence/{pid}.json",
            "level_claimed": {"category": level,
                              "text": LEVEL_TEXT[level] + getattr(mod, "LEVEL_TEXT", mod.RULE),
                              "design_ref": f"DESIGN.md section 7 {pid}"},
            "level_note": "trusts: " + "; ".join(getattr(mod, "ASSUMPTIONS", [])) +
                          " | real: " + ", ".join(getattr(mod, "COMPONENTS_REAL", [])) +
                          " | stubbed: " + ", ".join(getattr(mod, "COMPONENTS_STUB", [])),
            "technique": getattr(mod, "TECHNIQUE", "deterministic simulation with fault injection: seeded schedule/fault search under a virtual-time event loop"),
        })
    man = {
        "version": 1,
        "setup_cmd": "/venv/bin/python -c \"import mitmproxy, h2, wsproto, OpenSSL, h11\" && chmod +x ./vcheck",
        "hooks": {
            "guard": "MITMPROXY_VERIF",
            "enable": "no source hooks: every seam (asyncio.open_connection/start_server, mitmproxy_rs.udp.*, time.time, uuid.uuid4, platform.original_addr) is a module attribute replaced by the harness at run time; vcheck sets MITMPROXY_VERIF=1 but no repo code reads it",
            "baseline_off_cmd": "cd /repo && /venv/bin/python -m pytest -ra -q -p no:cacheprovider --timeout=900 --continue-on-collection-errors",
            "source_commits": [],
            "add_only": True,
        },
        "engines": [
            {"name": "simkit/proxy-world", "path": "simkit/", "kind_free_text": "virtual-time asyncio loop (VLoop) + SimNet + scripted peers around the real Master/addons/ProxyConnectionHandler/layers",
             "serves_properties": [c["property_id"] for c in checks if c["engine"] == "simkit/proxy-world"]},
            {"name": "simkit/layer-harness", "path": "simkit/", "kind_free_text": "sans-io layers driven directly with scheduled events/completions",
             "serves_properties": [c["property_id"] for c in checks if c["engine"] == "simkit/layer-harness"]},
            {"name": "simkit/model-world", "path": "simkit/", "kind_free_text": "real component + seeded multi-actor operation/fault history + reference model",
             "serves_properties": [c["property_id"] for c in checks if c["engine"] == "simkit/model-world"]},
            {"name": "simkit/storage-world", "path": "simkit/", "kind_free_text": "SimFS (durable image, torn/short/failed writes, crash) under the real flow writer/reader/Save",
             "serves_properties": [c["property_id"] for c in checks if c["engine"] == "simkit/storage-world"]},
        ],
        "checks": checks,
        "not_applicable": na,
        "notes": "All checks: ./vcheck <id> [--tier quick|thorough]; env VERIF_SEED, VERIF_TIER, VERIF_JOBS, VERIF_BUDGET_S, VERIF_REPO. Exit 0 held / 1 VIOLATION / 2 HARNESS-ERROR. known_findings.json lists genuine defects (open: KNOWN-FINDING lines; fixed: regression replays).",
    }
    with open(os.path.join(ROOT, "MANIFEST.json"), "w") as f:
        json.dump(man, f, indent=1)
    print(f"claimed={len(checks)} not_applicable={len(na)}")


if __name__ == "__main__":
    main()
