"""Independent transcription of the IANA IPv4 / IPv6 Special-Purpose Address Registries
(RFC 6890 and the later registrations) for the C22 oracle.

Nothing here uses ``ipaddress.is_global`` / ``is_private`` / ``is_loopback`` (that is the
code under test's source of truth); addresses are parsed and formatted by hand.

Every entry: (prefix, prefix_len, name, globally_reachable, assertable)

* ``globally_reachable`` is the registry column: True / False / None ("N/A").
* ``assertable`` is False for the blocks on which the registries and CPython's ``ipaddress``
  tables are known to disagree in at least one Python release (3.9 .. 3.13): the shared
  address space, the 192.0.0.0/24 carve-outs, the NAT64 prefixes, the sub-allocations of
  2001::/23, and the 2024 registrations.  Those addresses are generated but carry no verdict.

Classification of an address = the most specific registry entry containing it:
  reachable False -> "private", True -> "global", None -> "na"; no entry -> ordinary unicast
  ("global") as long as the address lies in unicast space at all, otherwise "na".
"""
from __future__ import annotations

V4 = [
    # prefix            len name                                   reachable assertable
    ("0.0.0.0", 8, "this-network", False, True),
    ("0.0.0.0", 32, "this-host", False, True),
    ("10.0.0.0", 8, "private-use-10", False, True),
    ("100.64.0.0", 10, "shared-address-space", False, False),
    ("127.0.0.0", 8, "loopback", False, True),
    ("169.254.0.0", 16, "link-local", False, True),
    ("172.16.0.0", 12, "private-use-172", False, True),
    ("192.0.0.0", 24, "ietf-protocol-assignments", False, False),
    ("192.0.0.0", 29, "ipv4-service-continuity", False, True),
    ("192.0.0.8", 32, "ipv4-dummy", False, False),
    ("192.0.0.9", 32, "pcp-anycast", True, False),
    ("192.0.0.10", 32, "turn-anycast", True, False),
    ("192.0.0.170", 32, "nat64-dns64-discovery-a", False, True),
    ("192.0.0.171", 32, "nat64-dns64-discovery-b", False, True),
    ("192.0.2.0", 24, "test-net-1", False, True),
    ("192.31.196.0", 24, "as112-v4", True, True),
    ("192.52.193.0", 24, "amt", True, True),
    ("192.88.99.0", 24, "deprecated-6to4-relay", None, False),
    ("192.168.0.0", 16, "private-use-192", False, True),
    ("192.175.48.0", 24, "as112-direct-delegation", True, True),
    ("198.18.0.0", 15, "benchmarking", False, True),
    ("198.51.100.0", 24, "test-net-2", False, True),
    ("203.0.113.0", 24, "test-net-3", False, True),
    ("240.0.0.0", 4, "reserved", False, True),
    ("255.255.255.255", 32, "limited-broadcast", False, True),
]

V6 = [
    ("::1", 128, "loopback", False, True),
    ("::", 128, "unspecified", False, True),
    ("::ffff:0:0", 96, "ipv4-mapped", False, True),  # classified through the embedded IPv4 address
    ("64:ff9b::", 96, "nat64-well-known", True, False),
    ("64:ff9b:1::", 48, "nat64-local-use", False, False),
    ("100::", 64, "discard-only", False, True),
    ("100:0:0:1::", 64, "dummy-prefix", False, False),
    ("2001::", 23, "ietf-protocol-assignments", False, True),
    ("2001::", 32, "teredo", None, False),
    ("2001:1::1", 128, "pcp-anycast", True, False),
    ("2001:1::2", 128, "turn-anycast", True, False),
    ("2001:1::3", 128, "dns-sd-srp-anycast", True, False),
    ("2001:2::", 48, "benchmarking", False, True),
    ("2001:3::", 32, "amt", True, False),
    ("2001:4:112::", 48, "as112-v6", True, False),
    ("2001:10::", 28, "deprecated-orchid", None, False),
    ("2001:20::", 28, "orchid-v2", True, False),
    ("2001:30::", 28, "drone-remote-id", True, False),
    ("2001:db8::", 32, "documentation", False, True),
    ("2002::", 16, "6to4", None, False),
    ("2620:4f:8000::", 48, "as112-direct-delegation", True, True),
    ("3fff::", 20, "documentation-2024", False, False),
    ("5f00::", 16, "srv6-sids", False, False),
    ("fc00::", 7, "unique-local", False, True),
    ("fe80::", 10, "link-local", False, True),
]

# address space that is not unicast at all (the special-purpose registries say nothing about it)
V4_NOT_UNICAST = [("224.0.0.0", 4, "multicast")]
V6_GLOBAL_UNICAST = ("2000::", 3)


# ---------------------------------------------------------------------------
# parsing / formatting by hand
# ---------------------------------------------------------------------------
def v4_to_int(s: str) -> int:
    parts = s.split(".")
    if len(parts) != 4:
        raise ValueError(s)
    n = 0
    for p in parts:
        if not p.isdigit() or len(p) > 3 or int(p) > 255:
            raise ValueError(s)
        n = (n << 8) | int(p)
    return n


def int_to_v4(n: int) -> str:
    return ".".join(str((n >> s) & 255) for s in (24, 16, 8, 0))


def v6_to_int(s: str) -> int:
    if "." in s:  # trailing dotted quad
        head, _, quad = s.rpartition(":")
        q = v4_to_int(quad)
        s = f"{head}:{q >> 16:x}:{q & 0xFFFF:x}"
    if "::" in s:
        a, _, b = s.partition("::")
        left = [x for x in a.split(":") if x]
        right = [x for x in b.split(":") if x]
        groups = left + ["0"] * (8 - len(left) - len(right)) + right
    else:
        groups = s.split(":")
    if len(groups) != 8:
        raise ValueError(s)
    n = 0
    for g in groups:
        if not (1 <= len(g) <= 4):
            raise ValueError(s)
        n = (n << 16) | int(g, 16)
    return n


def int_to_v6(n: int) -> str:
    """RFC 5952 text form (what inet_ntop produces for non-mapped addresses)."""
    g = [(n >> (112 - 16 * i)) & 0xFFFF for i in range(8)]
    best, blen, i = -1, 0, 0
    while i < 8:
        if g[i] == 0:
            j = i
            while j < 8 and g[j] == 0:
                j += 1
            if j - i > blen and j - i >= 2:
                best, blen = i, j - i
            i = j
        else:
            i += 1
    if best < 0:
        return ":".join(f"{x:x}" for x in g)
    left = ":".join(f"{x:x}" for x in g[:best])
    right = ":".join(f"{x:x}" for x in g[best + blen:])
    return f"{left}::{right}"


def mapped(v4int: int) -> str:
    """inet_ntop spelling of an IPv4-mapped IPv6 address."""
    return "::ffff:" + int_to_v4(v4int)


def _table(entries, conv, bits):
    out = []
    for pfx, plen, name, reach, ok in entries:
        base = conv(pfx)
        size = 1 << (bits - plen)
        assert base % size == 0, (pfx, plen)
        out.append((base, base + size - 1, plen, name, reach, ok))
    return out


T4 = _table(V4, v4_to_int, 32)
T6 = _table(V6, v6_to_int, 128)
_MC4 = _table([(p, l, n, None, False) for p, l, n in V4_NOT_UNICAST], v4_to_int, 32)
_GU6 = _table([(V6_GLOBAL_UNICAST[0], V6_GLOBAL_UNICAST[1], "global-unicast", True, True)], v6_to_int, 128)[0]
_MAPPED_LO = v6_to_int("::ffff:0:0")
_MAPPED_HI = _MAPPED_LO + 0xFFFFFFFF


def _lookup(table, n):
    best = None
    for e in table:
        if e[0] <= n <= e[1] and (best is None or e[2] > best[2]):
            best = e
    return best


def classify_v4(n: int):
    """-> (verdict, block_name); verdict in loopback|private|global|na"""
    e = _lookup(T4, n)
    if e is None:
        if _lookup(_MC4, n) is not None:
            return "na", "multicast"
        return "global", "unicast"
    _, _, _, name, reach, ok = e
    if name == "loopback":
        return "loopback", name
    if not ok or reach is None:
        return "na", name
    return ("global" if reach else "private"), name


def classify_v6(n: int):
    if _MAPPED_LO <= n <= _MAPPED_HI:
        v, name = classify_v4(n - _MAPPED_LO)
        return v, "mapped:" + name
    e = _lookup(T6, n)
    if e is None:
        if _GU6[0] <= n <= _GU6[1]:
            return "global", "unicast"
        return "na", "outside-2000::/3"
    _, _, _, name, reach, ok = e
    if name == "loopback":
        return "loopback", name
    if not ok or reach is None:
        return "na", name
    return ("global" if reach else "private"), name


def classify(text: str):
    """Classify a peer address as the kernel reports it (optionally with a %zone suffix)."""
    host = text.split("%", 1)[0]
    if ":" in host:
        return classify_v6(v6_to_int(host))
    return classify_v4(v4_to_int(host))


def boundary_points(family: int):
    """All (int_address, note) pairs: first/last address of every block and the addresses just
    outside it, plus one interior address."""
    table, top = (T4, (1 << 32) - 1) if family == 4 else (T6, (1 << 128) - 1)
    pts = []
    for lo, hi, plen, name, _, _ in table:
        for n, what in ((lo, "first"), (hi, "last"), (lo - 1, "below"), (hi + 1, "above"),
                        (lo + (hi - lo) // 2, "middle"), (lo + 1 if hi > lo else lo, "second")):
            if 0 <= n <= top:
                pts.append((n, f"{name}:{what}"))
    return pts
