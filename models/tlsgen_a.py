"""Scenario generators for the TLS checks C15 / C16 / C18 (executor: peers.tls_a.run).

Three families; every property module mixes in runs of the other two families so that the
C16 / C18 oracles ride on every kind of TLS run ("rider on every TLS run" in DESIGN.md).
"""
from __future__ import annotations

import ipaddress

MODES = ("regular", "transparent", "reverse_https", "reverse_tls", "swp")
DNS_NAMES = ["www.example.com", "api.shop.example.org", "mail.corp.example.net", "a.b.c.example.com"]
ALABEL = "xn--bcher-kva.example.org"
ULABEL = "bücher.example.org"
V4 = ["192.0.2.7", "198.51.100.23"]
V6 = ["2001:db8::7", "2001:db8:0:1::a1"]
OTHER_DNS = "other.example.info"
PROXY_IP = "10.0.0.1"
ALPN_CLASSES = {"h2": "h2", "h3": "h3", "http/1.1": "h11", "http/1.0": "h10", "http/0.9": "h09", "foo/1": "unknown"}
ALPN_ALL = list(ALPN_CLASSES)


def is_ip(s: str) -> bool:
    try:
        ipaddress.ip_address(s)
        return True
    except ValueError:
        return False


def alpn_class(a):
    return "none" if a is None else ALPN_CLASSES.get(a, "unknown")


# ---------------------------------------------------------------------------
# shared pieces
# ---------------------------------------------------------------------------
def _segmentation(r, first_len_hint=300, lo=1):
    x = r.random()
    cuts, gaps = [], []
    if x < 0.35:
        pass
    elif x < 0.5:
        cuts = list(range(lo, lo + r.choice([3, 5, 11])))          # byte-wise start (record header split)
    else:
        cuts = sorted({r.randrange(lo, first_len_hint) for _ in range(r.randint(1, 5))})
    if cuts:
        gaps = [r.choice([0, 0, 0.001, 0.02, 0.2]) for _ in range(len(cuts) + 1)]
    seg = r.choice([0, 0, 0, 1400, 500, 97])
    return cuts, gaps, seg


def _opts(r, **over):
    o = {"ssl_insecure": r.random() < 0.25, "http2": r.random() < 0.7,
         "connection_strategy": r.choice(["eager", "lazy"]),
         "trust": r.choices(["file", "dir", "both"], [5, 4, 1])[0], "trusted": ["A"], "upstream_cert": True}
    o.update(over)
    return o


def _origin(r, host, port, cert, alpn):
    cuts, gaps, seg = _segmentation(r, 900)
    return {"host": host, "port": port, "cert": cert, "alpn": alpn, "tls12": r.random() < 0.25,
            "delay": r.choice([0, 0.001, 0.02, 0.3]), "cuts": cuts, "gaps": gaps, "seg": seg}


def _flow(r, host, port, sni, verify, offers, **kw):
    cuts, gaps, seg = _segmentation(r, 250, 3)
    f = {"start": 0.0, "host": host, "port": port, "sni": sni, "verify": verify, "backend": "py", "offers": offers,
         "tls12": r.random() < 0.2, "cuts": cuts, "gaps": gaps, "seg": seg, "gap": r.choice([0, 0, 0.001]), "req": True}
    f.update(kw)
    return f


def _outer(r, offers=None):
    cuts, gaps, _ = _segmentation(r, 250, 3)
    sni = r.choice(["proxy.test", "proxy.test", None, "secure-proxy.corp.example.net"])
    return {"sni": sni, "verify": sni or PROXY_IP, "offers": ["http/1.1"] if offers is None else offers,
            "cuts": cuts, "gaps": gaps, "tls12": r.random() < 0.2}


# ---------------------------------------------------------------------------
# C15: upstream certificate matrix
# ---------------------------------------------------------------------------
DNS_CASES = ["match", "match_case", "match_many", "wildcard", "wildcard_parent_too_high", "wildcard_below",
             "wildcard_mid", "partial_prefix", "partial_suffix", "partial_mid", "cn_only", "cn_and_other_san",
             "mismatch", "suffix_confusion", "prefix_confusion", "email_only", "uri_only", "ip_only"]
IP_CASES = ["ip_match", "ip_match_many", "ip_other", "ip_as_dns", "ip_cn_only", "ip_match_expanded"]
CHAIN_CASES = (["root"] * 10 + ["inter"] * 4 + ["inter_missing", "self_signed", "unknown_ca", "unknown_ca",
                                                 "inter_not_ca", "inter_expired", "root_b"])


def name_case_spec(case: str, ident: str) -> dict:
    """cn / sans of a leaf that realises ``case`` for the identity the verifier will check."""
    n = ident.lower()
    if is_ip(n):
        other = "203.0.113.99" if ":" not in n else "2001:db8::dead"
        return {
            "ip_match": {"cn": None, "sans": [["ip", n]]},
            "ip_match_many": {"cn": "host.example.com", "sans": [["dns", "host.example.com"], ["ip", other], ["ip", n]]},
            "ip_other": {"cn": None, "sans": [["ip", other]]},
            "ip_as_dns": {"cn": None, "sans": [["dns", n]]},
            "ip_cn_only": {"cn": n, "sans": []},
            "ip_match_expanded": {"cn": None, "sans": [["ip", ipaddress.ip_address(n).exploded]]},
        }[case]
    labels = n.split(".")
    first, parent = labels[0], ".".join(labels[1:])
    high = ".".join(labels[2:])
    table = {
        "match": {"cn": None, "sans": [["dns", n]]},
        "match_case": {"cn": None, "sans": [["dns", n.upper()]]},
        "match_many": {"cn": OTHER_DNS, "sans": [["dns", OTHER_DNS], ["ip", "203.0.113.5"], ["dns", n]]},
        "wildcard": {"cn": None, "sans": [["dns", "*." + parent]]},
        "wildcard_parent_too_high": {"cn": None, "sans": [["dns", "*." + high]]},
        "wildcard_below": {"cn": None, "sans": [["dns", "*." + n]]},
        "wildcard_mid": {"cn": None, "sans": [["dns", first + ".*." + high]]},
        "partial_prefix": {"cn": None, "sans": [["dns", first[0] + "*." + parent]]},
        "partial_suffix": {"cn": None, "sans": [["dns", "*" + first[-1] + "." + parent]]},
        "partial_mid": {"cn": None, "sans": [["dns", first[0] + "*" + first[-1] + "." + parent]]},
        "cn_only": {"cn": n, "sans": []},
        "cn_and_other_san": {"cn": n, "sans": [["dns", OTHER_DNS]]},
        "mismatch": {"cn": None, "sans": [["dns", OTHER_DNS]]},
        "suffix_confusion": {"cn": None, "sans": [["dns", n + ".evil.example.info"]]},
        "prefix_confusion": {"cn": None, "sans": [["dns", "x" + n], ["dns", parent]]},
        "email_only": {"cn": None, "sans": [["email", "admin@" + n]]},
        "uri_only": {"cn": None, "sans": [["uri", "https://" + n + "/"]]},
        "ip_only": {"cn": None, "sans": [["ip", "192.0.2.7"]]},
    }
    return table[case]


def gen_cert_c15(r, ident: str) -> tuple[dict, dict]:
    """-> (pki spec, tags)"""
    ncase = r.choice(IP_CASES if is_ip(ident) else DNS_CASES)
    if r.random() < 0.45:   # make the all-good cell and single-defect cells frequent
        ncase = r.choice(["ip_match", "ip_match_many", "ip_match_expanded"] if is_ip(ident)
                         else ["match", "match_case", "match_many", "wildcard"])
    ccase = r.choice(CHAIN_CASES)
    validity = r.choices(["ok", "expired", "future"], [8, 1, 1])[0]
    spec = name_case_spec(ncase, ident)
    if ccase == "root_b":
        spec["chain"], spec["root"] = "root", "B"
    else:
        spec["chain"], spec["root"] = ccase, "A"
    # which root the chain leads to: the private root A (B above), or one of the PUBLIC sim roots that are
    # in the default bundle only ("unknown_ca" chains lead to the root X that nobody trusts)
    if spec["root"] == "A" and ccase != "unknown_ca":
        spec["root"] = r.choices(["A", "P", "Q"], [60, 32, 8])[0]
    spec["validity"] = validity
    if not spec["cn"] and not spec["sans"]:
        spec["cn"] = "nameless"
    spec["org"] = r.choice([None, None, "Example Org"])
    spec["crl"] = None
    return spec, {"name_case": ncase, "chain_case": ccase, "validity": validity, "root": spec["root"]}


def gen_trust_c15(r) -> dict:
    """Trust configuration: CA file only | hashed CA directory only | both | neither (default bundle)."""
    trust = r.choices(["file", "dir", "both", "default"], [28, 36, 16, 20])[0]
    o = {"trust": trust, "trusted": r.choices([["A"], ["A", "B"], ["B"]], [7, 2, 1])[0]}
    if trust == "both" and r.random() < 0.5:
        # file and directory hold different roots: the anchors are the union
        a, b = r.choice([(["A"], ["B"]), (["B"], ["A"])])
        o["trusted_file"], o["trusted_dir"] = a, b
        o["trusted"] = ["A", "B"]
    return o


def gen_c15(rng, tier) -> dict:
    r = rng.at("c15")
    mode = r.choices(MODES, [40, 20, 20, 15, 5])[0]
    opts = _opts(r)
    opts.update(gen_trust_c15(rng.at("c15.trust")))
    nflows = 1 if (mode.startswith("reverse") or r.random() < 0.85) else r.randint(2, 3)
    origins, flows, tags = [], [], []
    form = None
    for i in range(nflows):
        port = 443 if i == 0 else 8443 + i
        fr = rng.at(f"c15.flow{i}")
        if mode == "transparent":
            host = fr.choice(V4 + V6)
            sni = fr.choice(DNS_NAMES + [ALABEL, None, None])
            form = "transparent_sni" if sni else ("ipv6" if ":" in host else "ipv4")
            verify = sni or host
        else:
            form = fr.choices(["dns", "dns_mixed_case", "idn_alabel", "ipv4", "ipv6", "sni_differs", "no_sni"],
                              [30, 10, 10, 15, 15, 10, 10])[0]
            if form == "dns":
                host = fr.choice(DNS_NAMES)
                sni = host
            elif form == "dns_mixed_case":
                host = fr.choice(DNS_NAMES)
                sni = "".join(c.upper() if k % 2 == 0 else c for k, c in enumerate(host))
            elif form == "idn_alabel":
                host = sni = ALABEL
            elif form == "ipv4":
                host, sni = fr.choice(V4), None
            elif form == "ipv6":
                host, sni = fr.choice(V6), None
            elif form == "sni_differs":
                host, sni = "alias.example.info", fr.choice(DNS_NAMES)
            else:
                host, sni = fr.choice(DNS_NAMES), None
            verify = sni or PROXY_IP
        # the identity mitmproxy is expected to put into SNI / verify (documented rule; the oracle
        # itself uses the SNI the origin observed)
        if mode.startswith("reverse"):
            ident = host
        else:
            ident = sni or host
        cert, t = gen_cert_c15(fr, ident)
        t["form"] = form
        tags.append(t)
        alpn = fr.choice([None, ["http/1.1"], ["http/1.1"]])
        origins.append(_origin(fr, host, port, cert, alpn))
        kw = {}
        if mode == "swp":
            kw["outer"] = _outer(fr)
        flows.append(_flow(fr, host, port, sni, verify, fr.choice([[], ["http/1.1"], ["http/1.1"]]),
                           start=0.0 if i == 0 else fr.choice([0, 0.001, 0.05]), **kw))
    sc = {"family": "c15", "mode": mode, "eager_tasks": r.random() < 0.15, "confdir": "default", "opts": opts,
          "origins": origins, "flows": flows, "tags": tags}
    if mode.startswith("reverse"):
        sc["rhost"], sc["rport"] = flows[0]["host"], flows[0]["port"]
    return sc


# ---------------------------------------------------------------------------
# C16: SNI forms x upstream certificate contents x CA chain
# ---------------------------------------------------------------------------
L63 = "l" + "o" * 61 + "g"                       # 63-byte label
L64 = "l" + "o" * 62 + "g"                       # 64-byte label (not a DNS label)
N253 = ".".join([L63, L63, L63, "a" * 56 + ".test"])   # 253 bytes
assert len(L63) == 63 and len(L64) == 64 and len(N253) == 253, len(N253)
N254 = "b" + N253                                 # 254 bytes: too long for a DNS name

SNI_FORMS = {
    "simple": "www.example.com",
    "single_label": "localhost",
    "mixed_case": "WwW.ExAmPle.CoM",
    "label63": L63 + ".example.com",
    "name253": N253,
    "idn_ulabel": ULABEL,
    "idn_alabel": ALABEL,
    "idn_alabel_upper": "XN--BCHER-KVA.example.org",
    "underscore": "_acme-challenge.www.example.com",
    "digits": "123.456.example.com",
    "numeric_tld_like": "1.2.3.4.5",
    "hyphens": "a--b.-x-.example.com",
    "star_word": "star.example.com",
    "trailing_dot": "www.example.com.",
    "ipv4": "192.0.2.44",
    "ipv6": "2001:db8::44",
    "ipv6_full": "2001:0db8:0000:0000:0000:0000:0000:0044",
    "ipv4_mapped": "::ffff:192.0.2.44",
    "no_sni": None,
    # forms that are not DNS names / addresses (no verification demanded, only "no wrong certificate")
    "label64": L64 + ".example.com",
    "name254": N254,
    "wildcard_literal": "*.example.com",
    "empty_label": "www..example.com",
}
# trailing_dot: RFC 6066 section 3 — HostName is sent "without a trailing dot"
INVALID_FORMS = {"label64", "name254", "wildcard_literal", "empty_label", "trailing_dot"}
OSSL_FORMS = {"ipv4", "ipv6", "ipv6_full", "ipv4_mapped", "label64", "name254", "empty_label"}
SNI_WEIGHTS = {"simple": 6, "no_sni": 6, "ipv4": 4, "ipv6": 4, "idn_ulabel": 4, "idn_alabel": 3, "label63": 3,
               "name253": 3, "mixed_case": 3}

UP_CN = {
    "none": None,
    "host": "@host",
    "org_like": "Example Web Services",
    "cn64_dotted": ("a" * 30) + "." + ("b" * 29) + ".com",            # 64 characters, labels < 64
    "cn63_one_label": "c" * 63,
    "cn64_one_label": "c" * 64,
    "non_ascii_host": ULABEL,
    "non_ascii_text": "Société Générale Serveur",
    "ip_literal": "192.0.2.7",
    "wildcard": "*.example.com",
    "leading_dot": ".example.com",
    "double_dot": "www..example.com",
    "trailing_space": "www.example.com ",
    "url_like": "https://www.example.com/",
    "email_like": "admin@example.com",
}
assert len(UP_CN["cn64_dotted"]) == 64
UP_SANS = {
    "none": [],
    "host": [["dns", "@host"]],
    "many": [["dns", "@host"], ["dns", "*.cdn.example.net"], ["dns", "alt.example.org"], ["ip", "192.0.2.200"],
             ["ip", "2001:db8::c8"]],
    "wild": [["dns", "*.example.com"], ["dns", "example.com"]],
    "mixed_types": [["dns", "@host"], ["email", "ops@example.com"], ["uri", "https://example.com/id"],
                    ["dirname", "dir-entry"]],
    "email_only": [["email", "ops@example.com"]],
    "upper": [["dns", "WWW.EXAMPLE.COM"]],
    "dup": [["dns", "@host"], ["dns", "@host"]],
}
UP_CRL = [None, None, "http://crl.example.com/root.crl", "http://[::1/bad.crl", "ldap://dir.example.com/cn=crl",
          "crl-without-scheme", "http://crl.example.com:8080/a/b/c.crl?x=1#frag"]
UP_ORG = [None, None, "Example Org", "Org über GmbH", "O" * 64]


def gen_upstream_cert_c16(r, host: str, ensure_valid: bool) -> tuple[dict, dict]:
    cnk = r.choice(list(UP_CN))
    sk = r.choice(list(UP_SANS))
    cn = UP_CN[cnk]
    if cn == "@host":
        cn = host
    sans = [[k, host if v == "@host" else v] for k, v in UP_SANS[sk]]
    # "@host" placed in a dNSName must be an IP SAN when the host is an address
    sans = [["ip", v] if k == "dns" and is_ip(v) else [k, v] for k, v in sans]
    if ensure_valid and not any((k == "ip" and is_ip(host) and ipaddress.ip_address(v) == ipaddress.ip_address(host))
                                or (k == "dns" and v.lower() == host.lower()) for k, v in sans):
        sans.append(["ip", host] if is_ip(host) else ["dns", host])
    if cn is None and not sans:
        cn = "fallback-subject"
    spec = {"chain": r.choice(["root", "root", "inter"]), "root": "A", "validity": "ok", "cn": cn, "sans": sans,
            "org": r.choice(UP_ORG), "crl": r.choice(UP_CRL)}
    return spec, {"up_cn": cnk, "up_sans": sk, "up_crl": spec["crl"] is not None, "up_org": spec["org"] is not None}


def _sni_flow_fields(form: str, mode: str, host: str):
    sni = SNI_FORMS[form]
    backend = "ossl" if form in OSSL_FORMS else "py"
    if sni is None:
        verify = host if mode == "transparent" else PROXY_IP
    else:
        verify = sni
    return sni, verify, backend


def gen_c16(rng, tier) -> dict:
    r = rng.at("c16")
    mode = r.choices(MODES, [40, 20, 20, 5, 15])[0]
    insecure = r.random() < 0.5
    opts = _opts(r, ssl_insecure=insecure, upstream_cert=r.random() < 0.9)
    forms = list(SNI_FORMS)
    weights = [SNI_WEIGHTS.get(f, 2) for f in forms]
    multi = (not mode.startswith("reverse")) and r.random() < 0.2
    nflows = r.randint(3, 6) if multi else 1
    if multi:
        opts["store_cap"] = r.choice([1, 2, 3])
    origins, flows, tags = [], [], []
    for i in range(nflows):
        fr = rng.at(f"c16.flow{i}")
        port = 443 if i == 0 else 8443 + i
        form = fr.choices(forms, weights)[0]
        if mode == "transparent":
            host = fr.choice(V4 + V6)
        else:
            host = fr.choice(DNS_NAMES + DNS_NAMES + V4 + V6 + [ALABEL])
        sni, verify, backend = _sni_flow_fields(form, mode, host)
        if mode.startswith("reverse"):
            ident = host
        elif sni is not None and form not in INVALID_FORMS:
            ident = sni
        else:
            ident = host
        try:
            ident_a = ident if is_ip(ident) else ident.encode("idna").decode()
        except UnicodeError:
            ident_a = host
        cert, t = gen_upstream_cert_c16(fr, ident_a.rstrip(".") if not is_ip(ident_a) else ident_a,
                                        ensure_valid=not insecure)
        t["sni_form"] = form
        tags.append(t)
        origins.append(_origin(fr, host, port, cert, fr.choice([None, ["http/1.1"], ["h2", "http/1.1"]])))
        kw = {}
        if mode == "swp":
            oform = fr.choices(forms, weights)[0]
            osni, overify, obackend = _sni_flow_fields(oform, "regular", PROXY_IP)
            ou = _outer(fr)
            ou.update({"sni": osni, "verify": overify, "backend": obackend, "form": oform})
            kw["outer"] = ou
        flows.append(_flow(fr, host, port, sni, verify,
                           fr.choice([[], ["http/1.1"], ["h2", "http/1.1"], ["http/1.1", "h2"]]),
                           backend=backend, start=0.0 if i == 0 else fr.choice([0, 0, 0.001, 0.02]), form=form, **kw))
    sc = {"family": "c16", "mode": mode, "eager_tasks": r.random() < 0.15,
          "confdir": "custom" if r.random() < 0.3 else "default", "opts": opts,
          "origins": origins, "flows": flows, "tags": tags}
    if mode.startswith("reverse"):
        sc["rhost"], sc["rport"] = flows[0]["host"], flows[0]["port"]
    return sc


# ---------------------------------------------------------------------------
# C18: ALPN table
# ---------------------------------------------------------------------------
def gen_offers(r):
    x = r.random()
    if x < 0.12:
        return []
    if x < 0.45:
        return [r.choice(ALPN_ALL)]
    k = r.randint(2, 4)
    return r.sample(ALPN_ALL, k)


UPSTREAM_STATES = ["lazy", "no_alpn", "natural", "forced"]


def gen_c18(rng, tier) -> dict:
    r = rng.at("c18")
    mode = r.choices(MODES, [35, 15, 15, 15, 20])[0]
    state = r.choices(UPSTREAM_STATES, [25, 15, 35, 25])[0]
    http2 = r.random() < 0.5
    opts = _opts(r, ssl_insecure=False, http2=http2,
                 connection_strategy="lazy" if state == "lazy" else "eager")
    host = r.choice(V4) if mode == "transparent" else r.choice(DNS_NAMES)
    sni = r.choice(DNS_NAMES) if mode == "transparent" else host
    offers = gen_offers(r)
    ident = host if mode.startswith("reverse") else sni
    cert = {"chain": "root", "root": "A", "validity": "ok", "cn": None, "sans": [["dns", ident]]}
    up = None
    o_alpn = None
    force = None
    if state == "natural":
        # the origin supports one class (or a preference list); what gets negotiated follows from the
        # offers mitmproxy derives from the client's
        up = r.choice(ALPN_ALL)
        o_alpn = [up] if r.random() < 0.7 else r.sample(ALPN_ALL, r.randint(2, 3))
    elif state == "forced":
        # an addon sets server.alpn_offers in tls_start_server (documented extension point), so the
        # upstream protocol can be a class the client did not offer
        up = r.choice(ALPN_ALL)
        o_alpn = [up]
        force = [up] if r.random() < 0.7 else [up] + r.sample(ALPN_ALL, 2)
    elif state == "lazy":
        o_alpn = r.choice([None, ["http/1.1"], ["h2", "http/1.1"]])
    org = _origin(r, host, 443, cert, o_alpn)
    if force is not None:
        org["force_offers"] = force
    kw = {}
    if mode == "swp":
        kw["outer"] = _outer(r, offers=gen_offers(r))
    only_h1_upstream = o_alpn is None or all(a in ("http/1.1", "http/1.0") for a in o_alpn)
    fl = _flow(r, host, 443, sni, sni, offers, req=only_h1_upstream and force is None, **kw)
    sc = {"family": "c18", "mode": mode, "eager_tasks": r.random() < 0.15, "confdir": "default", "opts": opts,
          "origins": [org], "flows": [fl],
          "tags": [{"state": state, "up_class": alpn_class(up) if up else "none", "http2": http2}]}
    if mode.startswith("reverse"):
        sc["rhost"], sc["rport"] = host, 443
    return sc


def gen_mix(rng, tier, own: str, share_own: float = 0.7, others=None) -> dict:
    r = rng.at("mix")
    fams = {"c15": gen_c15, "c16": gen_c16, "c18": gen_c18}
    if r.random() < share_own:
        fam = own
    else:
        fam = r.choice(list(others) if others else [f for f in fams if f != own])
    sc = fams[fam](rng, tier)
    sc["eager"] = sc["eager_tasks"]
    return sc
