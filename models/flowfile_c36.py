"""Shared helpers for C36 / C37 (flow files).

* an INDEPENDENT tnetstring codec written from the format description
  (``<decimal length>:<payload><type tag>``; tags ``,`` bytes ``;`` text ``#`` int ``^`` float
  ``!`` bool ``~`` null ``]`` list ``}`` dict) — used as the reference for record framing, for
  decoding what the real writer stored and for encoding state-level mutants;
* ``canon`` — canonical, strictly typed form of a flow state (the file format has one sequence
  type, so tuple == list; dict order is irrelevant; floats compare by repr so NaN == NaN);
* a seeded generator of flow *specs* (JSON) for every flow type and a deterministic builder
  spec -> real mitmproxy flow object (mitmproxy.test.tflow helpers + per-field edits).
"""
from __future__ import annotations

import datetime
import math

# ---------------------------------------------------------------------------
# independent tnetstring codec
# ---------------------------------------------------------------------------


class TnError(Exception):
    pass


def tn_encode(v) -> bytes:
    if v is None:
        p, t = b"", b"~"
    elif v is True:
        p, t = b"true", b"!"
    elif v is False:
        p, t = b"false", b"!"
    elif isinstance(v, int):
        p, t = str(v).encode(), b"#"
    elif isinstance(v, float):
        p, t = repr(v).encode(), b"^"
    elif isinstance(v, bytes):
        p, t = v, b","
    elif isinstance(v, str):
        p, t = v.encode("utf-8"), b";"
    elif isinstance(v, (list, tuple)):
        p, t = b"".join(tn_encode(x) for x in v), b"]"
    elif isinstance(v, dict):
        p, t = b"".join(tn_encode(k) + tn_encode(x) for k, x in v.items()), b"}"
    else:
        raise TnError(f"cannot encode {type(v)}")
    return str(len(p)).encode() + b":" + p + t


def tn_frame(data: bytes, pos: int):
    """Return (payload_start, payload_end, tag, next_pos) of the item starting at pos, or None if incomplete."""
    n = len(data)
    i = pos
    while i < n and 48 <= data[i] <= 57:
        i += 1
    if i >= n:
        return None
    if data[i] != 58 or i == pos:
        raise TnError(f"bad length prefix at {pos}")
    ln = int(data[pos:i])
    ps = i + 1
    pe = ps + ln
    if pe + 1 > n:
        return None
    return ps, pe, data[pe], pe + 1


def tn_scan(data: bytes):
    """Split a file image into complete top-level records.  Returns ([(start, end)], tail_start)."""
    out = []
    pos = 0
    while pos < len(data):
        try:
            fr = tn_frame(data, pos)
        except TnError:
            break
        if fr is None:
            break
        out.append((pos, fr[3]))
        pos = fr[3]
    return out, pos


def _tn_value(data: bytes, ps: int, pe: int, tag: int):
    payload = data[ps:pe]
    if tag == 44:
        return payload
    if tag == 59:
        return payload.decode("utf-8")
    if tag == 35:
        return int(payload)
    if tag == 94:
        return float(payload)
    if tag == 33:
        if payload == b"true":
            return True
        if payload == b"false":
            return False
        raise TnError("bad bool")
    if tag == 126:
        if payload:
            raise TnError("bad null")
        return None
    if tag == 93:
        out = []
        pos = ps
        while pos < pe:
            fr = tn_frame(data[:pe], pos)
            if fr is None:
                raise TnError("truncated list item")
            out.append(_tn_value(data, *fr[:3]))
            pos = fr[3]
        return out
    if tag == 125:
        d = {}
        pos = ps
        while pos < pe:
            fr = tn_frame(data[:pe], pos)
            if fr is None:
                raise TnError("truncated dict key")
            k = _tn_value(data, *fr[:3])
            fr2 = tn_frame(data[:pe], fr[3])
            if fr2 is None:
                raise TnError("truncated dict value")
            d[k] = _tn_value(data, *fr2[:3])
            pos = fr2[3]
        return d
    raise TnError(f"unknown tag {tag}")


def tn_decode(data: bytes):
    fr = tn_frame(data, 0)
    if fr is None or fr[3] != len(data):
        raise TnError("not exactly one item")
    return _tn_value(data, *fr[:3])


# ---------------------------------------------------------------------------
# canonical state
# ---------------------------------------------------------------------------
def canon(x):
    if x is None:
        return ("n",)
    if isinstance(x, bool):
        return ("b", x)
    if isinstance(x, int):
        return ("i", x)
    if isinstance(x, float):
        return ("f", repr(x))
    if isinstance(x, (bytes, bytearray)):
        return ("y", bytes(x))
    if isinstance(x, str):
        return ("s", x)
    if isinstance(x, (list, tuple)):
        return ("l", tuple(canon(v) for v in x))
    if isinstance(x, dict):
        items = sorted(x.items(), key=lambda kv: (type(kv[0]).__name__, kv[0])
                       if isinstance(kv[0], (str, bytes, int, float)) else ("~", repr(kv[0])))
        return ("d", tuple((canon(k), canon(v)) for k, v in items))
    return ("?", repr(x))


def first_diff(a, b, path="", cf=None):
    """Path of the first difference between two raw states (list indices abstracted to '*')."""
    cf = cf or canon
    if isinstance(a, dict) and isinstance(b, dict):
        for k in sorted(set(a) | set(b), key=repr):
            if k not in a or k not in b:
                return f"{path}.{k}" if path else str(k)
            d = first_diff(a[k], b[k], f"{path}.{k}" if path else str(k), cf)
            if d is not None:
                return d
        return None
    if isinstance(a, (list, tuple)) and isinstance(b, (list, tuple)):
        if len(a) != len(b):
            return path + ".len"
        for i, (x, y) in enumerate(zip(a, b)):
            leaf = not isinstance(x, (list, tuple, dict)) and not isinstance(y, (list, tuple, dict))
            d = first_diff(x, y, path + (f".{i}" if leaf else ".*"), cf)
            if d is not None:
                return d
        return None
    return None if cf(a) == cf(b) else path


def canon_loose(x):
    """Like canon, but an int and the float of the same value are one number (typed dataclass fields coerce)."""
    if isinstance(x, bool) or x is None:
        return canon(x)
    if isinstance(x, int):
        return ("f", repr(float(x))) if abs(x) < 2 ** 53 else ("i", x)
    if isinstance(x, (list, tuple)):
        return ("l", tuple(canon_loose(v) for v in x))
    if isinstance(x, dict):
        return ("d", tuple(sorted(((canon_loose(k), canon_loose(v)) for k, v in x.items()), key=repr)))
    return canon(x)


# ---------------------------------------------------------------------------
# attribute view: what a user of the loaded flow sees, independent of get_state()
# ---------------------------------------------------------------------------
_CONN_ATTRS = ["peername", "sockname", "id", "transport_protocol", "error", "tls", "alpn", "alpn_offers", "cipher",
               "cipher_list", "tls_version", "sni", "timestamp_start", "timestamp_end", "timestamp_tls_setup"]


def _conn_view(c, server):
    d = {k: getattr(c, k) for k in _CONN_ATTRS}
    d["alpn_offers"] = list(d["alpn_offers"])
    d["cipher_list"] = list(d["cipher_list"])
    d["certificate_list"] = [x.to_pem() for x in c.certificate_list]
    if server:
        d["address"] = c.address
        d["timestamp_tcp_setup"] = c.timestamp_tcp_setup
        d["via"] = None if c.via is None else [c.via[0], list(c.via[1])]
    else:
        d["mitmcert"] = None if c.mitmcert is None else c.mitmcert.to_pem()
        d["proxy_mode"] = c.proxy_mode.full_spec
    return d


def _http_msg_view(m, response):
    if m is None:
        return None
    x = m.data
    d = {"http_version": x.http_version, "headers": [list(f) for f in x.headers.fields], "content": x.content,
         "trailers": None if x.trailers is None else [list(f) for f in x.trailers.fields],
         "timestamp_start": x.timestamp_start, "timestamp_end": x.timestamp_end}
    if response:
        d.update(status_code=x.status_code, reason=x.reason)
    else:
        d.update(host=x.host, port=x.port, method=x.method, scheme=x.scheme, authority=x.authority, path=x.path)
    return d


def _dns_msg_view(m):
    if m is None:
        return None
    d = {k: getattr(m, k) for k in ["id", "query", "op_code", "authoritative_answer", "truncation", "recursion_desired",
                                    "recursion_available", "reserved", "response_code", "timestamp"]}
    d["questions"] = [[q.name, q.type, q.class_] for q in m.questions]
    for k in ("answers", "authorities", "additionals"):
        d[k] = [[r.name, r.type, r.class_, r.ttl, r.data] for r in getattr(m, k)]
    return d


def attr_view(f):
    d = {"class": type(f).__name__, "type": f.type, "id": f.id, "intercepted": f.intercepted, "is_replay": f.is_replay,
         "marked": f.marked, "metadata": f.metadata, "comment": f.comment, "timestamp_created": f.timestamp_created,
         "error": None if f.error is None else [f.error.msg, f.error.timestamp],
         "backup": f._backup, "modified": None,
         "client_conn": _conn_view(f.client_conn, False), "server_conn": _conn_view(f.server_conn, True)}
    if f.type == "http":
        d["request"] = _http_msg_view(f.request, False)
        d["response"] = _http_msg_view(f.response, True)
        ws = f.websocket
        d["websocket"] = None if ws is None else {
            "messages": [[int(m.type), m.from_client, m.content, m.timestamp, m.dropped, m.injected] for m in ws.messages],
            "closed_by_client": ws.closed_by_client, "close_code": ws.close_code, "close_reason": ws.close_reason,
            "timestamp_end": ws.timestamp_end}
    elif f.type in ("tcp", "udp"):
        d["messages"] = [[m.from_client, m.content, m.timestamp] for m in f.messages]
    elif f.type == "dns":
        d["request"] = _dns_msg_view(f.request)
        d["response"] = _dns_msg_view(f.response)
    return d


def short(x, n=60):
    s = repr(x)
    return s if len(s) <= n else s[:n] + "..."


# ---------------------------------------------------------------------------
# JSON value coding for scenarios
# ---------------------------------------------------------------------------
def B(b: bytes):
    return {"b": b.decode("latin-1")}


def dec(v):
    """JSON scenario value -> python value."""
    if isinstance(v, dict):
        if set(v) == {"b"}:
            return v["b"].encode("latin-1")
        if set(v) == {"float"}:
            return float(v["float"])
        if set(v) == {"cert"}:
            return cert(v["cert"])
        if set(v) == {"map"}:
            return {k: dec(x) for k, x in v["map"]}
        raise ValueError(f"bad scenario value {v}")
    if isinstance(v, list):
        return [dec(x) for x in v]
    return v


# ---------------------------------------------------------------------------
# certificates (deterministic: fixed Ed25519 keys, fixed serials and dates)
# ---------------------------------------------------------------------------
_CERTS: dict[int, object] = {}
N_CERTS = 3


def cert(i: int):
    from mitmproxy import certs
    i = i % N_CERTS
    c = _CERTS.get(i)
    if c is not None:
        return c
    if i == 0:
        import os
        p = os.path.join(os.path.dirname(os.path.dirname(os.path.abspath(__file__))), "data", "confdir",
                         "mitmproxy-ca-cert.pem")
        c = certs.Cert.from_pem(open(p, "rb").read())
    else:
        from cryptography import x509
        from cryptography.hazmat.primitives.asymmetric.ed25519 import Ed25519PrivateKey
        from cryptography.x509.oid import NameOID
        k = Ed25519PrivateKey.from_private_bytes(bytes([i]) * 32)
        cn = ["", "tést.example", "*.wild.test"][i]
        name = x509.Name([x509.NameAttribute(NameOID.COMMON_NAME, cn),
                          x509.NameAttribute(NameOID.ORGANIZATION_NAME, "simkit 漢")])
        b = (x509.CertificateBuilder().subject_name(name).issuer_name(name).public_key(k.public_key())
             .serial_number(1000 + i).not_valid_before(datetime.datetime(2020, 1, 1))
             .not_valid_after(datetime.datetime(2040, 1, 1))
             .add_extension(x509.SubjectAlternativeName([x509.DNSName("a.test"), x509.DNSName(f"*.b{i}.test")]),
                            critical=False))
        c = certs.Cert(b.sign(k, None))
    _CERTS[i] = c
    return c


# ---------------------------------------------------------------------------
# value generators
# ---------------------------------------------------------------------------
T0 = 946681200


def g_bytes(r, big=True):
    k = r.randrange(12)
    if k == 0:
        return b""
    if k == 1:
        return bytes(range(256))
    if k == 2:
        return r.choice([b"5:hello,", b"0:~", b"3:abc", b"12:", b"]}", b"4:true!", b"{", b"\xef\xbb\xbf{", b"1:", b":"])
    if k == 3:
        return bytes(r.randrange(256) for _ in range(r.randrange(1, 40)))
    if k == 4 and big:
        n = r.choice([100, 1000, 4000, 8191, 8192, 8193, 20000, 70000])
        unit = bytes(r.randrange(256) for _ in range(17))
        return (unit * (n // 17 + 1))[:n]
    if k == 5:
        return b"\x00" * r.randrange(1, 20)
    if k == 6:
        return "grüße 漢字 \U0001f347".encode("utf-8")
    if k == 7:
        return b"\xff\xfe\xed\xa0\x80"
    return bytes(r.choice(b"abcdefghij0123456789:,;#^!~]}{ \r\n") for _ in range(r.randrange(1, 30)))


def g_str(r):
    k = r.randrange(10)
    if k == 0:
        return ""
    if k == 1:
        return "grüße 漢字 \U0001f347"
    if k == 2:
        return "line1\r\nline2\x00\ttab"
    if k == 3:
        return "x" * r.choice([100, 5000])
    if k == 4:
        return r.choice(["5:hello,", "0:~", "]", "}", "12:", "  ", "﻿{", "\x7f\x80ÿ"])
    return "".join(r.choice("abcdefghijklmnop0123456789 :;,-_./é") for _ in range(r.randrange(1, 24)))


def g_ts(r):
    k = r.randrange(14)
    if k == 0:
        return T0 + r.randrange(10 ** 6)  # int
    if k == 1:
        return r.choice([0.5, 1e-9, 1e18, -1.0, 1.7976931348623157e308, 5e-324, 2 ** 53 + 1.0])
    if k == 2:
        return {"float": r.choice(["inf", "-inf", "nan"])}
    if k == 3:
        return 0.1 + 0.2
    return T0 + r.random() * 1e6


def g_ts_msg(r):
    """Timestamps of TCP/UDP/WebSocket messages; 0.0 is a legal float value, drawn rarely."""
    if r.random() < 0.004:
        return 0.0 if ZERO_MSG_TS[0] else 1.0
    return g_ts(r)


# C37 reuses this generator but is not about field round trips: it switches the 0.0 message timestamp
# (a C36 finding: TCP/UDP/WebSocket message constructors replace a falsy timestamp by "now") off.
ZERO_MSG_TS = [True]


def g_opt(r, g, p=0.3):
    return None if r.random() < p else g(r)


def g_headers(r):
    n = r.choice([0, 1, 2, 3, 5, 40])
    out = []
    for _ in range(n):
        name = r.choice([b"host", b"Content-Length", b"set-cookie", b"X-\xff", b"", b"a:b", b"transfer-encoding"])
        if r.random() < 0.3:
            name = g_bytes(r, big=False)
        out.append([B(name), B(g_bytes(r, big=r.random() < 0.05))])
    return out


def g_addr(r):
    k = r.randrange(5)
    if k == 0:
        return ["::1", r.randrange(65536), r.randrange(100), r.randrange(10)]
    if k == 1:
        return ["", 0]
    if k == 2:
        return [g_str(r), r.randrange(65536)]
    return [r.choice(["127.0.0.1", "192.168.0.1", "example.com", "xn--bcher-kva.example", "bücher.example"]),
            r.randrange(65536)]


def g_meta(r, depth=0):
    k = r.randrange(11 if depth < 3 else 7)
    if k == 0:
        return None
    if k == 1:
        return r.random() < 0.5
    if k == 2:
        return r.choice([0, 1, -1, 2 ** 80, -(2 ** 70), 65535, r.randrange(10 ** 9)])
    if k == 3:
        return g_ts(r)
    if k == 4:
        return g_str(r)
    if k == 5:
        return B(g_bytes(r, big=False))
    if k == 6:
        return r.choice(["", "0", "true", "~"])
    if k in (7, 8):
        return [g_meta(r, depth + 1) for _ in range(r.randrange(0, 4))]
    return {"map": [[r.choice(["a", "b", "", "kéy", "5:", "nested", str(i)]) + str(i), g_meta(r, depth + 1)]
                    for i in range(r.randrange(0, 4))]}


def g_metadata(r):
    return {"map": [[k, g_meta(r)] for k in r.sample(["a", "websocket", "duplicated", "", "kéy", "x" * 50,
                                                        "replay", "content_view"], r.randrange(0, 5))]}


PROXY_MODES = ["regular", "transparent", "socks5", "reverse:https://example.com:443", "upstream:http://proxy:8080",
               "dns", "reverse:dns://8.8.8.8:53", "regular@127.0.0.1:9090", "reverse:tcp://h:1", "reverse:quic://h:1",
               "wireguard", "local", "socks5@[::1]:1080", "reverse:tls://x:1@7000"]
TLS_VERSIONS = ["SSLv3", "TLSv1", "TLSv1.1", "TLSv1.2", "TLSv1.3", "DTLSv0.9", "DTLSv1", "DTLSv1.2", "QUICv1"]


def _conn_fields(prefix, server):
    f = {
        "peername": (lambda r: g_addr(r)) if not server else (lambda r: g_opt(r, g_addr)),
        "sockname": (lambda r: g_addr(r)) if not server else (lambda r: g_opt(r, g_addr)),
        "id": g_str,
        "transport_protocol": lambda r: r.choice(["tcp", "udp"]),
        "error": lambda r: g_opt(r, g_str),
        "tls": lambda r: r.random() < 0.5,
        "certificate_list": lambda r: [{"cert": r.randrange(N_CERTS)} for _ in range(r.randrange(0, 4))],
        "alpn": lambda r: g_opt(r, lambda r: B(r.choice([b"h2", b"http/1.1", b"h3", b"", b"\xff"]))),
        "alpn_offers": lambda r: [B(r.choice([b"h2", b"http/1.1", b"h3", b""])) for _ in range(r.randrange(0, 4))],
        "cipher": lambda r: g_opt(r, g_str),
        "cipher_list": lambda r: [g_str(r) for _ in range(r.choice([0, 1, 3, 30]))],
        "tls_version": lambda r: g_opt(r, lambda r: r.choice(TLS_VERSIONS)),
        "sni": lambda r: g_opt(r, g_str),
        "timestamp_start": g_ts if not server else (lambda r: g_opt(r, g_ts)),
        "timestamp_end": lambda r: g_opt(r, g_ts),
        "timestamp_tls_setup": lambda r: g_opt(r, g_ts),
    }
    if server:
        f["address"] = lambda r: g_opt(r, lambda r: g_addr(r)[:2])
        f["timestamp_tcp_setup"] = lambda r: g_opt(r, g_ts)
        f["via"] = lambda r: g_opt(r, lambda r: [r.choice(["http", "https", "dns", "tcp"]),
                                                  [r.choice(["proxy.test", "10.0.0.9"]), r.randrange(65536)]], 0.5)
    else:
        f["mitmcert"] = lambda r: g_opt(r, lambda r: {"cert": r.randrange(N_CERTS)}, 0.5)
        f["proxy_mode"] = lambda r: r.choice(PROXY_MODES)
    return {f"{prefix}.{k}": v for k, v in f.items()}


def _msg_fields(prefix, response):
    f = {
        "http_version": lambda r: B(r.choice([b"HTTP/1.1", b"HTTP/1.0", b"HTTP/2.0", b"HTTP/3", b"", b"\xff"])),
        "headers": g_headers,
        "content": lambda r: g_opt(r, lambda r: B(g_bytes(r)), 0.15),
        "trailers": lambda r: g_opt(r, g_headers, 0.4),
        "timestamp_start": g_ts,
        "timestamp_end": lambda r: g_opt(r, g_ts),
    }
    if response:
        f["status_code"] = lambda r: r.choice([200, 101, 204, 304, 404, 500, 0, 999, 99999])
        f["reason"] = lambda r: B(g_bytes(r, big=False))
    else:
        f["host"] = g_str
        f["port"] = lambda r: r.choice([0, 80, 443, 65535, 8080])
        f["method"] = lambda r: B(r.choice([b"GET", b"POST", b"CONNECT", b"", b"\xff\x00", b"OPTIONS"]))
        f["scheme"] = lambda r: B(r.choice([b"http", b"https", b"", b"ws"]))
        f["authority"] = lambda r: B(g_bytes(r, big=False))
        f["path"] = lambda r: B(r.choice([b"/", b"*", b"", b"/p?q=1#f", b"/\xff\x00"]))
    return {f"{prefix}.{k}": v for k, v in f.items()}


def g_ws_msgs(r):
    return [[r.choice([1, 2]), r.random() < 0.5, B(g_bytes(r, big=r.random() < 0.1)), g_ts_msg(r),
             r.random() < 0.3, r.random() < 0.3] for _ in range(r.choice([0, 1, 2, 5, 30]))]


def g_stream_msgs(r):
    return [[r.random() < 0.5, B(g_bytes(r, big=r.random() < 0.1)), g_ts_msg(r)]
            for _ in range(r.choice([0, 1, 2, 5, 30]))]


def g_dns_q(r):
    return [g_str(r), r.choice([1, 28, 5, 16, 65, 65535, 0]), r.choice([1, 3, 255, 0])]


def g_dns_rr(r):
    return g_dns_q(r) + [r.choice([0, 32, 2 ** 31 - 1]), B(g_bytes(r, big=False))]


def g_dns_msg(r):
    return {"map": [
        ["id", r.randrange(65536)], ["query", r.random() < 0.5], ["op_code", r.choice([0, 1, 2, 5, 15])],
        ["authoritative_answer", r.random() < 0.5], ["truncation", r.random() < 0.5],
        ["recursion_desired", r.random() < 0.5], ["recursion_available", r.random() < 0.5],
        ["reserved", r.choice([0, 1, 7])], ["response_code", r.choice([0, 2, 3, 5, 15])],
        ["questions", [g_dns_q(r) for _ in range(r.choice([0, 1, 1, 3]))]],
        ["answers", [g_dns_rr(r) for _ in range(r.choice([0, 1, 2, 10]))]],
        ["authorities", [g_dns_rr(r) for _ in range(r.choice([0, 0, 1]))]],
        ["additionals", [g_dns_rr(r) for _ in range(r.choice([0, 0, 2]))]],
        ["timestamp", g_opt(r, g_ts)],
    ]}


COMMON_FIELDS = {
    "error": lambda r: g_opt(r, lambda r: {"map": [["msg", g_str(r)], ["timestamp", g_ts(r)]]}),
    "intercepted": lambda r: r.random() < 0.5,
    "is_replay": lambda r: r.choice([None, "request", "response"]),
    "marked": lambda r: r.choice(["", ":default:", ":grapes:", "x", "\U0001f347", g_str(r)]),
    "metadata": g_metadata,
    "comment": g_str,
    "timestamp_created": g_ts,
    "id": g_str,
    "backup": lambda r: True,
    **_conn_fields("client_conn", False),
    **_conn_fields("server_conn", True),
}

KIND_FIELDS = {
    "http": {**_msg_fields("request", False), **_msg_fields("response", True),
             "response": lambda r: None},
    "ws": {**_msg_fields("request", False), **_msg_fields("response", True),
           "websocket.messages": g_ws_msgs,
           "websocket.closed_by_client": lambda r: r.choice([None, True, False]),
           "websocket.close_code": lambda r: r.choice([None, 1000, 1006, 4999, 0]),
           "websocket.close_reason": lambda r: g_opt(r, g_str),
           "websocket.timestamp_end": lambda r: g_opt(r, g_ts)},
    "tcp": {"messages": g_stream_msgs},
    "udp": {"messages": g_stream_msgs},
    "dns": {"request": g_dns_msg, "response": lambda r: g_opt(r, g_dns_msg)},
}
KINDS = ["http", "ws", "tcp", "udp", "dns"]


def gen_flow_spec(r, kind=None, max_edits=None, tag=0):
    kind = kind or r.choice(KINDS)
    base = {"resp": r.random() < 0.7, "err": r.random() < 0.25, "created": T0 + r.randrange(1000),
            "ids": [f"f{tag}-{r.randrange(16 ** 8):08x}", f"c{tag}-{r.randrange(16 ** 8):08x}",
                    f"s{tag}-{r.randrange(16 ** 8):08x}"]}
    fields = {**COMMON_FIELDS, **KIND_FIELDS[kind]}
    names = sorted(fields)
    mode = r.choice(["none", "few", "few", "many", "all"]) if max_edits is None else "few"
    if mode == "none":
        chosen = []
    elif mode == "few":
        chosen = [r.choice(names) for _ in range(r.randrange(1, max_edits or 5))]
    elif mode == "many":
        chosen = [n for n in names if r.random() < 0.4]
        r.shuffle(chosen)
    else:
        chosen = list(names)
        r.shuffle(chosen)
    edits = []
    for n in chosen:
        if n == "response" and kind == "http" and any(e["f"].startswith("response.") for e in edits):
            continue
        edits.append({"f": n, "v": fields[n](r)})
    # "response": None makes later response.* edits meaningless: drop them
    if kind == "http":
        out, gone = [], False
        for e in edits:
            if e["f"] == "response":
                gone = True
            elif gone and e["f"].startswith("response."):
                continue
            out.append(e)
        edits = out
    return {"kind": kind, "base": base, "edits": edits}


# ---------------------------------------------------------------------------
# builder: spec -> real flow object
# ---------------------------------------------------------------------------
def _headers(v):
    from mitmproxy import http
    return http.Headers([(dec(a), dec(b)) for a, b in v])


def _dns_msg(v):
    from mitmproxy import dns
    d = dec(v)
    d["questions"] = [dns.Question(*q) for q in d["questions"]]
    for k in ("answers", "authorities", "additionals"):
        d[k] = [dns.ResourceRecord(*rr) for rr in d[k]]
    return dns.DNSMessage(**d)


def build_flow(spec):
    from mitmproxy import flow as mflow
    from mitmproxy import tcp, udp, websocket
    from mitmproxy.net import server_spec
    from mitmproxy.proxy.mode_specs import ProxyMode
    from mitmproxy.test import tflow

    kind = spec["kind"]
    base = spec["base"]
    err = bool(base.get("err"))
    if kind == "http":
        f = tflow.tflow(resp=bool(base.get("resp")), err=err)
    elif kind == "ws":
        f = tflow.tflow(resp=True, ws=True, err=err)
        f.response.status_code = 101
    elif kind == "tcp":
        f = tflow.ttcpflow(err=err or None)
    elif kind == "udp":
        f = tflow.tudpflow(err=err or None)
    elif kind == "dns":
        f = tflow.tdnsflow(resp=bool(base.get("resp")), err=err)
    else:
        raise ValueError(kind)
    f.id, f.client_conn.id, f.server_conn.id = base["ids"]
    f.timestamp_created = base["created"]
    f.live = False

    for e in spec.get("edits", []):
        name, v = e["f"], e["v"]
        head, _, attr = name.partition(".")
        if name == "backup":
            f.backup()
        elif name == "error":
            f.error = None if v is None else mflow.Error(**dec(v))
        elif name in ("intercepted", "is_replay", "marked", "comment", "timestamp_created", "id"):
            setattr(f, name, dec(v))
        elif name == "metadata":
            f.metadata = dec(v)
        elif head in ("client_conn", "server_conn"):
            c = getattr(f, head)
            val = dec(v)
            if attr in ("peername", "sockname", "address"):
                val = None if val is None else tuple(val)
            elif attr == "via":
                val = None if val is None else server_spec.ServerSpec((val[0], tuple(val[1])))
            elif attr == "proxy_mode":
                val = ProxyMode.parse(val)
            setattr(c, attr, val)
        elif head in ("request", "response") and kind in ("http", "ws"):
            if not attr:
                f.response = None
                continue
            m = getattr(f, head)
            if m is None:
                continue
            if attr in ("headers", "trailers"):
                val = None if v is None else _headers(v)
            else:
                val = dec(v)
            setattr(m.data, attr, val)
        elif head == "websocket":
            ws = f.websocket
            if attr == "messages":
                msgs = []
                for t, fc, c, ts, dr, inj in dec(v):
                    m = websocket.WebSocketMessage(t, fc, c, 1.0, dr, inj)
                    m.timestamp = ts
                    msgs.append(m)
                ws.messages = msgs
            else:
                setattr(ws, attr, dec(v))
        elif name == "messages":
            cls = tcp.TCPMessage if kind == "tcp" else udp.UDPMessage
            msgs = []
            for fc, c, ts in dec(v):
                m = cls(fc, c, 1.0)
                m.timestamp = ts
                msgs.append(m)
            f.messages = msgs
        elif kind == "dns" and name == "request":
            f.request = _dns_msg(v)
        elif kind == "dns" and name == "response":
            f.response = None if v is None else _dns_msg(v)
        else:
            raise ValueError(f"unknown edit {name} for {kind}")
    return f


def flow_type_of(kind):
    return {"ws": "http"}.get(kind, kind)


def finite(x):
    return not (isinstance(x, float) and (math.isnan(x) or math.isinf(x)))
