"""Model-world host for single-addon histories (C52, C54).

A real ``Master`` (real ``AddonManager``, ``CommandManager``, ``Options``, ``Core``) plus the real
addon(s) under test, on a fresh virtual-time loop.  ``time.time`` (as seen by every module,
including ``mitmproxy.net.http.cookies`` and ``mitmproxy.http``) is the simulated clock
``EPOCH + loop.time()``.  No network, no files, no threads.
"""
from __future__ import annotations

import asyncio
import logging
import time as _time

from simkit import vloop

EPOCH = 1_750_000_000.0  # fixed: 2025-06-15T15:06:40Z


class _ErrHandler(logging.Handler):
    def __init__(self, host):
        super().__init__(level=logging.WARNING)
        self.host = host

    def emit(self, record):
        try:
            msg = record.getMessage()
        except Exception:  # pragma: no cover
            msg = str(record.msg)
        if "Addon error" in msg or (record.levelno >= logging.ERROR and record.exc_info):
            e = record.exc_info[1] if record.exc_info else None
            where = ""
            if e is not None:
                t = e.__traceback__
                last = None
                while t is not None:
                    last = t
                    t = t.tb_next
                if last is not None:
                    where = last.tb_frame.f_code.co_name
            self.host.crashes.append((type(e).__name__ if e is not None else "error", where, msg.split("\n")[0][:200]))


class Host:
    def __init__(self, loop):
        self.loop = loop
        self.master = None
        self.options = None
        self.crashes: list = []

    def now(self) -> float:
        return EPOCH + self.loop.time()

    async def advance(self, dt: float):
        if dt > 0:
            await asyncio.sleep(dt)

    async def hook(self, h):
        """Deliver one lifecycle hook the way the proxy core does (all addons, then ``update``)."""
        await self.master.addons.handle_lifecycle(h)

    def command(self, name, *args):
        return self.master.commands.call(name, *args)


def run(make_addons, body, *, eager=False):
    """Run ``await body(host)`` with the addons returned by ``make_addons()`` loaded into a real Master."""
    out = {}

    async def main(loop):
        from mitmproxy import master as mmaster, options as moptions
        from mitmproxy.addons import core

        host = Host(loop)
        old_time = _time.time
        _time.time = host.now
        root = logging.getLogger()
        lh = _ErrHandler(host)
        old_level = root.level
        root.addHandler(lh)
        root.setLevel(logging.WARNING)
        m = None
        try:
            opts = moptions.Options()
            m = mmaster.Master(opts, event_loop=loop)
            host.master, host.options = m, opts
            m.addons.add(core.Core(), *make_addons())
            out["value"] = await body(host)
            out["sim_s"] = loop.time()
        finally:
            if m is not None:
                m._legacy_log_events.uninstall()
            root.removeHandler(lh)
            root.setLevel(old_level)
            _time.time = old_time
        return host

    host = vloop.run(main, eager=eager)
    return out.get("value"), host, out.get("sim_s", 0.0)
